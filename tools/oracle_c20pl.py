"""C20 (parking_lot part) — model-independent oracle: the lock_api contracts evaluated on the
implementation's own log.  `o_pl(prog_lines, impl_log_lines) -> [(what, signature)]`.

The log has one `O tid body pc result` line per COMPLETED operation; operations of one task run back to
back, so a task is inside operation `pc` from its previous `O` line up to the `O` line of `pc`.  The
monitor keeps, per lock, the set of guards and how sure it is about each of them:

  def    held for certain (from the completion line of the acquisition up to the START of the operation
         that gives it up)
  shared the owner is inside a conversion that keeps at least one shared permit throughout
         (write -> read, write -> upgradable, upgradable -> read, try_upgrade)
  maybe  the owner is inside an operation that releases it (unlock, upgrade, end of task, unwinding)

Only `def`/`shared` guards are used as evidence, so everything reported is a violation on every
reading of the log.

Signatures: C20:exclusion, C20:two-upgradable, C20:try-spurious, C20:upgrade-overtaken,
C20:downgrade-admits-writer, C20:downgrade-blocks, C20:stale-read.
"""
import re
from propbase import executions
from oracles import parse_program

ACQ = {"pl_lock": "m", "pl_try_lock": "m", "pl_read": "r", "pl_try_read": "r", "pl_write": "w", "pl_try_write": "w",
       "pl_upread": "u", "pl_try_upread": "u"}
REL = {"pl_unlock": "m", "pl_unread": "r", "pl_unwrite": "w", "pl_unupread": "u"}
# conversion: (kind consumed, kind produced, what is certain while it runs)
CONV = {"pl_upgrade": ("u", "w", "maybe"), "pl_try_upgrade": ("u", "w", "shared"),
        "pl_downgrade": ("w", "r", "shared"), "pl_down_up": ("w", "u", "shared"), "pl_to_up_read": ("u", "r", "shared")}
DOWNGRADES = ("pl_downgrade", "pl_down_up", "pl_to_up_read")
TRY = ("pl_try_lock", "pl_try_read", "pl_try_write", "pl_try_upread", "pl_try_upgrade")


def next_pc(ops, pc, last):
    """the next operation index after `pc` completed with result `last` (`if <v> skip <n>`)"""
    p = pc + 1
    while p < len(ops) and ops[p][0] == "if":
        p += (int(ops[p][3]) + 1) if (len(ops[p]) > 3 and last == ops[p][1]) else 1
    return p


def conflicts(kind, g):
    """does a request / guard of `kind` exclude guard `g` (by its certain content)"""
    gk = g["kind"] if g["state"] == "def" else ("s" if g["state"] == "shared" else None)
    if gk is None:
        return False
    if kind == "m" or gk == "m":
        return kind == gk
    if kind == "w" or gk == "w":
        return True
    return kind == "u" and gk == "u"


def o_pl(prog, lines):
    P = parse_program(prog)
    bodies = P["bodies"]
    objs = P["objs"]
    plobjs = {n for n, k in objs.items() if k in ("plmutex", "plrwlock")}
    init = {}
    for l in prog:
        t = l.split("#")[0].split()
        if len(t) >= 3 and t[0] == "obj" and t[2] in ("plmutex", "plrwlock"):
            init[t[1]] = int(t[3]) if len(t) > 3 and t[3].isdigit() else 0
    bad = []
    if not plobjs:
        return bad
    for e in executions(lines):
        L = e["lines"]
        seen = set()

        def report(what, sig):
            if (what, sig) not in seen:
                seen.add((what, sig))
                bad.append((what, sig))

        # ---- pass 1: operation intervals. ev[i] = list of ('begin'|'done', tid, body, pc|None)
        olines = []                       # (index, tid, body, pc, res)
        for i, l in enumerate(L):
            if l.startswith("O "):
                t = l.split()
                if len(t) >= 5 and t[3].isdigit():
                    olines.append((i, int(t[1]), int(t[2]), int(t[3]), t[4]))
                elif len(t) == 4 and t[3] == "end":
                    olines.append((i, int(t[1]), int(t[2]), None, "end"))
        begins = {}                       # index -> list of (tid, body, pc or None)
        last_of = {}                      # tid -> (index, body, pc, res)
        first_seen = {}
        for i, l in enumerate(L):
            if l.startswith("D "):
                for x in l.split()[1].split(","):
                    if x and int(x) not in first_seen:
                        first_seen[int(x)] = i
        ended = set()
        for (i, tid, body, pc, res) in olines:
            prev = last_of.get(tid)
            start = prev[0] if prev else first_seen.get(tid, 0)
            begins.setdefault(start, []).append((tid, body, pc))
            if pc is None:
                ended.add(tid)
            last_of[tid] = (i, body, pc, res)
        # task ids are handed out in the order the spawns complete
        body_of, nxt = {0: 0}, 1
        for (i, tid, body, pc, res) in olines:
            op = bodies.get(body, [])[pc] if pc is not None and pc < len(bodies.get(body, [])) else None
            if op is not None and op[0] in ("spawn", "scope_spawn"):
                body_of[nxt] = int(op[1])
                nxt += 1
        # operations that never completed: what each unfinished task was about to do
        pending = {}
        for tid, i in first_seen.items():
            if tid not in last_of and tid in body_of:
                ops = bodies.get(body_of[tid], [])
                p = next_pc(ops, -1, "")
                pending[tid] = (body_of[tid], p if p < len(ops) else None)
                begins.setdefault(i, []).append((tid, body_of[tid], p if p < len(ops) else None))
        for tid, (i, body, pc, res) in last_of.items():
            if tid in ended or pc is None:
                continue
            ops = bodies.get(body, [])
            p = next_pc(ops, pc, res)
            pending[tid] = (body, p if p < len(ops) else None)
            begins.setdefault(i, []).append((tid, body, p if p < len(ops) else None))
        guards = {}                       # tid -> list of dict(obj, kind, state, val)
        try_quiet = {}                    # tid -> lock on which its try-operation runs undisturbed so far
        inop = {}                         # tid -> (name, obj) | ('drop', None)
        cur = dict(init)                  # lock -> value of the latest completed write

        def opat(body, pc):
            ops = bodies.get(body, [])
            return ops[pc] if pc is not None and pc < len(ops) else None

        def find(tid, obj, kind):
            for g in reversed(guards.get(tid, [])):
                if g["obj"] == obj and g["kind"] == kind and g["state"] != "gone":
                    return g
            return None

        def begin(tid, body, pc):
            op = opat(body, pc)
            if op is None or op[0] == "panic":
                # end of the body / unwinding: every guard is being dropped
                inop[tid] = ("drop", None)
                for g in guards.get(tid, []):
                    g["state"] = "maybe"
                    for u in list(try_quiet):
                        if u != tid and try_quiet[u] == g["obj"]:
                            del try_quiet[u]
                return
            name = op[0]
            obj = op[1] if len(op) > 1 else None
            inop[tid] = (name, obj)
            if name.startswith("pl_"):
                # somebody else starts to work on the lock: a try in progress there may fail legitimately
                for u in list(try_quiet):
                    if u != tid and try_quiet[u] == obj:
                        del try_quiet[u]
            if name in TRY:
                # the try can only be judged if the lock is quiet from its first to its last instruction
                kind = "w" if name == "pl_try_upgrade" else ACQ[name]
                own = find(tid, obj, "u") if name == "pl_try_upgrade" else None
                blockers = [(u, g) for u, g in all_guards(obj) if g is not own and
                            (g["state"] == "maybe" or conflicts(kind, g))]
                if not others_busy(tid, obj) and not blockers:
                    try_quiet[tid] = obj
                else:
                    try_quiet.pop(tid, None)
            if name in REL:
                g = find(tid, obj, REL[name])
                if g:
                    g["state"] = "maybe"
            elif name in CONV:
                g = find(tid, obj, CONV[name][0])
                if g:
                    g["state"] = CONV[name][2]
                    g["conv"] = name

        def others_busy(tid, obj):
            """is some other task inside an operation that may touch lock `obj`"""
            for u, (name, o) in inop.items():
                if u == tid:
                    continue
                if name == "drop":
                    if any(g["obj"] == obj for g in guards.get(u, [])):
                        return True
                elif o == obj and name.startswith("pl_"):
                    return True
            return False

        def all_guards(obj):
            for u, gs in guards.items():
                for g in gs:
                    if g["obj"] == obj:
                        yield u, g

        deadlock = (e["end"] or "").startswith("E fail deadlock")
        for i, l in enumerate(L):
            if l.startswith("O "):
                t = l.split()
                tid = int(t[1])
                if len(t) == 4 and t[3] == "end":
                    guards[tid] = []
                    inop.pop(tid, None)
                elif len(t) >= 5 and t[3].isdigit():
                    body, pc, res = int(t[2]), int(t[3]), t[4]
                    op = opat(body, pc)
                    inop.pop(tid, None)
                    if op is not None and len(op) > 1 and op[1] in plobjs:
                        name, obj = op[0], op[1]
                        val = int(res[2:]) if res.startswith("v:") and res[2:].isdigit() else None
                        if name in ACQ and val is not None:
                            kind = ACQ[name]
                            for u, g in all_guards(obj):
                                if conflicts(kind, g):
                                    both_up = kind == "u" and g["kind"] == "u" and g["state"] == "def"
                                    report(f"task {tid} completed `{name} {obj}` while task {u} holds a "
                                           f"{g['kind']}-guard on it",
                                           "C20:two-upgradable" if both_up else "C20:exclusion")
                            if val != cur.get(obj):
                                report(f"task {tid} `{name} {obj}` saw {val} but the latest completed write stored "
                                       f"{cur.get(obj)}", "C20:stale-read")
                            guards.setdefault(tid, []).append({"obj": obj, "kind": kind, "state": "def", "val": val})
                        elif name in TRY and res == "wouldblock":
                            kind = "w" if name == "pl_try_upgrade" else ACQ[name]
                            own = find(tid, obj, "u") if name == "pl_try_upgrade" else None
                            if own is not None:
                                own["state"] = "def"
                            if try_quiet.get(tid) == obj and not others_busy(tid, obj):
                                blockers = [(u, g) for u, g in all_guards(obj) if g is not own and
                                            (g["state"] == "maybe" or conflicts(kind, g))]
                                if not blockers:
                                    report(f"task {tid} `{name} {obj}` reported wouldblock although nobody holds or "
                                           f"requests a conflicting access (something was left behind)",
                                           "C20:try-spurious")
                        elif name in CONV and val is not None:
                            src, dst, _ = CONV[name]
                            g = None
                            for x in reversed(guards.get(tid, [])):
                                if x["obj"] == obj and x.get("conv") == name:
                                    g = x
                                    break
                            if g is not None:
                                if val != g["val"]:
                                    if name in ("pl_upgrade", "pl_try_upgrade"):
                                        report(f"task {tid} saw {g['val']} under its upgradable read of {obj} and {val} "
                                               f"right after the upgrade: a writer got in between",
                                               "C20:upgrade-overtaken")
                                    else:
                                        report(f"task {tid} wrote/saw {g['val']} and sees {val} after `{name} {obj}`",
                                               "C20:downgrade-admits-writer")
                                g["kind"], g["state"], g["val"] = dst, "def", val
                                g.pop("conv", None)
                                for u, h in all_guards(obj):
                                    if h is not g and conflicts(dst, h):
                                        report(f"task {tid} completed `{name} {obj}` while task {u} holds a "
                                               f"{h['kind']}-guard on it",
                                               "C20:two-upgradable" if dst == "u" and h["kind"] == "u" else "C20:exclusion")
                        elif name in REL and res == "ok":
                            g = None
                            for x in reversed(guards.get(tid, [])):
                                if x["obj"] == obj and x["kind"] == REL[name]:
                                    g = x
                                    break
                            if g is not None:
                                guards[tid].remove(g)
                        elif name == "setval" and res == "ok":
                            v = int(op[2])
                            for u, g in all_guards(obj):
                                if u != tid and g["state"] in ("def", "shared"):
                                    report(f"task {tid} wrote {obj} while task {u} holds a {g['kind']}-guard on it",
                                           "C20:exclusion")
                            cur[obj] = v
                            for g in reversed(guards.get(tid, [])):
                                if g["obj"] == obj and g["kind"] in ("w", "m"):
                                    g["val"] = v
                                    break
                        # a write access completed: nobody else may be inside an upgrade / a downgrade
                        if ((name in ("pl_write", "pl_try_write") and val is not None) or
                                (name in ("pl_upgrade", "pl_try_upgrade") and val is not None)):
                            for u, (n2, o2) in inop.items():
                                if u == tid or o2 != obj:
                                    continue
                                if n2 == "pl_upgrade" and any(g.get("conv") == n2 for g in guards.get(u, [])):
                                    report(f"task {tid} completed `{name} {obj}` between task {u}'s upgradable read and "
                                           f"the completion of its upgrade", "C20:upgrade-overtaken")
                                if n2 in DOWNGRADES and any(g.get("conv") == n2 for g in guards.get(u, [])):
                                    report(f"task {tid} completed `{name} {obj}` while task {u} was inside `{n2}`",
                                           "C20:downgrade-admits-writer")
            for (tid, body, pc) in begins.get(i, []):
                begin(tid, body, pc)
        if deadlock:
            for tid, (body, pc) in pending.items():
                op = opat(body, pc)
                if op is not None and op[0] in DOWNGRADES and any(g.get("conv") == op[0] for g in guards.get(tid, [])):
                    report(f"deadlock with task {tid} blocked inside `{op[0]} {op[1]}` (a downgrade must not wait)",
                           "C20:downgrade-blocks")
    return bad


if __name__ == "__main__":
    import sys, os
    sys.path.insert(0, os.path.dirname(os.path.abspath(__file__)))
    from corr import split_sections, split_programs
    progs = split_programs(open(sys.argv[1]).read().split("\n"))
    impl, order = split_sections(open(sys.argv[2]).read().split("\n"))
    tot = {}
    for n in order:
        for what, sig in o_pl(progs.get(n, []), impl[n]):
            tot.setdefault(sig, []).append((n, what))
    for sig, items in sorted(tot.items()):
        print(sig, len(items))
        for n, what in items[:3]:
            print("   ", n, ":", what)
    if not tot:
        print("no violations")
