"""Trace-mode correspondence: run a batch of IR programs on the real Shuttle (vh) and on the model
(shuttle_model trace, driven by the implementation's choices) and compare the two logs line by line."""
import os, sys
from vlib import *


def split_sections(lines):
    secs, cur, name = {}, None, None
    order = []
    for l in lines:
        if l.startswith("=== "):
            name = l[4:].strip()
            cur = []
            secs[name] = cur
            order.append(name)
        elif cur is not None:
            cur.append(l)
    return secs, order


import re
_TASK = re.compile(r"\(task [^()]*\((\d+)\)((?:, [a-z ]+)*)\)")


def canon_fail(msg):
    """canonical form of a failure message (the model prints these forms directly)"""
    if msg.startswith("deadlock! blocked tasks: ["):
        items = []
        for m in _TASK.finditer(msg):
            it = m.group(1)
            if ", detached" in m.group(2):
                it += ":d"
            if ", pending future" in m.group(2):
                it += ":p"
            items.append(it)
        return "E deadlock " + ",".join(items)
    m = re.match(r"exceeded max_steps bound (\d+)", msg)
    if m:
        return "E stepbound " + m.group(1)
    # RwLock's internal assertion (reached only while another task's panic is propagating, F12): the model prints it without the state dump
    msg = re.sub(r"resumed a waiting (Read|Write) thread while the lock was in state .*$", "resumed a waiting thread while the lock was in an incompatible state", msg)
    return "E panic " + re.sub(r"task [^\s()]*\((\d+)\)", r"task TaskId(\1)", msg)


def canon(lines):
    out = []
    skip_s = False
    for l in lines:
        if l.startswith("N ") or l == "X end" or l == "" or l.startswith("P ") or l.startswith("L "):
            continue
        if l.startswith("E fail "):
            msg = l[7:]
            if msg.startswith("test closure did not exercise any concurrency"):
                # PCT's diagnostic is raised by new_execution, outside any execution: the schedule line that follows
                # is the previous execution's, printed again
                skip_s = True
                out.append("E panic test closure did not exercise any concurrency")
                continue
            l = canon_fail(msg)
        if skip_s and l.startswith("S "):
            skip_s = False
            continue
        out.append(l)
    return out


def split_programs(batch_lines):
    progs, cur, name = {}, None, None
    for l in batch_lines:
        if l.startswith("=== "):
            name = l[4:].strip()
            cur = [l]
            progs[name] = cur
        elif cur is not None:
            cur.append(l)
    return progs


def run_batch(batch_lines, tag, jobs=8, model_mode="trace", model_arg=None, run_impl=True):
    """returns (impl_sections, model_sections, order, stats). Splits the batch over `jobs` processes.
    model_mode: trace (model follows the implementation's choices) | predict (model's own scheduler)
    | enumerate (independent enumeration of the choice tree, model_arg = leaf limit) | none"""
    import concurrent.futures
    progs = split_programs(batch_lines)
    names = list(progs)
    chunks = [names[i::jobs] for i in range(jobs)]
    chunks = [c for c in chunks if c]

    def work(idx_chunk):
        idx, chunk = idx_chunk
        lines = []
        for n in chunk:
            lines += progs[n]
        pfile = os.path.join(WORK, f"{tag}_{idx}.vp")
        open(pfile, "w").write("\n".join(lines) + "\n")
        if run_impl:
            rc, out, err, dt = sh([VH, "run", pfile], timeout=900, mem_gb=6)
        else:
            rc, out, err, dt = 0, "", "", 0.0
        ifile = os.path.join(WORK, f"{tag}_{idx}.impl")
        open(ifile, "w").write(out)
        if model_mode == "trace":
            rc2, out2, err2, dt2 = sh([MODEL, "trace", pfile, ifile], timeout=1800)
        elif model_mode == "predict":
            rc2, out2, err2, dt2 = sh([MODEL, "predict", pfile], timeout=1800)
        elif model_mode == "enumerate":
            rc2, out2, err2, dt2 = sh([MODEL, "enumerate", pfile, str(model_arg or 1000)], timeout=1800)
        else:
            rc2, out2, err2, dt2 = 0, "", "", 0.0
        open(os.path.join(WORK, f"{tag}_{idx}.model"), "w").write(out2)
        return rc, out, err, rc2, out2, err2, dt, dt2

    impl, model = {}, {}
    crashed = []
    t_impl = t_model = 0.0
    with concurrent.futures.ThreadPoolExecutor(max_workers=jobs) as ex:
        for (idx, chunk), res in zip(enumerate(chunks), ex.map(work, list(enumerate(chunks)))):
            rc, out, err, rc2, out2, err2, dt, dt2 = res
            t_impl += dt
            t_model += dt2
            s, _ = split_sections(out.split("\n"))
            impl.update(s)
            s2, _ = split_sections(out2.split("\n"))
            model.update(s2)
            if rc != 0:
                # the harness died (abort): the last program it started is the culprit
                done = [n for n in chunk if n in s]
                crashed.append((done[-1] if done else chunk[0], rc, err[-300:]))
            if rc2 != 0:
                crashed.append(("<model driver>", rc2, err2[-300:]))
    return impl, model, names, {"crashed": crashed, "t_impl": t_impl, "t_model": t_model}


def compare(impl, model, names):
    """returns list of (name, index, impl_line, model_line) for the first difference of each program"""
    diffs = []
    for n in names:
        a = canon(impl.get(n, ["<missing>"]))
        b = canon(model.get(n, ["<missing>"]))
        # (trace mode follows the recorded decisions and has no scheduler of its own to raise PCT's diagnostic)
        diag = "E panic test closure did not exercise any concurrency"
        if a and a[-1] == diag and (not b or b[-1] != diag):
            a = a[:-1]
        if a != b:
            i = 0
            while i < min(len(a), len(b)) and a[i] == b[i]:
                i += 1
            diffs.append((n, i, a[i] if i < len(a) else "<end>", b[i] if i < len(b) else "<end>"))
    return diffs


def stats(impl):
    st = {"executions": 0, "decisions": 0, "draws": 0, "observations": 0, "clock_samples": 0, "outcomes": {}, "ops": {}}
    for n, lines in impl.items():
        for l in lines:
            c = l[:2]
            if c == "X ":
                if l != "X end":
                    st["executions"] += 1
            elif c == "D ":
                st["decisions"] += 1
            elif c == "R ":
                st["draws"] += 1
            elif c == "O ":
                st["observations"] += 1
            elif c == "C ":
                st["clock_samples"] += 1
            elif c == "E ":
                k = " ".join(l.split()[:2])
                st["outcomes"][k] = st["outcomes"].get(k, 0) + 1
    return st


if __name__ == "__main__":
    import gen, subprocess
    # always compare against /repo's current working tree
    subprocess.run("cargo build --release --offline -q 2>&1 | tail -3", shell=True, cwd=os.path.join(os.path.dirname(os.path.dirname(os.path.abspath(__file__))), "harness"),
                   env=dict(os.environ, CARGO_NET_OFFLINE="true"))
    profile = sys.argv[1]
    count = int(sys.argv[2])
    seed = int(sys.argv[3]) if len(sys.argv) > 3 else 1
    kinds = tuple(sys.argv[4].split(",")) if len(sys.argv) > 4 else ("random", "pct", "rr", "dfs")
    lines = gen.batch(seed, profile, count, profile + "_", kinds)
    open(os.path.join(WORK, "corr_batch.vp"), "w").write("\n".join(lines) + "\n")
    impl, model, names, st = run_batch(lines, "corr")
    d = compare(impl, model, names)
    print(stats(impl))
    print("crashed:", st["crashed"], "t_impl=%.1f t_model=%.1f" % (st["t_impl"], st["t_model"]))
    print(f"{len(d)} / {len(names)} programs differ")
    for n, i, a, b in d[:12]:
        print(f"  {n} @line {i}:\n    impl : {a}\n    model: {b}")
