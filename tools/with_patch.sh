#!/bin/bash
# with_patch.sh <patch.diff> <command…> : apply the patch to /repo, rebuild the harness, run the command,
# ALWAYS restore /repo and rebuild the harness again (a stale mutant binary is worse than a slow script)
p="$1"; shift
git -C /repo apply "$p" || exit 2
(cd /verif/harness && CARGO_NET_OFFLINE=true cargo build --release --offline -q 2>&1 | tail -3)
"$@"; rc=$?
git -C /repo checkout -- .
(cd /verif/harness && CARGO_NET_OFFLINE=true cargo build --release --offline -q 2>&1 | tail -3)
exit $rc
