#!/usr/bin/env python3
"""C20 (collections part) differential check: deterministic HashMap/HashSet + DashMap/DashSet shim.

usage: c20coll_check.py [--bin PATH] [--seed N] [--histories N] [--dash N] [--no-build] [-v]

Runs the harness binary /verif/harness/target/release/vh_c20coll (built first unless --no-build / --bin) and checks:

 1. hashers   every way of obtaining a deterministic HashMap/HashSet must carry the fixed-key hasher: the three
              probe hashes of each line must equal those of the line `map.new`, AND that line must equal the
              `probe` line of /verif/tools/c20coll_expected.txt, which is computed by the Lean SipHash-1-3 model
              (ShuttleModel/Wrap/SipHash.lean; regenerate with tools/c20coll_expected.lean).
 2. vectors   the real std hasher agrees with the Lean model on every test vector of c20coll_expected.txt.
 3. orders    iteration order of maps/sets obtained by deserialisation / set operators: identical between two
              instances in one process (#1 vs #2) and between two processes.
 4. history   random op histories: results digest == reference (BTreeMap/BTreeSet) digest, final contents equal,
              two instances and a clone iterate identically, and the complete output (incl. full iteration
              orders) is byte-identical between two separate processes.
 5. dash      random DashMap/DashSet workloads under Shuttle's RandomScheduler: sequential replay of the
              completion-order log on a plain map gives identical results and final contents; output (incl. final
              iteration orders) byte-identical between two processes.

Each failure prints one line
    VIOLATION-CANDIDATE constructor=<name> what=<...> class=<F15|F16|NEW>
class F15 = deserialisation paths (`*.deserialize*`), F16 = set operators (`set.bitor/bitand/bitxor/sub*`),
NEW = anything else.  Exit code 0 iff there is no VIOLATION-CANDIDATE line.
"""
import argparse, os, re, subprocess, sys

VERIF = os.path.dirname(os.path.dirname(os.path.abspath(__file__)))
HARNESS = os.path.join(VERIF, "harness")
DEFAULT_BIN = os.path.join(HARNESS, "target", "release", "vh_c20coll")
EXPECTED = os.path.join(VERIF, "tools", "c20coll_expected.txt")

ENV = dict(os.environ, CARGO_NET_OFFLINE="true")
ENV.pop("SHUTTLE_RANDOM_SEED", None)

violations = []


def classify(name):
    if "deserialize" in name:
        return "F15"
    if re.match(r"set\.(bitor|bitand|bitxor|sub)(\b|_|#)", name):
        return "F16"
    return "NEW"


def violation(constructor, what):
    cls = classify(constructor)
    violations.append((constructor, what, cls))
    print("VIOLATION-CANDIDATE constructor=%s what=%s class=%s" % (constructor, what.replace(" ", "_"), cls))


def run(binary, *args):
    p = subprocess.run([binary] + list(args), capture_output=True, text=True, env=ENV, timeout=3600)
    if p.returncode != 0:
        violation("harness:" + args[0], "exit code %d: %s" % (p.returncode, (p.stderr or "")[-300:].strip()))
    return p.stdout


def main():
    ap = argparse.ArgumentParser()
    ap.add_argument("--bin", default=None)
    ap.add_argument("--seed", type=int, default=20)
    ap.add_argument("--histories", type=int, default=200)
    ap.add_argument("--dash", type=int, default=150)
    ap.add_argument("--no-build", action="store_true")
    ap.add_argument("-v", action="store_true")
    a = ap.parse_args()
    binary = a.bin or DEFAULT_BIN
    if not a.bin and not a.no_build:
        p = subprocess.run(["cargo", "build", "--release", "--offline", "--bin", "vh_c20coll"], cwd=HARNESS,
                           capture_output=True, text=True, env=ENV)
        if p.returncode != 0:
            print(p.stderr[-2000:])
            print("VIOLATION-CANDIDATE constructor=build what=harness_does_not_build class=NEW")
            return 1

    exp_lines = [l.split() for l in open(EXPECTED) if l.strip()]
    probe = [l for l in exp_lines if l[0] == "probe"][0][1:]
    exp_vectors = [l for l in exp_lines if l[0] != "probe"]

    # ---- 1. hashers
    rows = [l.split() for l in run(binary, "hashers").splitlines() if l.strip()]
    table = {}
    ref = None
    for r in rows:
        if r[0] == "map.new":
            ref = r[1:]
    if ref is None:
        violation("map.new", "no map.new line in hashers output")
        ref = probe
    if ref != probe:
        violation("map.new", "fixed-key probe hashes %s differ from the Lean SipHash model %s" % (ref, probe))
    n_ok = 0
    for r in rows:
        ok = r[1:] == ref and r[1:] == probe
        table[r[0]] = ok
        if ok:
            n_ok += 1
        elif r[0] != "map.new":
            violation(r[0], "hasher is not the fixed-key hasher: got %s expected %s" % (",".join(r[1:]), ",".join(probe)))
    print("hashers: %d/%d constructors carry the fixed-key hasher (Lean model probe %s)" % (n_ok, len(rows), " ".join(probe)))
    if a.v:
        for r in rows:
            print("   %-36s %s" % (r[0], "OK" if table[r[0]] else "RANDOM-HASHER"))

    # ---- 2. vectors
    got = [l.split() for l in run(binary, "vectors").splitlines() if l.strip()]
    if len(got) != len(exp_vectors):
        violation("siphash-model", "vector count differs: rust %d lean %d" % (len(got), len(exp_vectors)))
    bad = [(g, e) for g, e in zip(got, exp_vectors) if g != e]
    for g, e in bad[:5]:
        violation("siphash-model", "rust %s != lean %s" % (" ".join(g), " ".join(e)))
    print("vectors: %d/%d SipHash-1-3 vectors agree between std and the Lean model" % (len(got) - len(bad), len(got)))

    # ---- 3. orders (two processes)
    o1 = run(binary, "orders").splitlines()
    o2 = run(binary, "orders").splitlines()
    d1 = {l.split()[0]: (l.split() + [""])[1] for l in o1}
    d2 = {l.split()[0]: (l.split() + [""])[1] for l in o2}
    n_ord_ok = 0
    for name in d1:
        problems = []
        if d1[name] != d2.get(name):
            problems.append("iteration order differs between two processes")
        if name.endswith("#1"):
            other = name[:-2] + "#2"
            if other in d1 and d1[other] != d1[name]:
                problems.append("iteration order differs between two instances built the same way in one process")
        if problems and name.startswith("note."):
            # inherent: `From<std HashMap>` re-inserts in the std map's random iteration order (hasher is fixed,
            # see hashers); reported, not counted
            print("OBSERVATION constructor=%s what=%s" % (name[5:], "_".join("; ".join(problems).split())))
        elif problems:
            if not name.endswith("#2") or len(problems) == 1:
                violation(name, "; ".join(problems))
        else:
            n_ord_ok += 1
    print("orders: %d/%d lines stable across instances and processes" % (n_ord_ok, len(d1)))

    # ---- 4. history (two processes)
    h1 = run(binary, "history", str(a.seed), str(a.histories))
    h2 = run(binary, "history", str(a.seed), str(a.histories))
    if h1 != h2:
        l1, l2 = h1.splitlines(), h2.splitlines()
        idx = next((i for i, (x, y) in enumerate(zip(l1, l2)) if x != y), min(len(l1), len(l2)))
        violation("history", "output differs between two processes at line %d" % idx)
    nh = 0
    for l in h1.splitlines():
        f = dict(x.split("=", 1) for x in l.split()[2:] if "=" in x)
        nh += 1
        name = "history#" + l.split()[1] + ":" + f.get("kind", "?")
        if f.get("digest") != f.get("ref"):
            violation(name, "results digest %s != reference %s" % (f.get("digest"), f.get("ref")))
        for k, msg in (("final", "final contents differ from reference"),
                       ("inst2", "two instances with the same history iterate differently"),
                       ("clone", "clone iterates differently")):
            if f.get(k) != "same":
                violation(name, msg)
    if nh != a.histories:
        violation("history", "expected %d history lines, got %d" % (a.histories, nh))
    print("history: %d histories, digests equal reference, output identical across 2 processes: %s"
          % (nh, "yes" if h1 == h2 else "NO"))

    # ---- 5. dash (two processes)
    s1 = run(binary, "dash", str(a.seed), str(a.dash))
    s2 = run(binary, "dash", str(a.seed), str(a.dash))
    if s1 != s2:
        violation("dash", "output (logs / final iteration orders) differs between two processes")
    nd = execs = locked = 0
    for l in s1.splitlines():
        f = dict(x.split("=", 1) for x in l.split()[2:] if "=" in x)
        nd += 1
        execs += int(f.get("execs", "0"))
        locked += int(f.get("locked", "0"))
        name = "dash#" + l.split()[1] + ":" + f.get("kind", "?")
        if f.get("status") != "ok" or f.get("execs") != f.get("replay_ok") or f.get("execs") == "0":
            violation(name, "sequential replay of the completion log disagrees: " + f.get("status", "?"))
    if nd != a.dash:
        violation("dash", "expected %d dash lines, got %d" % (a.dash, nd))
    print("dash: %d workloads, %d executions replayed (%d try_* ops observed Locked), identical across 2 processes: %s"
          % (nd, execs, locked, "yes" if s1 == s2 else "NO"))

    # ---- summary
    by = {}
    for c, w, cls in violations:
        by.setdefault(cls, []).append(c)
    print("summary: %d violation candidates: %s" % (
        len(violations), ", ".join("%s=%d" % (k, len(v)) for k, v in sorted(by.items())) or "none"))
    return 1 if violations else 0


if __name__ == "__main__":
    sys.exit(main())
