"""C02 helpers: projection of logs to OUTCOMES and the three outcome sets of a program.

An outcome is the canonical string of `ShuttleModel.Ref.Outcome.str`:

    <body>:<pc>=<result>,<pc>=<result>;<body>:...;E:<ok|deadlock b,b|panic|other:..>

per body (all bodies of the program, in order) the results of its operations in program order —
exactly the strings of the harness's `O tid body pc result` lines (`rand` results are rendered
`v:?`) — then how the run terminated; for a deadlock the set of bodies that were spawned and did not
reach their `end` line.

  impl_outcomes(...)   the IMPLEMENTATION's log (`vh run` under `run dfs:<max>` or `run replay:<hex>`)
  model `outcomes`     the model kernel's exhaustively enumerated choice tree (`shuttle_model outcomes`)
  model `ref`          the sequentially consistent reference semantics (`shuttle_model ref`)
"""
import concurrent.futures, os
from vlib import *
import corr
from propbase import executions


def parse_program(lines):
    """-> {"name", "objs": {name: kind}, "tasks": [[(opname, [args])]]}"""
    name, objs, tasks, cur = "", {}, {}, None
    for raw in lines:
        l = raw.split("#")[0].strip()
        if not l:
            continue
        t = l.split()
        if l.startswith("=== "):
            name = l[4:].strip()
        elif cur is not None:
            if t[0] == "end":
                cur = None
            else:
                tasks[cur].append((t[0], t[1:]))
        elif t[0] == "obj" and len(t) >= 3:
            objs[t[1]] = t[2]
        elif t[0] == "task":
            cur = int(t[1])
            tasks[cur] = []
    n = (max(tasks) + 1) if tasks else 0
    return {"name": name, "objs": objs, "tasks": [tasks.get(k, []) for k in range(n)]}


def project_execution(prog, ex):
    """one execution (propbase.executions item, `end` canonicalised or raw) -> outcome string"""
    tasks = prog["tasks"]
    n = len(tasks)
    per = [[] for _ in range(n)]
    spawned, ended = {0}, set()
    for l in ex["lines"]:
        if not l.startswith("O "):
            continue
        t = l.split(" ")
        if len(t) == 4 and t[3] == "end":
            ended.add(int(t[2]))
            continue
        if len(t) != 5 or not t[3].isdigit() or not t[2].isdigit():
            continue
        k, pc, res = int(t[2]), int(t[3]), t[4]
        op = tasks[k][pc] if k < n and pc < len(tasks[k]) else ("", [])
        if op[0] in ("spawn", "scope_spawn") and res == "ok" and op[1] and op[1][0].isdigit():
            spawned.add(int(op[1][0]))
        if op[0] == "rand":
            res = "v:?"
        if k < n:
            per[k].append(f"{pc}={res}")
    end = ex["end"] or ""
    if end.startswith("E fail "):
        end = corr.canon_fail(end[7:])
    if end == "E end":
        term = "ok"
    elif end.startswith("E deadlock"):
        term = "deadlock " + ",".join(str(k) for k in range(n) if k in spawned and k not in ended)
    elif end.startswith("E panic"):
        term = "panic"
    else:
        term = "other:" + (end.split()[1] if len(end.split()) > 1 else "none")
    return ";".join(f"{k}:" + ",".join(per[k]) for k in range(n)) + ";E:" + term


def impl_outcomes(prog_lines, log_lines, cap):
    """project a `run dfs:<cap>` log. -> dict(outcomes=set, executions=n, failed=bool, complete=bool,
    scheds=[hex])  — `complete` means the real DfsScheduler exhausted the tree (no failure stopped
    the run and the iteration cap was not reached)"""
    prog = parse_program(prog_lines)
    ex = executions(log_lines)
    outs = set(project_execution(prog, e) for e in ex)
    failed = any(l.startswith("N fail") for l in log_lines) or any((e["end"] or "").startswith("E fail") for e in ex)
    return {"outcomes": outs, "executions": len(ex), "failed": failed,
            "complete": (not failed) and 0 < len(ex) < cap, "scheds": [e["sched"] for e in ex]}


def u_lines(lines):
    """(set of outcomes, complete?) from the `U …` / `T complete|truncated …` lines of the model driver"""
    outs = set(l[2:] for l in lines if l.startswith("U "))
    t = [l for l in lines if l.startswith("T ")]
    return outs, bool(t) and t[-1].startswith("T complete")


def run_model(mode, batch_lines, tag, arg, extra=None, jobs=12):
    """`shuttle_model <mode> <batch> <arg> [extra]` over the batch, split over `jobs` processes.
    -> ({name: [lines]}, [crash descriptions])"""
    progs = corr.split_programs(batch_lines)
    names = list(progs)
    chunks = [c for c in (names[i::jobs] for i in range(jobs)) if c]

    def work(ic):
        idx, chunk = ic
        pfile = os.path.join(WORK, f"{tag}_{mode}_{idx}.vp")
        with open(pfile, "w") as f:
            for n in chunk:
                f.write("\n".join(progs[n]) + "\n")
        cmd = [MODEL, mode, pfile, str(arg)] + ([extra] if extra else [])
        return sh(cmd, timeout=3000)

    out, crashed = {}, []
    with concurrent.futures.ThreadPoolExecutor(max_workers=jobs) as ex:
        for rc, o, err, dt in ex.map(work, list(enumerate(chunks))):
            s, _ = corr.split_sections(o.split("\n"))
            out.update(s)
            if rc != 0:
                crashed.append(f"shuttle_model {mode}: rc={rc} {err[-200:]}")
    return out, crashed


def replay_batch(progs, scheds_by_name):
    """one program per (program, schedule): `run replay:<hex>`; names `<prog>@<i>`"""
    lines = []
    for n, scheds in scheds_by_name.items():
        for i, h in enumerate(scheds):
            for l in progs[n]:
                if l.startswith("=== "):
                    lines.append(f"=== {n}@{i}")
                elif l.startswith("run "):
                    lines.append("run replay:" + h)
                else:
                    lines.append(l)
    return lines


def objects_of(prog, body, pc):
    """names of the objects the op at (body, pc) touches"""
    t = prog["tasks"]
    if body >= len(t) or pc >= len(t[body]):
        return []
    name, args = t[body][pc]
    return [a for a in args if a in prog["objs"]]


def parse_outcome(o):
    """-> ({body: {pc: res}}, term)"""
    parts = o.split(";")
    per = {}
    for p in parts[:-1]:
        k, _, rest = p.partition(":")
        per[int(k)] = dict((int(x.split("=", 1)[0]), x.split("=", 1)[1]) for x in rest.split(",") if x)
    return per, parts[-1][2:]


def nearest(o, others):
    """the outcome of `others` that differs from `o` in the fewest positions (ties: first sorted)"""
    po, to = parse_outcome(o)
    best, bestd = None, None
    for x in sorted(others):
        px, tx = parse_outcome(x)
        d = (0 if tx == to else 1)
        for k in set(po) | set(px):
            a, b = po.get(k, {}), px.get(k, {})
            d += sum(1 for pc in set(a) | set(b) if a.get(pc) != b.get(pc))
        if bestd is None or d < bestd:
            best, bestd = x, d
    return best


def shape_signature(prog, missing, have):
    """-> (shape, root, nearest).
    shape: sorted set of the op kinds used (anywhere in the program) on the objects of the operations
    whose results differ between the missing outcome and the nearest produced one; thread-level
    operations (spawn/join/park/…) that differ contribute their own name.
    root: the op kinds of the differing operations themselves (coarser: the same for all programs
    that exhibit one defect; used to pick the program to minimise before the shape is taken)"""
    near = nearest(missing, have)
    pm, tm = parse_outcome(missing)
    pn, tn = parse_outcome(near) if near else ({}, "")
    objs, kinds, root = set(), set(), set()
    for k in set(pm) | set(pn):
        a, b = pm.get(k, {}), pn.get(k, {})
        for pc in set(a) | set(b):
            if a.get(pc) != b.get(pc):
                os_ = objects_of(prog, k, pc)
                objs.update(os_)
                if k < len(prog["tasks"]) and pc < len(prog["tasks"][k]):
                    root.add(prog["tasks"][k][pc][0])
                    if not os_:
                        kinds.add(prog["tasks"][k][pc][0])
    for body in prog["tasks"]:
        for name, args in body:
            if any(a in objs for a in args):
                kinds.add(name)
    if tm != tn:
        kinds.add("E:" + tm.split()[0])
        root.add("E:" + tm.split()[0])
    return ",".join(sorted(kinds)), ",".join(sorted(root)), near
