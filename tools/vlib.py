"""Shared machinery of ./check: builds, axiom audit, running the harness and the model driver,
log comparison, known-findings matching, evidence and verdict."""
import json, os, re, subprocess, sys, time, hashlib

VERIF = os.path.dirname(os.path.dirname(os.path.abspath(__file__)))
REPO = os.environ.get("VERIF_REPO", "/repo")
LEAN = os.path.join(VERIF, "lean")
HARNESS = os.path.join(VERIF, "harness")
WORK = os.path.join(VERIF, "work")
VH = os.path.join(HARNESS, "target", "release", "vh")
MODEL = os.path.join(LEAN, ".lake", "build", "bin", "shuttle_model")
ALLOWED_AXIOMS = {"propext", "Classical.choice", "Quot.sound"}
ENV = dict(os.environ, CARGO_NET_OFFLINE="true")
ENV.pop("SHUTTLE_RANDOM_SEED", None)


def _limits(mem_gb):
    def f():
        import resource
        lim = int(mem_gb * (1 << 30))
        resource.setrlimit(resource.RLIMIT_AS, (lim, lim))
    return f


def sh(cmd, cwd=None, timeout=3600, env=None, input=None, mem_gb=None):
    """run a command; a time-out or a memory-limit kill is reported as a non-zero return code (never an exception):
    a runaway implementation (e.g. an execution that never ends) must become a reported crash, not a hung check"""
    t0 = time.time()
    try:
        p = subprocess.run(cmd, cwd=cwd, shell=isinstance(cmd, str), capture_output=True, text=True,
                           timeout=timeout, env=env or ENV, input=input,
                           preexec_fn=_limits(mem_gb) if mem_gb else None)
        return p.returncode, p.stdout, p.stderr, time.time() - t0
    except subprocess.TimeoutExpired as e:
        out = e.stdout.decode(errors="replace") if isinstance(e.stdout, bytes) else (e.stdout or "")
        err = e.stderr.decode(errors="replace") if isinstance(e.stderr, bytes) else (e.stderr or "")
        return -9, out, err + f"\n[timeout after {timeout}s]", time.time() - t0


class Check:
    """One run of one property check."""

    def __init__(self, pid, tier, seed):
        self.pid, self.tier, self.seed = pid, tier, seed
        self.t0 = time.time()
        self.violations = []       # (replay_path, suffix)
        self.known_printed = []
        self.cov = {"obligations": 0, "discharged": 0, "trusted_base": [], "samples": [],
                    "checker_cmd": "", "explanation": ""}
        self.assumptions = []
        self.notes = []
        os.makedirs(WORK, exist_ok=True)
        os.makedirs(os.path.join(VERIF, "replays", pid), exist_ok=True)
        os.makedirs(os.path.join(VERIF, "evidence"), exist_ok=True)
        self.known = load_known(pid)

    # ---------------------------------------------------------------- builds
    def extract_consts(self):
        rc, out, err, _ = sh([sys.executable, os.path.join(VERIF, "tools", "extract_consts.py")])
        if rc != 0:
            self.violation_noinput("constant extraction from /repo failed: " + (out + err)[-400:],
                                   "tools/extract_consts.py")
            return False
        return True

    def lake_build(self, targets):
        """incremental build; returns True on success. A failure is a broken proof obligation."""
        rc, out, err, dt = sh(["lake", "build"] + targets, cwd=LEAN, timeout=3000)
        self.notes.append(f"lake build {' '.join(targets)}: rc={rc} {dt:.1f}s")
        if rc != 0:
            bad = [l for l in (out + err).splitlines() if "error" in l][:6]
            self.lake_errors = bad
            return False
        return True

    def audit(self, audit_module, theorem_prefixes=None):
        """run `#print axioms` file; returns dict theorem -> set(axioms). Also greps the proof and
        model sources for forbidden constructs."""
        path = os.path.join(LEAN, audit_module.replace(".", "/") + ".lean")
        rc, out, err, dt = sh(["lake", "env", "lean", path], cwd=LEAN, timeout=1200)
        thms = {}
        cur = None
        text = out + err
        for m in re.finditer(r"'([^']+)' depends on axioms: \[([^\]]*)\]", text, re.S):
            thms[m.group(1)] = set(a.strip() for a in m.group(2).replace("\n", " ").split(",") if a.strip())
        for m in re.finditer(r"'([^']+)' does not depend on any axioms", text):
            thms[m.group(1)] = set()
        if theorem_prefixes:
            thms = {t: a for t, a in thms.items() if any(t.startswith(p) for p in theorem_prefixes)}
        self.cov["checker_cmd"] = f"cd lean && lake build {audit_module.rsplit('.',1)[0]}.* && lake env lean {os.path.relpath(path, LEAN)}  (#print axioms)"
        ok = rc == 0 and len(thms) > 0
        bad = {t: a - ALLOWED_AXIOMS for t, a in thms.items() if a - ALLOWED_AXIOMS}
        if bad:
            ok = False
        self.axioms = thms
        self.cov["obligations"] = len(thms)
        self.cov["discharged"] = len(thms) if ok else 0
        used = sorted(set().union(*thms.values())) if thms else []
        self.cov["trusted_base"] = ["Lean 4.33.0 kernel", "axioms used: " + (", ".join(used) if used else "none")]
        self.cov["theorems"] = sorted(thms)
        if not ok:
            self.audit_error = (f"audit rc={rc}; theorems={len(thms)}; non-standard axioms={bad}; "
                                + text[-300:])
        return ok

    def forbidden_scan(self, files):
        pat = re.compile(r"\b(sorry|admit|native_decide|bv_decide|implemented_by|unsafe)\b|^\s*axiom\s|maxHeartbeats 0")
        hits = []
        for f in files:
            p = os.path.join(LEAN, f)
            if not os.path.exists(p):
                continue
            in_block = False
            for i, line in enumerate(open(p, encoding="utf-8"), 1):
                s = line
                # strip comments (line and simple block)
                if in_block:
                    if "-/" in s:
                        in_block = False
                        s = s.split("-/", 1)[1]
                    else:
                        continue
                if "/-" in s:
                    before, _, after = s.partition("/-")
                    if "-/" in after:
                        s = before + after.split("-/", 1)[1]
                    else:
                        in_block = True
                        s = before
                s = s.split("--", 1)[0]
                if pat.search(s):
                    hits.append(f"{f}:{i}: {line.strip()[:80]}")
        return hits

    def cargo_build(self, bins=("vh",)):
        args = ["cargo", "build", "--release", "--offline"]
        for b in bins:
            args += ["--bin", b]
        rc, out, err, dt = sh(args, cwd=HARNESS, timeout=3000)
        self.notes.append(f"cargo build {bins}: rc={rc} {dt:.1f}s")
        if rc != 0:
            self.cargo_error = (out + err)[-1500:]
            return False
        return True

    # ---------------------------------------------------------------- verdicts
    def replay_path(self, tag):
        h = hashlib.sha1(tag.encode()).hexdigest()[:10]
        return os.path.join(VERIF, "replays", self.pid, f"{self.pid}_{h}.json")

    def violation(self, what, replay_obj, signature=None):
        """a failing input was found on the implementation"""
        if signature is not None:
            for k in self.known:
                if k.get("status") == "known" and k.get("signature") == signature:
                    line = f"KNOWN-FINDING: property={self.pid} {k['id']} {k['what_fails']}"
                    if line not in self.known_printed:
                        self.known_printed.append(line)
                    return False
        p = self.replay_path(json.dumps(replay_obj, sort_keys=True)[:2000] + what)
        replay_obj = dict(replay_obj, property=self.pid, what=what, signature=signature,
                          rerun=f"./check {self.pid} --replay {p}")
        json.dump(replay_obj, open(p, "w"), indent=1)
        self.violations.append((p, ""))
        return True

    def violation_noinput(self, what, broken):
        """a proof obligation or the correspondence broke and no failing input was found"""
        p = self.replay_path("noinput" + what + broken)
        json.dump({"property": self.pid, "what": what, "broken": broken, "kind": "no-failing-input-found"},
                  open(p, "w"), indent=1)
        self.violations.append((p, " no-failing-input-found"))

    def finish(self, level="proof"):
        wall = time.time() - self.t0
        ev = {
            "property_id": self.pid, "tier": self.tier, "seed": self.seed, "level": level,
            "coverage": self.cov, "assumptions": self.assumptions, "wall_s": round(wall, 2),
            "violations": len(self.violations), "known_findings_printed": self.known_printed,
            "notes": self.notes,
        }
        with open(os.path.join(VERIF, "evidence", f"{self.pid}.json"), "w") as f:
            json.dump(ev, f, indent=1)
        for l in self.known_printed:
            print(l)
        for p, suffix in self.violations:
            print(f"VIOLATION property={self.pid} replay={p}{suffix}")
        print(f"[{self.pid}] {self.tier} seed={self.seed} obligations={self.cov.get('obligations')} "
              f"discharged={self.cov.get('discharged')} violations={len(self.violations)} "
              f"known={len(self.known_printed)} wall={wall:.1f}s")
        return 1 if self.violations else 0


def load_known(pid):
    p = os.path.join(VERIF, "known_findings.jsonl")
    out = []
    if os.path.exists(p):
        for line in open(p):
            line = line.strip()
            if line and not line.startswith("#"):
                k = json.loads(line)
                if k.get("property") == pid:
                    out.append(k)
    return out


class Rng:
    """splitmix64 — every random choice of a check derives from VERIF_SEED through this."""

    def __init__(self, seed):
        self.s = seed & 0xFFFFFFFFFFFFFFFF

    def next(self):
        self.s = (self.s + 0x9E3779B97F4A7C15) & 0xFFFFFFFFFFFFFFFF
        z = self.s
        z = ((z ^ (z >> 30)) * 0xBF58476D1CE4E5B9) & 0xFFFFFFFFFFFFFFFF
        z = ((z ^ (z >> 27)) * 0x94D049BB133111EB) & 0xFFFFFFFFFFFFFFFF
        return z ^ (z >> 31)

    def below(self, n):
        return self.next() % n if n > 0 else 0

    def choice(self, xs):
        return xs[self.below(len(xs))]

    def chance(self, num, den):
        return self.below(den) < num

    def fork(self):
        return Rng(self.next())


def run_lines(binary, mode, lines, name):
    """write `lines` to a work file, run `<binary> <mode> <file>`, return (rc, output lines, stderr)"""
    path = os.path.join(WORK, name)
    with open(path, "w", encoding="utf-8") as f:
        f.write("\n".join(lines) + ("\n" if lines else ""))
    rc, out, err, dt = sh([binary, mode, path], timeout=3000)
    return rc, out.split("\n")[:-1] if out.endswith("\n") else out.split("\n"), err, dt
