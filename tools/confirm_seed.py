#!/usr/bin/env python3
"""Confirm a seeded change independently, in a scratch worktree of /repo (never in /repo itself):
   confirm_seed.py <seed_out_dir(m1…)> <dest /verif/seeded/<id>> <property> [--full]
 1. the patch applies to /repo's HEAD, the workspace builds with it;
 2. the demonstration FAILS with the change and PASSES without it;
 3. the existing tests still pass with the change (targeted crates always; --full = the whole baseline suite);
then writes <dest>/{patch.diff, demo files, meta.json}. The worktree (/tmp/confirm/wt) is reused and reset."""
import json, os, re, shutil, subprocess, sys, time

WT = "/tmp/confirm/wt"
ENV = dict(os.environ, CARGO_NET_OFFLINE="true")
KNOWN_BAD = ["some_senders_with_blocking", "batch_semaphore_test_1", "batch_semaphore_test_2", "semtest_1", "semtest_2",
             "notify_mpmc_no_deadlock", "runtime_mpsc_many_senders_with_blocking", "many_senders_with_blocking"]


def sh(cmd, cwd=WT, timeout=7200):
    p = subprocess.run(cmd, cwd=cwd, shell=True, capture_output=True, text=True, env=ENV, timeout=timeout)
    return p.returncode, p.stdout + p.stderr


def ensure_wt():
    if not os.path.isdir(WT):
        os.makedirs(os.path.dirname(WT), exist_ok=True)
        subprocess.run(["git", "-C", "/repo", "worktree", "add", "-q", "--detach", WT, "HEAD"], check=True)
    sh("git checkout -q --detach $(git -C /repo rev-parse HEAD) && git checkout -q -- . && git clean -fdq -e target")


def demo_commands(src):
    txt = open(os.path.join(src, "demo_cmd.txt")).read()
    cmds = []
    for l in txt.splitlines():
        l = l.strip().strip("`")
        l = re.sub(r"^cd\s+\S+\s*&&\s*", "", l)          # "cd <repo-root> && cargo test …"
        if re.match(r"^([A-Z_]+=\S+\s+)*cargo\s+(test|run|nextest)", l):
            cmds.append(l)
    return txt, cmds


def place_demo(src, txt):
    """copy demo.rs where demo_cmd.txt says (looks for a path under shuttle/tests or examples)"""
    m = re.search(r"cp\s+\S*demo\.rs\s+(?:<repo-root>/)?(\S+\.rs)", txt) or \
        re.search(r"(shuttle(?:-[a-z]+)?/(?:tests|examples)/[A-Za-z0-9_./-]+\.rs|wrappers/[A-Za-z0-9_./-]+\.rs)", txt)
    dst = m.group(1) if m else "shuttle/tests/seed_demo.rs"
    if "/wt/" in dst:
        dst = dst.split("/wt/", 1)[1]            # a path inside the seeding agent's own worktree
    dst = dst.lstrip("/")
    full = os.path.join(WT, dst)
    os.makedirs(os.path.dirname(full), exist_ok=True)
    shutil.copy(os.path.join(src, "demo.rs"), full)
    return dst


def main():
    src, dest, prop = sys.argv[1], sys.argv[2], sys.argv[3]
    full = "--full" in sys.argv
    meta = {"property": prop, "source": src, "confirmed_at_repo_head": subprocess.run(["git", "-C", "/repo", "rev-parse", "--short", "HEAD"], capture_output=True, text=True).stdout.strip()}
    ensure_wt()
    patch = os.path.join(src, "patch.diff")
    txt, cmds = demo_commands(src)
    if not cmds:
        print("no runnable command found in demo_cmd.txt"); return 2
    demo_cmd = cmds[-1]
    if "--offline" not in demo_cmd:
        demo_cmd += " --offline"
    # --- without the change: demo must pass
    dst = place_demo(src, txt)
    rc0, out0 = sh(demo_cmd)
    meta["demo_without_change"] = {"cmd": demo_cmd, "rc": rc0, "tail": out0[-600:]}
    # --- with the change
    rc, out = sh(f"git apply {patch}")
    if rc != 0:
        print("patch does not apply:", out[-300:]); return 2
    rcb, outb = sh("cargo build --workspace --offline")
    meta["builds"] = rcb == 0
    rc1, out1 = sh(demo_cmd)
    meta["demo_with_change"] = {"rc": rc1, "tail": out1[-600:]}
    # --- existing tests with the change (the demo file is removed first: it is not part of the suite)
    os.remove(os.path.join(WT, dst))
    touched = sorted(set(re.findall(r"^\+\+\+ b/([^/\n]+(?:/[^/\n]+)?)", open(patch).read(), re.M)))
    if full:
        rct, outt = sh("cargo nextest run --workspace --no-fail-fast --tool-config-file pb:/w/lib/nextest.toml --profile pb --test-threads 8 --offline", timeout=5400)
    else:
        pk = "-p shuttle-engine -p shuttle-schedulers -p shuttle-std -p shuttle"
        if any(t.startswith("wrappers") for t in touched) or "tokio" in open(patch).read():
            pk += " -p shuttle-tokio-impl-inner -p shuttle-parking_lot-impl"
        rct, outt = sh(f"cargo nextest run {pk} --no-fail-fast --offline --test-threads 8 "
                       "-E 'not (test(senders_with_blocking) | test(batch_semaphore_test) | test(=ui) | test(semtest_) | test(notify_mpmc_no_deadlock))'", timeout=5400)
    fails = [l for l in outt.splitlines() if re.search(r"^\s+(FAIL|TIMEOUT|SIGABRT|SIGSEGV)\b", l)]
    fails = [l for l in fails if not any(k in l for k in KNOWN_BAD)]
    summ = [l for l in outt.splitlines() if "Summary" in l]
    meta["existing_tests"] = {"full_suite": full, "summary": summ[-1].strip() if summ else outt[-300:], "unexpected_failures": sorted(set(f.strip() for f in fails))[:20]}
    ok = meta["builds"] and rc0 == 0 and rc1 != 0 and not fails
    meta["confirmed"] = bool(ok)
    meta["touched"] = touched
    notes = os.path.join(src, "notes.md")
    meta["needs_to_manifest"] = open(notes).read()[:1500] if os.path.exists(notes) else ""
    os.makedirs(dest, exist_ok=True)
    for f in ("patch.diff", "demo.rs", "demo_cmd.txt", "notes.md"):
        if os.path.exists(os.path.join(src, f)):
            shutil.copy(os.path.join(src, f), os.path.join(dest, f))
    json.dump(meta, open(os.path.join(dest, "meta.json"), "w"), indent=1)
    sh("git checkout -q -- . && git clean -fdq -e target")
    print(("CONFIRMED " if ok else "NOT-CONFIRMED ") + dest, "| demo without:", rc0, "with:", rc1, "| builds:", meta["builds"], "|", meta["existing_tests"]["summary"], "| unexpected:", len(fails))
    return 0 if ok else 1


if __name__ == "__main__":
    sys.exit(main())
