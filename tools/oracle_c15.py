"""C15 — vector clocks reflect happens-before: a model-independent monitor on the implementation's own log.

From the `O` lines of one execution (log order is a valid linearisation, see oracles_prim.py; the few
operations whose effect becomes visible *before* their `O` line — anything that blocks or has a
scheduling point after publishing — are handled through a START node per operation) the oracle builds

  * the MUST relation: happens-before by the API-level rules of the property text alone
      po            program order of one task
      spawn         spawn / fspawn / scope_spawn           -> first operation of the child
      join          last operation (`end`) of the child    -> `join` that returned ok
      async-join    `end` of a spawned future              -> `fjoin` / `fjoin_block` / `block_on fjoin` = ok
      scope-join    last operation of a scoped child       -> the parent's `scope_end` (thread::scope joins
                                                              every scoped thread before it returns)
      unlock-lock   unlock / guard drop of mutex m         -> every later successful lock / try_lock / Condvar
                                                              re-acquisition of m
      rw-unlock-lock  write unlock -> later read/write locks; read unlock -> later write lock
      send-recv     i-th successful send                   -> i-th successful recv        (FIFO)
      recv-send     i-th recv on a channel of capacity K   -> (i+max(K,1))-th send        (the slot it frees)
      notify-wait   the only notify_* on cv issued while the waiter was inside `wait` -> that `wait`
      barrier       arrival of every member of a generation -> departure of every other member
                    (arrival = START of `bwait`; generations from an exact replay of the barrier's
                    waiter set along the `D` lines)
      once          `call_once` = ran                      -> call_once = skipped / is_completed = true
                    (START of the running call when the observer is logged before the runner's own line)
      atomic        store / swap / RMW / successful CAS    -> every later load / RMW / CAS of the same atomic
      sem           release -> a later acquire that could not have succeeded without it (initial permits +
                    all other releases − the acquires that must-happen-before it are insufficient)
  * the MAY relation = MUST + observation edges: every operation that reads the state of an object is
    ordered after every earlier operation (and every operation *in progress*) that wrote that state.
    The source deliberately over-approximates (failed try_acquire joins `last_acquire`, a Waiter keeps the
    clock of its creator, permits are attributed FIFO, a barrier's clock is never reset, …): none of that
    is reported as long as the extra order follows object state.

and checks, per execution, with clock(e) = the `C` line that follows e's `O` line (zero-extended):

  (1) SOUNDNESS, edge by edge (pointwise ≤ is transitive, so every violated pair of the closure has a
      violated edge): clock(src) ≤ clock(dst).                  C15:hb-not-reflected:<kind>
      If the only failing component is the source task's own and the destination knows at least one tick
      of the source operation, the source ticked its own entry again after publishing (bounded send,
      barrier, Once): reported separately as                     C15:hb-own-tick:<kind>
  (2) a task's own clock only grows                              C15:clock-decreased
  (3) COMPLETENESS on clock-advancing operations of different tasks: clock(e1) ≤ clock(e2) although
      e1 is not MAY-before e2      C15:false-order:<class of op1>-<class of op2>
"""
from propbase import executions
from oracles import parse_program

STATS = {}                 # edges checked per kind, pairs examined (for coverage reports)
REPORT_OWN_TICK = True      # report the C15:hb-own-tick class (a literal violation of the property text)

ATOMIC_RMW = {"aswap", "aadd", "asub", "aand", "aor", "axor", "anand", "amax", "amin"}
ATOMIC_OPS = ATOMIC_RMW | {"aload", "astore", "acas"}
LOCK_OPS = {"lock", "trylock", "unlock", "read", "write", "tryread", "trywrite", "unread", "unwrite"}
CHAN_OPS = {"send", "try_send", "recv", "try_recv"}
ADVANCING = ATOMIC_OPS | LOCK_OPS | CHAN_OPS | {"bwait", "spawn", "fspawn", "scope_spawn", "join"}
def _klass(name):
    if name in ATOMIC_OPS:
        return "atomic"
    if name in ("lock", "trylock", "read", "write", "tryread", "trywrite"):
        return "lock"
    if name in ("unlock", "unread", "unwrite"):
        return "unlock"
    if name in ("send", "try_send"):
        return "send"
    if name in ("recv", "try_recv"):
        return "recv"
    if name in ("spawn", "fspawn", "scope_spawn"):
        return "spawn"
    return {"bwait": "barrier"}.get(name, name)


FAILED = ("wouldblock", "nopermits", "err:full", "err:empty", "err:disconnected", "closed", "ready:closed")


def _cl(s):
    return [int(x) for x in s.split(",")] if s else []


def _le(a, b):
    """pointwise a ≤ b with zero-extension"""
    if len(a) > len(b):
        if any(a[len(b):]):
            return False
    return all(x <= y for x, y in zip(a, b))


def _bad_components(a, b):
    return [i for i, x in enumerate(a) if x > (b[i] if i < len(b) else 0)]


class Ev:
    __slots__ = ("i", "tid", "k", "pc", "name", "args", "res", "clock", "pos", "prev", "next", "raw")

    def __repr__(self):
        return f"#{self.i} t{self.tid} {self.name} {' '.join(self.args)} = {self.res} @{self.clock}"


def _events(P, e):
    """events of one execution (up to the first panic), decisions as (pos, choice)"""
    evs, last_of, decisions = [], {}, []
    for pos, l in enumerate(e["lines"]):
        if l.startswith("D "):
            t = l.split()
            decisions.append((pos, None if t[5] == "-" else int(t[5])))
            continue
        if l.startswith("C "):
            t = l.split()
            tid = int(t[1])
            ev = last_of.get(tid)
            if ev is not None and ev.clock is None and ev.pc is not None and str(ev.pc) == t[2]:
                ev.clock = _cl(t[3]) if len(t) > 3 else []
            continue
        if not l.startswith("O "):
            continue
        t = l.split()
        ev = Ev()
        ev.i, ev.tid, ev.pos, ev.clock, ev.next, ev.raw = len(evs), int(t[1]), pos, None, None, l
        ev.k = int(t[2]) if t[2].isdigit() else -1
        if len(t) >= 5 and t[3].isdigit():
            ev.pc = int(t[3])
            try:
                op = list(P["bodies"][ev.k][ev.pc])
            except Exception:
                op = ["?"]
            while op[0] == "block_on" and len(op) > 1:
                op = op[1:]
            if op[0] == "fjoin_block":
                op[0] = "fjoin"
            ev.name, ev.args, ev.res = op[0], op[1:], " ".join(t[4:])
            if ev.name == "fpoll" and ev.res.startswith("ready:"):
                ev.name, ev.res = "fjoin", ev.res[6:]       # a `Ready` poll is the join
        else:
            ev.pc, ev.name, ev.args, ev.res = None, (t[3] if len(t) > 3 else "?"), t[4:], ""
        if ev.name == "panicking":
            break
        ev.prev = last_of.get(ev.tid)
        if ev.prev is not None:
            ev.prev.next = ev
        last_of[ev.tid] = ev
        evs.append(ev)
    return evs, decisions


def _next_pc(ops, pc, last):
    """the interpreter's control flow: the next op executed after `pc` whose result was `last`"""
    pc += 1
    while pc < len(ops) and ops[pc][0] == "if":
        if last == (ops[pc][1] if len(ops[pc]) > 1 else ""):
            pc += int(ops[pc][3])
        pc += 1
    return pc


def _first_pc(ops):
    return _next_pc(ops, -1, "")


class _Barriers:
    """exact replay of `Barrier::wait`'s waiter set (barrier.rs:100-170) along the decisions: a wait that
    will block arrives in the segment of the caller's previous operation, one that will not block has a
    scheduling point first and arrives when the caller is scheduled next"""

    def __init__(self, P, bounds):
        self.P, self.bounds = P, bounds
        self.waiters = {b: [] for b in bounds}
        self.pre = {}            # tid -> barrier it will arrive at when scheduled next
        self.member = {}         # tid -> generation it belongs to (until its return is logged)
        self.ok = True

    def _upcoming(self, k, pc, last):
        ops = self.P["bodies"].get(k, [])
        n = _next_pc(ops, pc, last)
        if n < len(ops) and ops[n][0] == "bwait" and len(ops[n]) > 1 and self.bounds.get(ops[n][1], 0) >= 2:
            return ops[n][1]
        return None

    def after_op(self, tid, k, pc, last, last_ev):
        """task `tid` logged an op (or started: pc=-1): does it walk into a barrier now?"""
        b = self._upcoming(k, pc, last)
        if b is None:
            return
        if len(self.waiters[b]) + 1 < self.bounds[b]:
            self.waiters[b].append((tid, last_ev))
        else:
            self.pre[tid] = (b, last_ev)

    def scheduled(self, tid):
        if tid not in self.pre:
            return
        b, last_ev = self.pre.pop(tid)
        self.waiters[b].append((tid, last_ev))
        if len(self.waiters[b]) >= self.bounds[b]:
            gen = {"b": b, "pred": dict(self.waiters[b]), "ev": {}}
            for t, _ in self.waiters[b]:
                self.member[t] = gen
            self.waiters[b] = []

    def returned(self, ev):
        gen = self.member.pop(ev.tid, None)
        if gen is None or gen["b"] != ev.args[0]:
            self.ok = False
            return None
        gen["ev"][ev.tid] = ev
        return gen


def _touch(ev, names, acq_sem, order=(), tlslock=None):
    """[(object, mode)] with mode ⊆ 'rw': which object state the operation reads / writes"""
    n, a, res = ev.name, ev.args, ev.res
    failed = res in FAILED or res.startswith("err:")
    out = []
    if ev.pc is None:
        if n == "drop" and a and a[0].isdigit() and int(a[0]) < len(order):
            out.append((order[int(a[0])], "w"))
        elif n in ("end", "dropped"):
            out.append((f"task#{ev.k}", "rw"))
        elif n in ("init", "lazyinit", "dtor", "touch") and a:
            out.append((a[0], "rw"))
            if n == "dtor" and tlslock and a[0] in tlslock:
                out.append((tlslock[a[0]], "rw"))      # the destructor locks and unlocks that mutex
        return out
    if n in ("spawn", "fspawn", "scope_spawn", "unpark", "fabort", "fdetach"):
        return [(f"task#{a[0]}", "w")] if a else []
    if n == "fpoll":
        return [(f"task#{a[0]}", "w")] if a else []        # stores the poller's waker
    if n in ("join", "fjoin", "fis_finished"):
        return [(f"task#{a[0]}", "r")] if a else []
    if n == "park":
        return [(f"task#{ev.k}", "r")]
    if n == "acq_new":
        return [(f"acq#{a[0]}", "w")] if a else []
    if n in ("acq_poll", "acq_await", "acq_drop"):
        out = [(f"acq#{a[0]}", "rw")] if a else []
        s = acq_sem.get(a[0]) if a else None
        if s:
            out.append((s, "r" if failed else "rw"))
        return out
    if n == "aload":
        mode = "r"
    elif n == "astore":
        mode = "w"
    elif n in ("avail", "is_completed", "once_val"):
        mode = "r"
    elif n in ("notify_one", "notify_all", "release", "unlock", "unread", "unwrite", "drop_tx", "drop_rx", "close"):
        mode = "w"
    elif failed:
        mode = "r"
    else:
        mode = "rw"
    for x in a:
        if x in names:
            out.append((x, mode))
    return out


def check_execution(P, prog, e, caps, bounds, sems, names, tlslock):
    bad = []
    evs, decisions = _events(P, e)
    if not evs:
        return bad
    # `acq_await h` empties slot h while it waits, so another task can create a second acquisition under the same name:
    # from then on the log cannot tell which semaphore an `acq_* h` line is about — such an execution is not judged
    live = set()
    for ev in evs:
        if ev.name == "acq_new" and ev.res == "ok" and ev.args:
            if ev.args[0] in live:
                return bad
            live.add(ev.args[0])
        elif ev.name in ("acq_await", "acq_poll", "acq_drop") and ev.args and ev.res in ("ok", "closed", "ready:ok", "ready:closed"):
            live.discard(ev.args[0])
    nameset = set(names)
    kinds = P["objs"]
    n = len(evs)
    must_in = [[] for _ in range(n)]      # (src event index, 'E'|'S', kind)

    # ---- task ids: a spawn creates the next task id, in log order
    spawn_of_body = {}                    # body -> spawn event
    first_of_body, last_of_body = {}, {}
    for ev in evs:
        if ev.k >= 0:
            first_of_body.setdefault(ev.k, ev)
        if ev.name in ("spawn", "fspawn", "scope_spawn") and ev.res == "ok" and ev.args:
            spawn_of_body[int(ev.args[0])] = ev
    tid_body = {0: 0}
    ntid = 1
    for ev in evs:
        if ev.name in ("spawn", "fspawn", "scope_spawn") and ev.res == "ok" and ev.args:
            tid_body[ntid] = int(ev.args[0])
            ntid += 1
    tids_consistent = all(tid_body.get(ev.tid) == ev.k for ev in evs if ev.k >= 0)

    def spawn_ev_of(ev):
        """the spawn event that created ev's task (for the first event of a task)"""
        return spawn_of_body.get(ev.k)

    # ---- barrier replay needs the segments
    bar = _Barriers(P, bounds) if any(v >= 2 for v in bounds.values()) and tids_consistent else None
    dec_i = 0
    started = set()

    # ---- per-object monitors for the MUST edges
    last_release = {}                    # mutex -> event
    rw_last_wrel, rw_rrels = {}, {}      # rwlock -> event ; rwlock -> [read releases since the last write lock]
    guards = {}                          # tid -> [(obj, 'M'|'R'|'W')]
    sends = {c: [] for c in caps}
    recvs = {c: [] for c in caps}
    atom_writes = {}                     # atomic -> [write events]
    once_ran = {}                        # once -> event
    notifies = {}                        # condvar -> [events]
    sem_rel = {s: [] for s in sems}      # sem -> [(event, n)]
    sem_acq = {s: [] for s in sems}
    acq_sem, acq_n = {}, {}              # handle -> sem, permits
    scope_kids = {}                      # tid -> list of lists (stack of open scopes)
    extra = [[] for _ in range(n)]       # additional (object, mode) touched by an event
    must_anc = [0] * n                   # bitmask of events that MUST-happen-before E_i (incl. i)
    use_must_anc = bool(sems)

    def add(dst, src, kind, at="E"):
        if src is not None and src.i != dst.i:
            must_in[dst.i].append((src.i, at, kind))

    for ev in evs:
        # decisions up to this line: segments for the barrier replay
        if bar is not None:
            while dec_i < len(decisions) and decisions[dec_i][0] < ev.pos:
                t = decisions[dec_i][1]
                dec_i += 1
                if t is None:
                    continue
                if t not in started:
                    started.add(t)
                    if t in tid_body:
                        bar.after_op(t, tid_body[t], -1, "", None)
                else:
                    bar.scheduled(t)
        nm, a, res = ev.name, ev.args, ev.res
        o = a[0] if a else None
        g = guards.setdefault(ev.tid, [])
        # program order / spawn
        if ev.prev is not None:
            add(ev, ev.prev, "po")
        else:
            add(ev, spawn_ev_of(ev), "spawn")
        if ev.pc is None:
            if nm == "drop" and a and a[0].isdigit() and int(a[0]) < len(names):
                x = names[int(a[0])]
                for j in range(len(g) - 1, -1, -1):
                    if g[j][0] == x:
                        kind = g.pop(j)[1]
                        if kind == "M":
                            last_release[x] = ev
                        elif kind == "W":
                            rw_last_wrel[x] = ev
                        elif kind == "R":
                            rw_rrels.setdefault(x, []).append(ev)
                        break
            if nm in ("end", "dropped"):
                last_of_body[ev.k] = ev
            if nm == "dropped":
                # a cancelled future drops the guards it holds (the release itself comes after this line,
                # behind a scheduling point; nobody can acquire before it)
                for x, kd in g:
                    extra[ev.i].append((x, "w"))
                    if kd == "M":
                        last_release[x] = ev
                    elif kd == "W":
                        rw_last_wrel[x] = ev
                    elif kd == "R":
                        rw_rrels.setdefault(x, []).append(ev)
                del g[:]
            # (`dtor` of a `lock:m` thread-local locks and unlocks m *after* this line, at an unknown
            # point: only an observation, see _touch)
        else:
            if nm in ("join", "fjoin") and res == "ok" and o is not None and o.isdigit():
                kid = int(o)
                src = None
                for x in reversed(evs[:ev.i]):
                    if x.k == kid and x.tid != ev.tid:
                        src = x
                        break
                add(ev, src, "join" if nm == "join" else "async-join")
            elif nm == "scope_begin":
                scope_kids.setdefault(ev.tid, []).append([])
            elif nm == "scope_spawn" and res == "ok":
                if scope_kids.get(ev.tid):
                    scope_kids[ev.tid][-1].append(int(o))
            elif nm == "scope_end" and res == "ok":
                if scope_kids.get(ev.tid):
                    for kid in scope_kids[ev.tid].pop():
                        for x in reversed(evs[:ev.i]):
                            if x.k == kid:
                                add(ev, x, "scope-join")
                                break
            # ---- mutex
            elif nm in ("lock", "trylock") and kinds.get(o) == "mutex":
                if res.startswith("v:"):
                    add(ev, last_release.get(o), "unlock-lock")
                    g.append((o, "M"))
            elif nm == "unlock" and res == "ok":
                for j in range(len(g) - 1, -1, -1):
                    if g[j] == (o, "M"):
                        g.pop(j)
                        break
                last_release[o] = ev
            elif nm in ("wait", "wait_while") and res.startswith("v:") and len(a) > 1:
                m = a[1]
                add(ev, last_release.get(m), "unlock-lock")
                if nm == "wait":
                    lo = ev.prev.pos if ev.prev is not None else -1
                    inside = [x for x in notifies.get(o, []) if x.pos > lo and x.tid != ev.tid]
                    if len(inside) == 1:
                        add(ev, inside[0], "notify-wait")
            elif nm in ("notify_one", "notify_all"):
                notifies.setdefault(o, []).append(ev)
            # ---- rwlock
            elif nm in ("read", "tryread") and kinds.get(o) == "rwlock":
                if res.startswith("v:"):
                    add(ev, rw_last_wrel.get(o), "rw-unlock-lock")
                    g.append((o, "R"))
            elif nm in ("write", "trywrite") and kinds.get(o) == "rwlock":
                if res.startswith("v:"):
                    add(ev, rw_last_wrel.get(o), "rw-unlock-lock")
                    for x in rw_rrels.get(o, []):
                        add(ev, x, "rw-unlock-lock")
                    rw_rrels[o] = []
                    g.append((o, "W"))
            elif nm in ("unread", "unwrite") and res == "ok":
                kd = "R" if nm == "unread" else "W"
                for j in range(len(g) - 1, -1, -1):
                    if g[j] == (o, kd):
                        g.pop(j)
                        break
                if kd == "W":
                    rw_last_wrel[o] = ev
                else:
                    rw_rrels.setdefault(o, []).append(ev)
            # ---- channels
            elif nm in ("send", "try_send") and res == "ok" and o in caps:
                i = len(sends[o])
                cap = caps[o]
                if cap is not None:
                    j = i - max(cap, 1)
                    if 0 <= j < len(recvs[o]):
                        add(ev, recvs[o][j], "recv-send")
                sends[o].append(ev)
            elif nm in ("recv", "try_recv") and res.startswith("v:") and o in caps:
                i = len(recvs[o])
                if i < len(sends[o]):
                    add(ev, sends[o][i], "send-recv")
                recvs[o].append(ev)
            # ---- atomics
            elif nm in ATOMIC_OPS and o is not None:
                if nm != "astore":
                    for w in atom_writes.get(o, []):
                        add(ev, w, "atomic")
                if nm == "astore" or nm in ATOMIC_RMW or (nm == "acas" and res.startswith("ok:")):
                    atom_writes.setdefault(o, []).append(ev)
            # ---- once
            elif nm == "call_once" and res == "ran":
                once_ran[o] = ev
            elif (nm == "call_once" and res == "skipped") or (nm == "is_completed" and res == "true"):
                if o in once_ran:
                    add(ev, once_ran[o], "once")
                else:
                    # the runner published completion and then has a scheduling point (it releases the
                    # Once's internal mutex) before its own line is logged
                    for x in evs[ev.i + 1:]:
                        if x.name == "call_once" and x.res == "ran" and x.args and x.args[0] == o:
                            add(ev, x, "once", "S")
                            break
            # ---- barrier
            elif nm == "bwait" and res in ("leader", "follower") and bar is not None and bounds.get(o, 0) >= 2:
                gen = bar.returned(ev)
                if gen is not None and bar.ok:
                    for t2, pred in gen["pred"].items():
                        if t2 != ev.tid:
                            must_in[ev.i].append((pred.i if pred is not None else None, "B", ("barrier", t2)))
            # ---- semaphores
            elif nm == "acq_new" and res == "ok" and len(a) > 2:
                acq_sem[a[0]], acq_n[a[0]] = a[1], int(a[2])
            if nm == "release" and res == "ok" and o in sems:
                k_ = int(a[1]) if len(a) > 1 and a[1].isdigit() else 0
                if k_ > 0:
                    sem_rel[o].append((ev, k_))
            s_acq = None
            if nm in ("acquire", "try_acquire") and res == "ok" and o in sems:
                s_acq = (o, int(a[1]) if len(a) > 1 and a[1].isdigit() else 0)
            elif nm in ("acq_await", "acq_poll") and res in ("ok", "ready:ok") and acq_sem.get(o) in sems:
                s_acq = (acq_sem[o], acq_n[o])
            if s_acq is not None and s_acq[1] > 0:
                s, want = s_acq
                before = 0
                for src, at, _k in must_in[ev.i]:
                    if src is not None and at == "E":
                        before |= must_anc[src]
                if ev.prev is not None:
                    before |= must_anc[ev.prev.i]
                taken = sum(k_ for x, k_ in sem_acq[s] if (before >> x.i) & 1)
                total = sems[s][0] + sum(k_ for _, k_ in sem_rel[s])
                for x, k_ in sem_rel[s]:
                    if x.tid != ev.tid and total - k_ - taken < want:
                        add(ev, x, "sem")
                sem_acq[s].append((ev, want))
        if use_must_anc:
            m = 1 << ev.i
            for src, at, _k in must_in[ev.i]:
                if src is None:
                    continue
                if at == "E":
                    m |= must_anc[src]
                elif at == "S":
                    p = evs[src].prev
                    if p is not None:
                        m |= must_anc[p.i]
                else:
                    m |= must_anc[src]
            must_anc[ev.i] = m
        if bar is not None and ev.pc is not None:
            bar.after_op(ev.tid, ev.k, ev.pc, ev.res, ev)

    # ------------------------------------------------------------------ (2) own clock only grows
    def sampled_srcs(i, via="po", seen=None):
        """nearest sampled MUST-ancestors of event i (i itself if it has a sample), each with the kind of
        the non-po edge walked through on the way (`po` if none)"""
        if evs[i].clock is not None:
            return [(i, via)]
        seen = seen if seen is not None else set()
        out = []
        for src, at, k_ in must_in[i]:
            if src is None or src in seen or at == "B":
                continue
            seen.add(src)
            v2 = via if k_ == "po" else k_
            if at == "S":
                p = evs[src].prev
                if p is not None:
                    out += sampled_srcs(p.i, v2, seen)
            else:
                out += sampled_srcs(src, v2, seen)
        return out

    def own_before(ev):
        """own clock entry of ev's task before ev started"""
        p = ev.prev
        while p is not None and p.clock is None:
            p = p.prev
        if p is None:
            return 0
        return p.clock[ev.tid] if ev.tid < len(p.clock) else 0

    def describe(ev):
        return f"task {ev.tid} `{ev.name}{' ' if ev.args else ''}{' '.join(ev.args)}`={ev.res or '-'} clock [{','.join(map(str, ev.clock)) if ev.clock is not None else '?'}]"

    for ev in evs:
        if ev.clock is None:
            continue
        for src, at, kind in must_in[ev.i]:
            kname = kind if isinstance(kind, str) else kind[0]
            STATS[kname] = STATS.get(kname, 0) + 1
            if at == "B":
                # barrier: the arrival of task t2 (START of its bwait; `src` = its previous event)
                _, t2 = kind
                base = [] if src is None else None
                if src is not None:
                    ss = sampled_srcs(src)
                    base = evs[ss[0][0]].clock if ss else []
                    own = base[t2] if t2 < len(base) else 0
                else:
                    own = 0
                got = ev.clock[t2] if t2 < len(ev.clock) else 0
                if not _le(base, ev.clock) or got < own + 1:
                    bad.append((f"barrier {ev.args[0]}: {describe(ev)} left the barrier without the arrival of task {t2} "
                                f"(whose clock before arriving was {base})", "C15:hb-not-reflected:barrier"))
                continue
            if at == "S":
                # the source operation was still in progress: only its start (= its predecessor) is below
                srcev = evs[src]
                own = own_before(srcev)
                got = ev.clock[srcev.tid] if srcev.tid < len(ev.clock) else 0
                ok = got >= own + 1
                for s, _v in (sampled_srcs(srcev.prev.i) if srcev.prev is not None else []):
                    ok = ok and _le(evs[s].clock, ev.clock)
                if not ok:
                    bad.append((f"{describe(ev)} observed the effect of {describe(srcev)} but does not know its tick",
                                f"C15:hb-not-reflected:{kind}"))
                continue
            for s, via in sampled_srcs(src):
                sv = evs[s]
                if _le(sv.clock, ev.clock):
                    continue
                if kind == "po":
                    kind = via
                if kind == "po":
                    bad.append((f"the clock of task {ev.tid} went from {sv.clock} to {ev.clock}", "C15:clock-decreased"))
                    continue
                comps = _bad_components(sv.clock, ev.clock)
                got = ev.clock[sv.tid] if sv.tid < len(ev.clock) else 0
                if comps == [sv.tid] and got >= own_before(sv) + 1:
                    if REPORT_OWN_TICK:
                        bad.append((f"{describe(sv)} happens before {describe(ev)} [{kind}]: the first task ticked its own "
                                    f"entry again after publishing its clock, so its clock read after the operation is not "
                                    f"dominated", f"C15:hb-own-tick:{kind}"))
                else:
                    sig_kind = kind
                    if kind == "sem" and ev.name in ("acq_await", "acq_poll") and ev.args:
                        # the acquisition was queued (polled `pending`) by another task than the one completing it: the
                        # grant updates the clock of the task that was queued, the completing task inherits nothing
                        queued_by = {x.tid for x in evs[:ev.i] if x.name in ("acq_poll", "acq_await") and x.args[:1] == ev.args[:1]
                                     and x.res == "pending"}
                        if queued_by and ev.tid not in queued_by:
                            sig_kind = "sem-acquire-completed-by-another-task"
                    bad.append((f"{describe(sv)} happens before {describe(ev)} [{kind}] but its clock is not dominated "
                                f"(components {comps})", f"C15:hb-not-reflected:{sig_kind}"))

    # ------------------------------------------------------------------ (3) completeness
    V = {}
    late = {}
    anc = [0] * n
    ancS = {}

    def s_time(nx, mask):
        """the START of event nx: what it may publish while in progress"""
        ancS[nx.i] = mask
        mask |= 1 << nx.i          # whatever it publishes while in progress may already carry its own tick
        for x, mode in _touch(nx, nameset, acq_sem_final, names, tlslock):
            if "w" in mode:
                V[x] = V.get(x, 0) | mask

    def pending(k, pc, last, mask):
        """the operation a task was inside when the log ends (blocked for ever, or the execution stopped):
        it has no line of its own but may have published already (a `wait` that released its mutex, …)"""
        ops = P["bodies"].get(k, [])
        nx = _next_pc(ops, pc, last)
        if nx >= len(ops):
            return
        op = list(ops[nx])
        while op[0] == "block_on" and len(op) > 1:
            op = op[1:]
        pe = Ev()
        pe.i, pe.tid, pe.k, pe.pc, pe.name, pe.args, pe.res = -1, -1, k, nx, op[0], op[1:], ""
        for x, mode in _touch(pe, nameset, acq_sem_final, names, tlslock):
            if "w" in mode:
                V[x] = V.get(x, 0) | mask

    # handle -> semaphore mapping is needed before the events are visited (START of acq_* ops)
    acq_sem_final = dict(acq_sem)
    roots = [ev for ev in evs if ev.prev is None and spawn_ev_of(ev) is None]
    for ev in roots:
        s_time(ev, 0)
    for ev in evs:
        m = ancS.get(ev.i, 0) | (1 << ev.i)
        tch = _touch(ev, nameset, acq_sem_final, names, tlslock) + extra[ev.i]
        # a `lock:m` thread-local destructor locks m at some point *after* its own line: whatever the
        # task (or whoever joins it) does later may have seen m's state of that later moment
        if ev.name == "dtor" and ev.args and ev.args[0] in tlslock:
            late.setdefault(ev.k, set()).add(tlslock[ev.args[0]])
        for x in late.get(ev.k, ()):
            m |= V.get(x, 0)
        for x, mode in tch:
            if "r" in mode:
                m |= V.get(x, 0)
                if x.startswith("task#") and x[5:].isdigit():
                    for y in late.get(int(x[5:]), ()):
                        m |= V.get(y, 0)
        for src, at, kind in must_in[ev.i]:
            if src is None:
                continue
            if at == "E":
                m |= anc[src]
            else:
                m |= ancS.get(src, 0) if at == "S" else anc[src]
        anc[ev.i] = m
        for x, mode in tch:
            if "w" in mode:
                V[x] = V.get(x, 0) | m
        if ev.next is not None:
            s_time(ev.next, m)
        elif ev.name not in ("end", "dropped"):
            p = ev
            while p is not None and p.pc is None:
                p = p.prev
            if p is not None:
                pending(p.k, p.pc, p.res, m)
            elif ev.k >= 0:
                pending(ev.k, -1, "", m)
        if ev.name in ("spawn", "fspawn", "scope_spawn") and ev.res == "ok" and ev.args:
            kid = first_of_body.get(int(ev.args[0]))
            if kid is None:
                pending(int(ev.args[0]), -1, "", m)
            elif kid.prev is None and kid.i > ev.i:
                s_time(kid, m)

    adv = []
    for ev in evs:
        if ev.clock is None or ev.name not in ADVANCING:
            continue
        adv.append(ev)
    for e1 in adv:
        own1 = e1.clock[e1.tid] if e1.tid < len(e1.clock) else 0
        if own1 <= own_before(e1):
            continue                      # did not advance the clock
        for e2 in adv:
            if e2.tid == e1.tid:
                continue
            STATS["pairs"] = STATS.get("pairs", 0) + 1
            if (e2.clock[e1.tid] if e1.tid < len(e2.clock) else 0) < own1:
                continue
            if not _le(e1.clock, e2.clock):
                continue
            STATS["ordered-pairs"] = STATS.get("ordered-pairs", 0) + 1
            if (anc[e2.i] >> e1.i) & 1:
                continue
            bad.append((f"{describe(e1)} is reported as ordered before {describe(e2)} although no chain of "
                        f"synchronisation or observation connects them", f"C15:false-order:{_klass(e1.name)}-{_klass(e2.name)}"))
    return bad


def o_clocks(prog, lines):
    """C15: vector clocks vs. the happens-before relation derived from the operation log"""
    P = parse_program(prog)
    caps, bounds, sems, tlslock = {}, {}, {}, {}
    clocks_on = True
    for l in prog:
        t = l.split()
        if len(t) >= 4 and t[0] == "obj" and t[2] == "chan":
            caps[t[1]] = None if t[3] == "unb" else (0 if t[3] == "rdv" else int(t[3].split(":")[1]))
        elif len(t) >= 4 and t[0] == "obj" and t[2] == "barrier":
            bounds[t[1]] = int(t[3])
        elif len(t) >= 5 and t[0] == "obj" and t[2] == "sem":
            sems[t[1]] = (int(t[3]), t[4] == "fair")
        elif len(t) >= 4 and t[0] == "obj" and t[2] == "tls" and t[3].startswith("lock:"):
            tlslock[t[1]] = t[3][5:]
        elif t and t[0] == "config" and "clocks=0" in t:
            clocks_on = False
    if not clocks_on:
        return []
    names = list(P["objs"].keys())
    bad = []
    for e in executions(lines):
        try:
            bad += check_execution(P, prog, e, caps, bounds, sems, names, tlslock)
        except Exception as ex:           # a monitor bug must not hide behind a silent pass
            bad.append((f"oracle_c15 internal error: {type(ex).__name__}: {ex}", "C15:oracle-error"))
    return bad


if __name__ == "__main__":
    import sys, os, collections
    import corr, gen
    # usage: oracle_c15.py <file.vp>            run the program(s) on the implementation and check
    #        oracle_c15.py <profile> <count> <seed> [kinds]
    if len(sys.argv) == 2:
        lines = [l.rstrip("\n") for l in open(sys.argv[1])]
    else:
        kinds = tuple(sys.argv[4].split(",")) if len(sys.argv) > 4 else ("random", "pct", "rr", "dfs")
        lines = gen.batch(int(sys.argv[3]), sys.argv[1], int(sys.argv[2]), sys.argv[1] + "_", kinds)
    impl, model, names_, st = corr.run_batch(lines, "c15", model_mode="none")
    progs = corr.split_programs(lines)
    sigs = collections.Counter()
    first = {}
    for nme in names_:
        for what, sig in o_clocks(progs[nme], impl.get(nme, [])):
            sigs[sig] += 1
            first.setdefault(sig, (nme, what))
    print(corr.stats(impl)["executions"], "executions;", dict(sigs))
    for sig, (nme, what) in first.items():
        print(f"{sig}\n   {nme}: {what}")
