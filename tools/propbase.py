"""Common flow of the program-stream based property checks:
build → audit → corpus + generated streams (implementation vs model) → oracles → verdict."""
import json, os, subprocess, sys
from vlib import *
import corr, gen


def build_and_audit(c, lean_targets, audit_module, scan_files, prefixes=None):
    """returns (ok_build, ok_audit); messages are stored on c"""
    ok_build = c.extract_consts() and c.lake_build(["shuttle_model"] + lean_targets)
    ok_audit = bool(ok_build and audit_module and c.audit(audit_module, prefixes))
    if ok_build and c.tier == "thorough":
        # independent re-check of the compiled proof modules by the toolchain's `leanchecker`
        for mod in lean_targets:
            rc, out, err, dt = sh(["lake", "env", "leanchecker", mod], cwd=LEAN, timeout=3000)
            c.cov.setdefault("leanchecker", {})[mod] = "ok" if rc == 0 else f"rc={rc} {(out + err)[-200:]}"
            if rc != 0:
                ok_audit = False
                c.audit_error = f"leanchecker rejects {mod}: {(out + err)[-300:]}"
    hits = c.forbidden_scan(scan_files)
    if hits:
        ok_audit = False
        c.audit_error = "forbidden construct: " + "; ".join(hits[:3])
    return ok_build, ok_audit


def lemma_files(prefixes):
    d = os.path.join(LEAN, "ShuttleProofs", "Lemmas")
    return ["ShuttleProofs/Lemmas/" + f for f in sorted(os.listdir(d)) if any(f.startswith(p) for p in prefixes)]


def corpus_programs(pid):
    """hand-written witnesses + minimised past failures: run first, every time"""
    d = os.path.join(VERIF, "corpus", pid)
    lines = []
    if os.path.isdir(d):
        for f in sorted(os.listdir(d)):
            if f.endswith(".vp"):
                lines += [l.rstrip("\n") for l in open(os.path.join(d, f))]
    return lines


def run_stream(tag, batch_lines, model_mode="trace", model_arg=None, jobs=12):
    impl, model, names, st = corr.run_batch(batch_lines, tag, jobs=jobs, model_mode=model_mode, model_arg=model_arg)
    progs = corr.split_programs(batch_lines)
    diffs = corr.compare(impl, model, names) if model_mode in ("trace", "predict") else []
    # Known finding F19 (decided by C14, which looks for exactly this): an execution that ends while a task is suspended
    # in the middle of a panic leaves the OS thread's panic count raised, so the *following* executions of the same run
    # behave differently from the model, whose executions always start in a fresh world.  Those programs say nothing
    # about this stream's correspondence; they are counted, not compared.
    leaky = set()
    for d in diffs:
        ex = executions(impl.get(d[0], []))
        if any(any(l == "P panic" for l in e["lines"]) and not (e["end"] or "").startswith("E fail") for e in ex[:-1]):
            leaky.add(d[0])
    diffs = [d for d in diffs if d[0] not in leaky]
    stats = corr.stats(impl)
    stats["not_compared_after_abandoned_panic_F19"] = len(leaky)
    return {"impl": impl, "model": model, "names": names, "st": st, "progs": progs, "diffs": diffs,
            "stats": stats}


def executions(lines):
    """split one program's log into executions: list of dict(seed, lines, end, sched)"""
    out, cur = [], None
    for l in lines:
        if l.startswith("X "):
            if l == "X end":
                cur = None
                continue
            parts = l.split()
            cur = {"idx": parts[1], "seed": parts[2] if len(parts) > 2 else "", "lines": [], "end": None, "sched": None}
            out.append(cur)
        elif cur is not None:
            if l.startswith("E "):
                cur["end"] = l
            elif l.startswith("S "):
                cur["sched"] = l[2:]
                cur = None          # the execution's record ends with its schedule line
            elif l.startswith("N ") or l == "":
                pass
            else:
                cur["lines"].append(l)
    return out


def decode_schedule(hexs):
    """independent decoder of the schedule wire format (python): returns (seed, steps) with steps
    ints or None for random"""
    b = bytes.fromhex(hexs)
    if not b or b[0] != 0x91:
        return None
    pos = 1

    def varint():
        nonlocal pos
        v, shift = 0, 0
        while True:
            c = b[pos]; pos += 1
            v |= (c & 0x7F) << shift
            if not c & 0x80:
                return v
            shift += 7
    width, n, seed = varint(), varint(), varint()
    bits = []
    for byte in b[pos:]:
        for i in range(8):
            bits.append((byte >> i) & 1)
    steps, off = [], 0
    for _ in range(n):
        if bits[off]:
            steps.append(None); off += 1
        else:
            v = 0
            for i in range(width):
                v |= bits[off + 1 + i] << i
            steps.append(v); off += 1 + width
    return seed, steps


# failure messages that a *program* can cause (its own panic, a deadlock, a diagnosed re-entrant acquisition, an unwrap of
# a poisoned / closed primitive, a bound) — anything else in an `E fail` line is the runtime tripping over itself
EXPECTED_FAILURES = ("vp-panic", "deadlock!", "PoisonError", "AcquireError", "exceeded max_steps bound", "E stepbound", "E deadlock",
                     "test closure did not exercise", "resumed a waiting thread while the lock was in an incompatible state",
                     "num_permits > 0", "schedpanic", "SendError", "RecvError", "TryRecvError", "TrySendError", "Elapsed", "JoinError")


def report(c, results, oracle_bad, ok_build, ok_audit, proof_name, audit_name):
    """oracle_bad: list of (what, replay_obj, signature). Verdict per DESIGN §4.3."""
    seen = set()
    reported = 0
    for what, robj, sig in oracle_bad:
        if sig in seen:
            continue
        seen.add(sig)
        if c.violation(what, robj, sig):
            reported += 1
    total_diffs = 0
    for name, r in results.items():
        total_diffs += len(r["diffs"])
        for prog, rc, err in r["st"]["crashed"]:
            c.violation(f"the implementation (or driver) crashed on program {prog}: rc={rc} {err[-200:]}",
                        {"kind": "program", "program": r["progs"].get(prog, []), "stream": name}, f"{c.pid}:crash")
    # search the differing programs for a concrete failing input: an execution that fails *inside the runtime*
    # (a message that is neither the program's own panic nor one of the runtime's documented diagnoses) where the
    # model, which the theorems are about, goes on differently
    if reported == 0:            # (known findings do not explain a broken correspondence or proof)
        for name, r in results.items():
            for n, i, a, b in r["diffs"]:
                if a.startswith("E panic ") and not any(k in a for k in EXPECTED_FAILURES) and f"{c.pid}:runtime-panic" not in seen:
                    seen.add(f"{c.pid}:runtime-panic")
                    if c.violation(f"the runtime itself fails on this program: `{a[8:200]}` (the model continues with `{b[:80]}`)",
                                   {"kind": "program", "program": r["progs"].get(n, []), "stream": name}, f"{c.pid}:runtime-panic"):
                        reported += 1
    if reported == 0:            # (known findings do not explain a broken correspondence or proof)
        for name, r in results.items():
            if r["diffs"]:
                n, i, a, b = r["diffs"][0]
                p = c.replay_path("corr" + name + n)
                json.dump({"property": c.pid, "kind": "no-failing-input-found", "stream": name,
                           "broken": f"correspondence stream {name}: {len(r['diffs'])} program(s) differ",
                           "first_divergence": {"program": n, "line": i, "impl": a, "model": b},
                           "program": r["progs"].get(n, [])}, open(p, "w"), indent=1)
                c.violations.append((p, " no-failing-input-found"))
        if not ok_build:
            c.violation_noinput("lake build failed: " + "; ".join(getattr(c, "lake_errors", []))[:400], proof_name + " (build)")
        elif not ok_audit:
            c.violation_noinput(getattr(c, "audit_error", "audit failed")[:400], audit_name)
    agg = {"programs": 0, "executions": 0, "decisions": 0, "draws": 0, "observations": 0, "clock_samples": 0, "outcomes": {}}
    per = {}
    for name, r in results.items():
        s = r["stats"]
        per[name] = {"programs": len(r["names"]), "executions": s["executions"], "decisions": s["decisions"],
                     "differing_programs": len(r["diffs"])}
        agg["programs"] += len(r["names"])
        for k in ("executions", "decisions", "draws", "observations", "clock_samples"):
            agg[k] += s[k]
        for k, v in s["outcomes"].items():
            agg["outcomes"][k] = agg["outcomes"].get(k, 0) + v
    c.cov.update({"programs": agg["programs"], "evaluations": agg["executions"],
                  "traces_validated_against_impl": agg["executions"], "decisions_compared": agg["decisions"],
                  "draws_compared": agg["draws"], "observations_compared": agg["observations"],
                  "clock_samples_compared": agg["clock_samples"], "outcome_kinds": agg["outcomes"],
                  "streams": per, "disagreements": total_diffs})
    return c.finish()


def sample_of(results, k=2):
    out = []
    for name, r in results.items():
        for n in r["names"][:1]:
            out.append({"stream": name, "program": r["progs"][n][:40], "impl_log_head": r["impl"].get(n, [])[:12]})
        if len(out) >= k:
            break
    return out


def replay_program(path, oracle):
    """generic `--replay` for program-based violations: re-run the stored program on the current tree
    and re-evaluate the oracle"""
    r = json.load(open(path))
    if "program" not in r or not r["program"]:
        print("replay names a broken obligation / correspondence, nothing to execute:", r.get("broken")); return 1
    subprocess.run(["cargo", "build", "--release", "--offline", "--bin", "vh"], cwd=HARNESS, env=ENV, capture_output=True)
    res = run_stream("replay", r["program"], model_mode="trace", jobs=1)
    for n in res["names"]:
        print("\n".join(res["impl"].get(n, [])[:60]))
    bad = oracle(res) if oracle else []
    for what, _, sig in bad:
        print("ORACLE:", sig, what)
    for n, i, a, b in res["diffs"]:
        print(f"DIFF {n} @{i}: impl={a} model={b}")
    print("REPRODUCED" if bad or res["diffs"] else "not reproduced")
    return 1 if bad or res["diffs"] else 0
