use rand::distributions::uniform::SampleRange;
use rand::seq::index::sample;
use rand::seq::SliceRandom;
use rand::{Rng, RngCore, SeedableRng};
use rand_pcg::Pcg64Mcg;
use shuttle_engine::scheduler::data::fixed::FixedDataSource;
use shuttle_engine::scheduler::data::random::RandomDataSource;
use shuttle_engine::scheduler::data::DataSource;
use shuttle_engine::scheduler::Scheduler;
use shuttle_schedulers::RandomScheduler;

fn join<T: ToString>(v: impl IntoIterator<Item = T>) -> String {
    v.into_iter().map(|x| x.to_string()).collect::<Vec<_>>().join(" ")
}

// verbatim copy of the decision procedure in rand 0.8.8 seq/index.rs `sample`
fn algo(length: usize, amount: usize) -> &'static str {
    if length > (::core::u32::MAX as usize) {
        return "rejectionUsize";
    }
    let amount = amount as u32;
    let length = length as u32;
    if amount < 163 {
        const C: [[f32; 2]; 2] = [[1.6, 8.0 / 45.0], [10.0, 70.0 / 9.0]];
        let j = if length < 500_000 { 0 } else { 1 };
        let amount_fp = amount as f32;
        let m4 = C[0][j] * amount_fp;
        if amount > 11 && (length as f32) < (C[1][j] + m4) * amount_fp {
            "inplace"
        } else {
            "floyd"
        }
    } else {
        const C: [f32; 2] = [270.0, 330.0 / 9.0];
        let j = if length < 500_000 { 0 } else { 1 };
        if (length as f32) < C[j] * (amount as f32) {
            "inplace"
        } else {
            "rejectionU32"
        }
    }
}

fn main() {
    let seeds: Vec<u64> = vec![
        0, 1, 2, 3, 7, 42, 0x12345678, 0xdeadbeef, (1u64 << 32) - 1, 1u64 << 32, (1u64 << 32) + 1,
        (1u64 << 48) + 12345, 0x0123456789abcdef, (1u64 << 63) - 1, 1u64 << 63, u64::MAX - 1, u64::MAX,
        1000000007, 6364136223846793005, 0xcafef00dd15ea5e5,
    ];
    for &s in &seeds {
        let mut r = Pcg64Mcg::seed_from_u64(s);
        println!("u64 {} : {}", s, join((0..5).map(|_| r.next_u64())));
        let mut r = Pcg64Mcg::seed_from_u64(s);
        println!("u32 {} : {}", s, join((0..5).map(|_| r.next_u32())));
        for &n in &[1u32, 2, 3, 5, 7, 10, 100, 1u32 << 31, u32::MAX, 3u32 << 30, (1u32 << 31) + 1] {
            let mut r = Pcg64Mcg::seed_from_u64(s);
            println!("r32 {} {} : {}", s, n, join((0..5).map(|_| r.gen_range(0..n))));
        }
        for &n in &[1u64, 2, 3, 5, 7, 10, 100, 1u64 << 31, (1u64 << 32) - 1, 1u64 << 32, (1u64 << 33) + 5,
                    1u64 << 63, u64::MAX, 3u64 << 62] {
            let mut r = Pcg64Mcg::seed_from_u64(s);
            println!("r64 {} {} : {}", s, n, join((0..5).map(|_| r.gen_range(0..n))));
            let mut r = Pcg64Mcg::seed_from_u64(s);
            println!("rusize {} {} : {}", s, n, join((0..5).map(|_| r.gen_range(0..n as usize))));
        }
        for &(lo, hi) in &[(5u32, 10u32), (1u32 << 31, u32::MAX), (4294967290, 4294967295), (17, 18)] {
            let mut r = Pcg64Mcg::seed_from_u64(s);
            println!("rlh32 {} {} {} : {}", s, lo, hi, join((0..5).map(|_| r.gen_range(lo..hi))));
        }
        for &(lo, hi) in &[(0u32, u32::MAX), (0u32, 0u32), (3, 9), (1, u32::MAX)] {
            let mut r = Pcg64Mcg::seed_from_u64(s);
            println!("ri32 {} {} {} : {}", s, lo, hi, join((0..5).map(|_| (lo..=hi).sample_single(&mut r))));
        }
        for len in 1usize..=8 {
            let xs: Vec<usize> = (100..100 + len).collect();
            let mut r = Pcg64Mcg::seed_from_u64(s);
            println!("choose {} {} : {}", s, len, join((0..50).map(|_| *xs.choose(&mut r).unwrap())));
        }
        for n in 0usize..=12 {
            let mut xs: Vec<usize> = (0..n).collect();
            let mut r = Pcg64Mcg::seed_from_u64(s);
            xs.shuffle(&mut r);
            println!("shuffle {} {} : {} | {}", s, n, join(xs), r.next_u64());
        }
        for &len in &[0usize, 1, 2, 3, 5, 10, 50, 300] {
            for amt in 0..=std::cmp::min(len, 5) {
                let mut r = Pcg64Mcg::seed_from_u64(s);
                let v = sample(&mut r, len, amt).into_vec();
                println!("sample {} {} {} : {} | {}", s, len, amt, join(v), r.next_u64());
            }
        }
        for &(len, amt) in &[(12usize, 12usize), (20, 12), (20, 20), (60, 49), (60, 50), (60, 55), (300, 11), (300, 12),
                             (300, 20), (1000, 12), (1000, 30), (1000, 60), (5000, 60), (5000, 100), (5000, 163),
                             (5000, 200), (50000, 163), (50000, 170), (600000, 5), (600000, 100), (600000, 163),
                             (10_000_000, 170), (5000, 50), (50000, 162), (7000, 60), (1usize << 33, 7), (1usize << 33, 0), (u32::MAX as usize, 11)] {
            let mut r = Pcg64Mcg::seed_from_u64(s);
            let v = sample(&mut r, len, amt).into_vec();
            println!("sample {} {} {} : {} | {}", s, len, amt, join(v), r.next_u64());
        }
        for ws in &[vec![1usize], vec![1, 1], vec![1, 2, 3], vec![5, 1, 1, 9], vec![0, 3, 0, 4, 0],
                    vec![1usize << 40, 1, 1usize << 50], vec![7, 7, 7, 7, 7, 7, 7]] {
            let idx: Vec<usize> = (0..ws.len()).collect();
            let mut r = Pcg64Mcg::seed_from_u64(s);
            println!("wchoose {} [{}] : {}", s, join(ws.iter()),
                join((0..20).map(|_| *idx.choose_weighted(&mut r, |i| ws[*i]).unwrap())));
        }
        {
            let mut d = RandomDataSource::initialize(s);
            let mut out = vec![];
            for _ in 0..4 {
                out.push(d.reinitialize());
                for _ in 0..3 { out.push(d.next_u64()); }
            }
            // draw before the first reinitialize as well
            let mut d2 = RandomDataSource::initialize(s);
            out.push(d2.next_u64());
            out.push(d2.reinitialize());
            out.push(d2.next_u64());
            out.push(d2.reinitialize());
            out.push(d2.next_u64());
            println!("rds {} : {}", s, join(out));
        }
        {
            let mut d = FixedDataSource::initialize(s);
            let mut out = vec![];
            out.push(d.next_u64());
            for _ in 0..3 {
                out.push(d.reinitialize());
                for _ in 0..3 { out.push(d.next_u64()); }
            }
            println!("fds {} : {}", s, join(out));
        }
        {
            // the real RandomScheduler for seeds and data; its private choice rng is re-seeded from the
            // schedule seed in new_execution, which we replicate for `choose`.
            let mut sch = RandomScheduler::new_from_seed(s, 3);
            let mut out = vec![];
            loop {
                match sch.new_execution() {
                    None => { out.push("end".to_string()); break; }
                    Some(schedule) => {
                        out.push(schedule.seed.to_string());
                        let mut rng = Pcg64Mcg::seed_from_u64(schedule.seed);
                        for k in 0..6usize {
                            let ids: Vec<usize> = (0..(k % 4) + 1).map(|x| x * 3 + k).collect();
                            out.push(ids.choose(&mut rng).unwrap().to_string());
                            out.push(sch.next_u64().to_string());
                        }
                    }
                }
            }
            println!("rsched {} : {}", s, out.join(" "));
        }
        for &(nt, depth, ms) in &[(16usize, 1usize, 1usize), (16, 3, 1), (16, 3, 2), (16, 3, 3), (16, 5, 40), (20, 2, 300),
                                  (16, 15, 10), (16, 15, 100), (16, 13, 400)] {
            let mut r = Pcg64Mcg::seed_from_u64(s);
            let mut p: Vec<usize> = (0..nt).collect();
            p.shuffle(&mut r);
            let np = std::cmp::min(depth - 1, ms - 1);
            let cps: Vec<usize> = sample(&mut r, ms - 1, np).iter().map(|v| v + 1).collect();
            println!("pct {} {} {} {} : {} | {} | {}", s, nt, depth, ms, join(p), join(cps), r.next_u64());
        }
    }
    // decision grid of index::sample
    let lens: Vec<usize> = vec![0, 1, 5, 11, 12, 13, 20, 50, 100, 162, 163, 164, 200, 300, 400, 500, 1000, 2000, 3000, 5000,
        10000, 20000, 43000, 44000, 44009, 44010, 44011, 45000, 50000, 100000, 200000, 499999, 500000, 500001, 1000000, 5000000,
        5978, 5979, 5980, 16777216, 16777217, 16777219, 100000000, 1000000000, 4294967295, 4294967296, 1usize << 40];
    let amts: Vec<usize> = vec![0, 1, 5, 11, 12, 13, 14, 15, 17, 20, 25, 30, 40, 49, 50, 51, 60, 80, 100, 120, 150, 161, 162,
        163, 164, 170, 200, 300, 500, 1000, 1851, 1852, 1853, 13636, 13637, 5000, 20000, 100000, 499999, 500000, 1000000,
        16777217, 100000000, 4294967295];
    for &l in &lens {
        for &a in &amts {
            if a <= l {
                println!("algo {} {} : {}", l, a, algo(l, a));
            }
        }
    }
    // denser sweep near the thresholds
    for a in 12usize..200 {
        for l in (a..60000).step_by(97) {
            println!("algo {} {} : {}", l, a, algo(l, a));
        }
        for l in (500000usize..700000).step_by(4999) {
            println!("algo {} {} : {}", l, a, algo(l, a));
        }
    }
}
