import ShuttleModel.Rng
open ShuttleModel.Rng

def join (xs : List Nat) : String := " ".intercalate (xs.map toString)

/-- iterate a state-passing sampler `n` times -/
def drawN (f : Pcg → Option (Nat × Pcg)) : Nat → Pcg → List Nat → Option (List Nat)
  | 0, _, acc => some acc.reverse
  | n+1, g, acc => match f g with
    | none => none
    | some (v, g') => drawN f n g' (v :: acc)

def showO (o : Option (List Nat)) : String := match o with | none => "NONE" | some l => join l

def showLG (o : Option (List Nat × Pcg)) : String := match o with
  | none => "NONE"
  | some (l, g) => join l ++ " | " ++ toString (nextU64 g).1

def algoName : SampleAlgo → String
  | .floyd => "floyd" | .inplace => "inplace" | .rejectionU32 => "rejectionU32" | .rejectionUsize => "rejectionUsize"

def seeds : List Nat := [0, 1, 2, 3, 7, 42, 0x12345678, 0xdeadbeef, 2^32 - 1, 2^32, 2^32 + 1,
  2^48 + 12345, 0x0123456789abcdef, 2^63 - 1, 2^63, 2^64 - 2, 2^64 - 1, 1000000007, 6364136223846793005,
  0xcafef00dd15ea5e5]

def range' (a b step : Nat) : List Nat := Id.run do
  let mut out := #[]
  let mut x := a
  while x < b do
    out := out.push x
    x := x + step
  return out.toList

def main : IO Unit := do
  for s in seeds do
    let g0 := seedFromU64 s
    IO.println s!"u64 {s} : {showO (drawN (fun g => some (nextU64 g)) 5 g0 [])}"
    IO.println s!"u32 {s} : {showO (drawN (fun g => some (nextU32 g)) 5 g0 [])}"
    for n in [1, 2, 3, 5, 7, 10, 100, 2^31, 2^32 - 1, 3 * 2^30, 2^31 + 1] do
      IO.println s!"r32 {s} {n} : {showO (drawN (fun g => genRangeU32 0 n g) 5 g0 [])}"
    for n in [1, 2, 3, 5, 7, 10, 100, 2^31, 2^32 - 1, 2^32, 2^33 + 5, 2^63, 2^64 - 1, 3 * 2^62] do
      IO.println s!"r64 {s} {n} : {showO (drawN (fun g => genRangeU64 0 n g) 5 g0 [])}"
      IO.println s!"rusize {s} {n} : {showO (drawN (fun g => genRangeUsize 0 n g) 5 g0 [])}"
    for (lo, hi) in [(5, 10), (2^31, 2^32 - 1), (4294967290, 4294967295), (17, 18)] do
      IO.println s!"rlh32 {s} {lo} {hi} : {showO (drawN (fun g => genRangeU32 lo hi g) 5 g0 [])}"
    for (lo, hi) in [(0, 2^32 - 1), (0, 0), (3, 9), (1, 2^32 - 1)] do
      IO.println s!"ri32 {s} {lo} {hi} : {showO (drawN (fun g => genRangeInclusiveU32 lo hi g) 5 g0 [])}"
    for len in [1, 2, 3, 4, 5, 6, 7, 8] do
      let xs := (List.range len).map (· + 100)
      let f := fun g => match choose g xs with
        | some (some x, g') => some (x, g')
        | _ => none
      IO.println s!"choose {s} {len} : {showO (drawN f 50 g0 [])}"
    for n in List.range 13 do
      IO.println s!"shuffle {s} {n} : {showLG (shuffle g0 (List.range n))}"
    for len in [0, 1, 2, 3, 5, 10, 50, 300] do
      for amt in List.range (min len 5 + 1) do
        IO.println s!"sample {s} {len} {amt} : {showLG (indexSample g0 len amt)}"
    for (len, amt) in [(12, 12), (20, 12), (20, 20), (60, 49), (60, 50), (60, 55), (300, 11), (300, 12),
                       (300, 20), (1000, 12), (1000, 30), (1000, 60), (5000, 60), (5000, 100), (5000, 163),
                       (5000, 200), (50000, 163), (50000, 170), (600000, 5), (600000, 100), (600000, 163),
                       (10000000, 170), (5000, 50), (50000, 162), (7000, 60), (2^33, 7), (2^33, 0), (2^32 - 1, 11)] do
      IO.println s!"sample {s} {len} {amt} : {showLG (indexSample g0 len amt)}"
    for ws in [[1], [1, 1], [1, 2, 3], [5, 1, 1, 9], [0, 3, 0, 4, 0], [2^40, 1, 2^50], [7, 7, 7, 7, 7, 7, 7]] do
      IO.println s!"wchoose {s} [{join ws}] : {showO (drawN (fun g => chooseWeightedIndex g ws) 20 g0 [])}"
    -- rds
    let mut out : Array Nat := #[]
    let mut d := RandomDataSource.initialize s
    for _ in [0:4] do
      let (sd, d') := d.reinitialize
      out := out.push sd
      d := d'
      for _ in [0:3] do
        let (v, d') := d.nextU64
        out := out.push v
        d := d'
    let d2 := RandomDataSource.initialize s
    let (v, d2) := d2.nextU64; out := out.push v
    let (v, d2) := d2.reinitialize; out := out.push v
    let (v, d2) := d2.nextU64; out := out.push v
    let (v, d2) := d2.reinitialize; out := out.push v
    let (v, _) := d2.nextU64; out := out.push v
    IO.println s!"rds {s} : {join out.toList}"
    -- fds
    let mut outF : Array Nat := #[]
    let mut f := FixedDataSource.initialize s
    let (v, f') := f.nextU64; outF := outF.push v; f := f'
    for _ in [0:3] do
      let (sd, f') := f.reinitialize
      outF := outF.push sd
      f := f'
      for _ in [0:3] do
        let (v, f') := f.nextU64
        outF := outF.push v
        f := f'
    IO.println s!"fds {s} : {join outF.toList}"
    -- rsched
    let mut outs : Array String := #[]
    let mut sch := RandomScheduler.newFromSeed s 3
    for _ in [0:10] do
      match sch.newExecution with
      | none => outs := outs.push "end"; break
      | some (sd, sch') =>
        outs := outs.push (toString sd)
        sch := sch'
        for k in [0:6] do
          let ids := (List.range (k % 4 + 1)).map (fun x => x * 3 + k)
          let (c, sch') := sch.nextTask ids
          outs := outs.push (match c with | some i => toString i | none => "NONE")
          let (v, sch'') := sch'.nextU64
          outs := outs.push (toString v)
          sch := sch''
    IO.println s!"rsched {s} : {" ".intercalate outs.toList}"
    for (nt, depth, ms) in [(16, 1, 1), (16, 3, 1), (16, 3, 2), (16, 3, 3), (16, 5, 40), (20, 2, 300),
                            (16, 15, 10), (16, 15, 100), (16, 13, 400)] do
      let r := match pctReinit g0 nt depth ms with
        | none => "NONE"
        | some (p, cps, g) => s!"{join p} | {join cps} | {(nextU64 g).1}"
      IO.println s!"pct {s} {nt} {depth} {ms} : {r}"
  let lens : List Nat := [0, 1, 5, 11, 12, 13, 20, 50, 100, 162, 163, 164, 200, 300, 400, 500, 1000, 2000, 3000, 5000,
        10000, 20000, 43000, 44000, 44009, 44010, 44011, 45000, 50000, 100000, 200000, 499999, 500000, 500001, 1000000, 5000000,
        5978, 5979, 5980, 16777216, 16777217, 16777219, 100000000, 1000000000, 4294967295, 4294967296, 2^40]
  let amts : List Nat := [0, 1, 5, 11, 12, 13, 14, 15, 17, 20, 25, 30, 40, 49, 50, 51, 60, 80, 100, 120, 150, 161, 162,
        163, 164, 170, 200, 300, 500, 1000, 1851, 1852, 1853, 13636, 13637, 5000, 20000, 100000, 499999, 500000, 1000000,
        16777217, 100000000, 4294967295]
  for l in lens do
    for a in amts do
      if a ≤ l then IO.println s!"algo {l} {a} : {algoName (sampleAlgo l a)}"
  for a in range' 12 200 1 do
    for l in range' a 60000 97 do
      IO.println s!"algo {l} {a} : {algoName (sampleAlgo l a)}"
    for l in range' 500000 700000 4999 do
      IO.println s!"algo {l} {a} : {algoName (sampleAlgo l a)}"
