#!/usr/bin/env python3
"""Regenerate MANIFEST.json from the table below (single source of truth for what is claimed)."""
import json, os
VERIF = os.path.dirname(os.path.dirname(os.path.abspath(__file__)))
CLAIMED = {
 "C16": dict(
   text="Lean 4 theorems over ALL Schedule values and ALL strings (ShuttleProofs/C16.lean: roundtrip, roundtrip_ws, wrap_width, width_minimal, reject_empty/non_hex/odd_length/bad_magic/width/truncated + truncated_ok) about a hand-written model of serialization.rs; the model is tied to the code on every run by line-exact comparison of the real serialize_schedule/deserialize_schedule with the compiled model on ~27k generated and corpus inputs (boundaries of varint/width/wrap, every prefix, corruptions, hostile headers), plus constants re-extracted from the source and proved equal to the model's.",
   note="Trusted: Lean kernel; axioms propext/Classical.choice/Quot.sound only (audited by #print axioms each run); hex and bitvec crates as specified; the differential harness and generators. Modelled, not verified: the Rust decoder itself (tied by the differential).",
   technique="Lean 4 proof (all inputs) + differential correspondence model vs real codec",
   design="§7 C16"),
 "C01": dict(
   text="Lean 4 theorems for EVERY Program over the kernel API, every scheduler (any state type) and all fuel (ShuttleProofs/C01.lean): replay_faithful — replaying the schedule an execution recorded, through the model of ReplayScheduler, yields the same seed, the same event log (offered lists, current, yielding flags, choices, draw values, observations), the same outcome (pass / same panic / same deadlock list / step bound), the same final user state and re-records the same schedule, under the explicit hypothesis DataFaithful (shown necessary by a counterexample and proved for the round-robin, random and DFS schedulers: builtin_data_faithful); replay_exhausts_schedule (none of the replay panics is reachable); replay_from_string(_ws) via the C16 round trip; nondet_check_never_rejects (the uncontrolled-nondeterminism checker never rejects a deterministic program; newExec consulted once per pair); record_exact (C08). Tie: step-exact trace-mode differential on 13 program profiles under random/PCT/round-robin/DFS; oracle, implementation vs implementation: ~1000 recorded executions per run — passing, panicking (also while holding locks), deadlocking, step-bound — are re-run through the real ReplayScheduler::new_from_encoded(serialize_schedule(recorded)) with the run's own config and must reproduce every decision, draw, result, clock, the outcome and the re-recorded schedule.",
   note="Trusted: Lean kernel + standard axioms; programs in the model are deterministic by construction, so the theorems show recording/replay/checker are logically right — that the real runtime has no hidden nondeterminism is what the differential and the replay oracle check on the generated programs. shuttle::replay uses the default Config: the theorems and the oracle replay with the run's own step bound. URW scheduler: differential only. target_clock: partial theorem about next_task only.",
   technique="Lean 4 proof (simulation) over all programs/schedulers + step-exact differential + impl-vs-impl replay oracle",
   design="§7 C01"),
 "C11": dict(
   text="Lean 4 theorems about a line-by-line model of pct.rs for all states satisfying the invariant, all offered lists, all seeds (ShuttleProofs/C11.lean): pct_inv (distinct priorities, keys 0..len-1; shuffle proved to be a permutation), pct_runs_min_priority, pct_priority_changes_only (only insertion of new tasks by fresh slot/swap and demotion of the running task to a fresh lowest slot exactly when >1 task is offered and (step is a change point or yielding)), pct_demotes_only_current, pct_change_points and pct_at_most_d_minus_1_change_preemptions (under the explicit hypothesis SampleLoopsInRange on rand's rejection loop), pct_k_estimate, pct_iterations_exact, pct_no_concurrency_panics. Tie: prediction mode — model PCT + bit-exact Pcg64Mcg/rand 0.8.8 must reproduce every decision of the real PctScheduler from (seed, depth) alone (150 programs × 3–5 iterations per quick run; 151,919 decisions in the agent's validation); same-seed determinism impl-vs-impl; a sound log-only priority monitor. The probability bound 1/(n·k^(d-1)) is NOT formalised: it follows from the proved structure by the PCT paper's argument and is stated as such.",
   note="Trusted: Lean kernel + standard axioms; hypothesis SampleLoopsInRange (arithmetic core proved); PRNG uniformity is an assumption; rand/rand_pcg re-stated bit-exactly and validated on 128k vectors + every compared decision.",
   technique="Lean 4 proof over all scheduler states + prediction-mode differential against the real PctScheduler",
   design="§7 C11"),
 "C09": dict(
   text="Lean 4 theorems over ALL finite, well-formed choice trees (ShuttleProofs/C09.lean: dfs_exhaustive — every path exactly once, in left-to-right order, then stop, with fuel shown not to be a loophole; dfs_no_duplicates; dfs_iteration_bound; dfs_step_bound; dfs_never_fails) about a line-by-line transcription of dfs.rs. Tie, every run: prediction mode (the model DFS scheduler driving the model kernel must reproduce every decision, draw, result and recorded schedule of the real check_dfs run) and set/order comparison of the real run's schedules with an independent explicit-stack enumerator of the model kernel's choice tree; oracles on the implementation's own logs for the iteration bound, the ContinueAfter bound and the fixed data stream.",
   note="Trusted: Lean kernel; axioms ⊆ {propext, Classical.choice, Quot.sound}; the kernel contract (non-empty, distinct offers: C08) links programs to trees; harness/generator unverified; trees above 3000 leaves are cut and excluded from set mode.",
   technique="Lean 4 proof over all choice trees + prediction-mode and set-mode differential against the real DfsScheduler",
   design="§7 C09"),
 "C08": dict(
   text="Lean 4 theorems for EVERY Program over the kernel API, every Scheduler, every decision of every execution (ShuttleProofs/C08.lean: offered_nonempty, offered_strictly_ascending, offered_unfinished, offered_superset_runnable, offered_subset_runnable_or_spurious, current_is_last_chosen, yielding flag = has_yielded set only by request_yield, chosen_runs_next, none_stops_without_failure, no_scheduling_error, record_exact) about a transcription of ExecutionState::schedule / run_to_completion (ShuttleModel/Kernel.lean). Tie: step-exact trace-mode differential on 12 program profiles × 4 schedulers; oracle: a pass-through recording Scheduler asserts the contract on every real call and the tasks' own log cross-checks that only the chosen task runs.",
   note="Trusted: Lean kernel + standard axioms; coroutine switching (corosensei), unwinding and RefCell discipline are modelled not verified; wrapper transparency beyond the always-present MetricsScheduler is covered by the differential only.",
   technique="Lean 4 proof over all programs/schedulers + step-exact differential + contract-asserting recorder",
   design="§7 C08"),
 "C03": dict(
   text="Lean 4 theorems for every Program/Scheduler (ShuttleProofs/C03.lean: deadlock_iff as a full iff at the loop head, deadlock_verdict_sound/complete for executions, deadlockList_exact — exactly the unfinished tasks with detached/sleeping flags —, ok_iff, detached_leftovers_ok, no_early_end, spurious_not_progress, terminates_under_bound). Tie: trace-mode differential including the outcome line with the task list on deadlock-rich streams (lock cycles, lost notifications, closed channels, parked threads, barriers short of arrivals). Oracle on implementation logs: reported tasks = tasks that never finished; normal end ⇒ every task finished.",
   note="Trusted: as C08. 'blocked exactly when the operation is disabled' per primitive is part of C04–C06/C18, not of this check. Detached async tasks: theorem only (async IR not yet in the differential).",
   technique="Lean 4 proof over all programs + step-exact differential + log oracle",
   design="§7 C03"),
 "C13": dict(
   text="Lean 4 theorems for every Program/Scheduler (ShuttleProofs/C13.lean: no_decision_beyond_bound, fail_after/continue_after outcomes, bound_outcomes, bound_hit_ends, below_bound_unaffected at full strength, terminates_under_bound; the literal 'never more than n steps, draws included' is FALSE for the code — steps_overshoot_witness proves the negation on a concrete program and steps_total_bound_partial states exactly what holds; recorded as known finding F7). Tie: trace mode over a grid of bounds L-2..L+2 around each program's own step count, FailAfter and ContinueAfter; oracle counts steps from the log, compares below-bound runs with unbounded ones, and checks Runner::run's return value against the invocation count and the scheduler budget.",
   note="Trusted: as C08. Time limit (checked only between iterations) is read from the source, not exercised. F17 (debug-build abort when abandoning an execution holding a lock) repaired in /repo.",
   technique="Lean 4 proof over all programs + bound-grid differential + step-counting oracle",
   design="§7 C13"),
}
PENDING_REASON = "not claimed yet: machinery for this property is still being built in this session (see DESIGN.md §7/§11)"
ALL = ["C%02d" % i for i in range(1, 21)]

def main():
    checks = []
    for pid in ALL:
        if pid in CLAIMED:
            c = CLAIMED[pid]
            checks.append({
                "property_id": pid,
                "quick_cmd": f"./check {pid} quick",
                "thorough_cmd": f"./check {pid} thorough",
                "evidence_file": f"/verif/evidence/{pid}.json",
                "replay_cmd_template": "./check " + pid + " --replay {path}",
                "engine": "shuttle-in-lean",
                "level_claimed": {"category": "proof", "text": c["text"], "design_ref": c["design"]},
                "level_note": c["note"],
                "technique": c["technique"],
            })
    m = {
        "version": 1,
        "setup_cmd": "./setup.sh",
        "hooks": {"guard": "verif-hooks", "enable": "no hooks are needed: the harness uses only public APIs (Scheduler trait, CurrentSchedule::get_schedule, serialize/deserialize_schedule, current::clock)",
                  "baseline_off_cmd": "cd /repo && cargo nextest run --workspace --no-fail-fast --tool-config-file pb:/w/lib/nextest.toml --profile pb --test-threads 8 --offline",
                  "source_commits": [], "add_only": True},
        "engines": [{"name": "shuttle-in-lean", "path": "lean/", "serves_properties": sorted(CLAIMED),
                     "kind_free_text": "hand-written executable Lean 4 model of Shuttle (kernel, schedulers, codec, RNG) with property theorems; tied to /repo by a step-exact differential harness (harness/, Rust, calls the real crates) and a constant extractor"}],
        "checks": checks,
        "not_applicable": [{"property_id": p, "reason": PENDING_REASON} for p in ALL if p not in CLAIMED],
        "notes": "Entry point ./check <Cnn> quick|thorough. DESIGN.md explains approach, trusted base and findings. known_findings.jsonl lists recorded and fixed defects.",
    }
    json.dump(m, open(os.path.join(VERIF, "MANIFEST.json"), "w"), indent=1)

if __name__ == "__main__":
    main()
