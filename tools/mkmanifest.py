#!/usr/bin/env python3
"""Regenerate MANIFEST.json from the table below (single source of truth for what is claimed)."""
import json, os
VERIF = os.path.dirname(os.path.dirname(os.path.abspath(__file__)))
CLAIMED = {
 "C16": dict(
   text="Lean 4 theorems over ALL Schedule values and ALL strings (ShuttleProofs/C16.lean: roundtrip, roundtrip_ws, wrap_width, width_minimal, reject_empty/non_hex/odd_length/bad_magic/width/truncated + truncated_ok) about a hand-written model of serialization.rs; the model is tied to the code on every run by line-exact comparison of the real serialize_schedule/deserialize_schedule with the compiled model on ~27k generated and corpus inputs (boundaries of varint/width/wrap, every prefix, corruptions, hostile headers), plus constants re-extracted from the source and proved equal to the model's.",
   note="Trusted: Lean kernel; axioms propext/Classical.choice/Quot.sound only (audited by #print axioms each run); hex and bitvec crates as specified; the differential harness and generators. Modelled, not verified: the Rust decoder itself (tied by the differential).",
   technique="Lean 4 proof (all inputs) + differential correspondence model vs real codec",
   design="§7 C16"),
}
PENDING_REASON = "not claimed yet: machinery for this property is still being built in this session (see DESIGN.md §7/§11)"
ALL = ["C%02d" % i for i in range(1, 21)]

def main():
    checks = []
    for pid in ALL:
        if pid in CLAIMED:
            c = CLAIMED[pid]
            checks.append({
                "property_id": pid,
                "quick_cmd": f"./check {pid} quick",
                "thorough_cmd": f"./check {pid} thorough",
                "evidence_file": f"/verif/evidence/{pid}.json",
                "replay_cmd_template": "./check " + pid + " --replay {path}",
                "engine": "shuttle-in-lean",
                "level_claimed": {"category": "proof", "text": c["text"], "design_ref": c["design"]},
                "level_note": c["note"],
                "technique": c["technique"],
            })
    m = {
        "version": 1,
        "setup_cmd": "./setup.sh",
        "hooks": {"guard": "verif-hooks", "enable": "no hooks are needed: the harness uses only public APIs (Scheduler trait, CurrentSchedule::get_schedule, serialize/deserialize_schedule, current::clock)",
                  "baseline_off_cmd": "cd /repo && cargo nextest run --workspace --no-fail-fast --tool-config-file pb:/w/lib/nextest.toml --profile pb --test-threads 8 --offline",
                  "source_commits": [], "add_only": True},
        "engines": [{"name": "shuttle-in-lean", "path": "lean/", "serves_properties": sorted(CLAIMED),
                     "kind_free_text": "hand-written executable Lean 4 model of Shuttle (kernel, schedulers, codec, RNG) with property theorems; tied to /repo by a step-exact differential harness (harness/, Rust, calls the real crates) and a constant extractor"}],
        "checks": checks,
        "not_applicable": [{"property_id": p, "reason": PENDING_REASON} for p in ALL if p not in CLAIMED],
        "notes": "Entry point ./check <Cnn> quick|thorough. DESIGN.md explains approach, trusted base and findings. known_findings.jsonl lists recorded and fixed defects.",
    }
    json.dump(m, open(os.path.join(VERIF, "MANIFEST.json"), "w"), indent=1)

if __name__ == "__main__":
    main()
