#!/usr/bin/env python3
"""Regenerate MANIFEST.json from the table below (single source of truth for what is claimed)."""
import json, os
VERIF = os.path.dirname(os.path.dirname(os.path.abspath(__file__)))
CLAIMED = {
 "C16": dict(
   text="Lean 4 theorems over ALL Schedule values and ALL strings (ShuttleProofs/C16.lean: roundtrip, roundtrip_ws, wrap_width, width_minimal, reject_empty/non_hex/odd_length/bad_magic/width/truncated + truncated_ok) about a hand-written model of serialization.rs; the model is tied to the code on every run by line-exact comparison of the real serialize_schedule/deserialize_schedule with the compiled model on ~27k generated and corpus inputs (boundaries of varint/width/wrap, every prefix, corruptions, hostile headers), plus constants re-extracted from the source and proved equal to the model's.",
   note="Trusted: Lean kernel; axioms propext/Classical.choice/Quot.sound only (audited by #print axioms each run); hex and bitvec crates as specified; the differential harness and generators. Modelled, not verified: the Rust decoder itself (tied by the differential).",
   technique="Lean 4 proof (all inputs) + differential correspondence model vs real codec",
   design="§7 C16"),
 "C02": dict(
   text="Proof: ShuttleProofs/C02.lean — complete_switch_normal / complete_outcomes: over arbitrary labelled transition systems, if every visible step is preceded by a scheduling point at which every enabled task is offered (the kernel contract C08) and enabledness refines the spec, every sequentially consistent interleaving is realised by a choice sequence (no axioms); the full statement for Shuttle is FALSE on this tree and is refuted by a kernel-checked witness on the reference side (incomplete_witness_mpsc_drop_ref) plus an executable model-side enumeration. Decision on the code, every run: three-way comparison of OUTCOME SETS on hundreds of small programs — the real runtime under the real exhaustive DfsScheduler, the model kernel's independently enumerated choice tree, and an independent sequentially consistent reference semantics of the IR written from the std-level meaning of each operation (lean/ShuttleModel/Ref.lean); every missing outcome is minimised and its cause is CONFIRMED by re-running the program with a scheduling point inserted before the suspected operations. Known findings re-found on every run: F1 (channel endpoint drops), F23 (Once::is_completed), F24 (available_permits), F25 (blocking Barrier::wait), F21 (reserved channel slot, soundness side).",
   note="Trusted: Lean kernel + standard axioms; the reference semantics encodes my reading of std's contracts (no spurious condvar wake-ups, park may wake spuriously, re-entrant try_read fails); programs are small (≤3 tasks, ≤5 ops/task) and trees above 4000 leaves are skipped and counted; rand results are abstracted in outcomes.",
   technique="Lean 4 proof of the abstract completeness theorem + exhaustive three-way outcome-set comparison (impl DFS / model / reference semantics)",
   design="§7 C02"),
 "C04": dict(
   text="Lean 4 theorems over all histories of a most-general client on the pure transition layer of Mutex/RwLock over the BatchSemaphore (ShuttleProofs/C04.lean: mutex_exclusive, rwlock_writer_exclusive, rwlock_no_reader_with_writer, lock_returns_only_if_free/compatible, try_succeeds_iff_available, failed_try_leaves_state (mutex; rwlock incl. the repaired re-entrant try_read: failed_try_leaves_state_fixed, with the witness for the unrepaired code kept), reentrant_diagnosed with the exact panic strings, poison_after_panicking_release, poisoned_is_seen) and, for atomics, through the real runSegment: every operation is one switch followed by one uninterrupted read-modify-write computing std's function mod 2^bits (atomic_*_is_rmw, atomic_total_order). Tie: step-exact differential on lock/atomic streams (all integer widths and bool, boundary operands, panics while holding locks). Oracle: holder-set monitor in log order (end-of-task guard drops are logged), try_* exactness, and every atomic result replayed on a sequential std-semantics reference along the logged total order.",
   note="Trusted: Lean kernel + standard axioms; the composition of the pure transitions with the kernel is checked by the differential, not proved (only the switch granularity is). F3 repaired in /repo; F11/F12 (poisoning strands queued waiters / exclusion by assertion) are modelled as the code behaves and recorded in DESIGN.md.",
   technique="Lean 4 proof over the pure lock/semaphore transitions + step-exact differential + holder-set/atomic-replay monitors",
   design="§7 C04"),
 "C05": dict(
   text="Lean 4 theorems over all histories of most-general-client LTSs on the pure transitions of Condvar, Barrier, Once and Task.park/unpark (ShuttleProofs/C05.lean: wait_returns_only_after_notify_during_wait, notify_one_releases_at_most_one (injective map from returns to notify_one epochs), any_waiter_can_win, notify_all_releases_all, condvar_no_lost_wakeup, condvar_blocked_iff_no_pending_signal, barrier_releases_exact_group, one_leader_per_generation, barrier_reuse_generations, exactly_one_initializer, call_once_returns_after_completion, token_is_boolean, park_consumes_or_blocks, unpark_unblocks_or_sets_token, park_invariant). Tie: step-exact differential on waiter/notifier mixes, reused barriers n∈{0..3}, racing call_once, park/unpark, also inside thread::scope. Oracle: per-execution monitors on the log.",
   note="Trusted: Lean kernel + standard axioms; mutual exclusion of Once's internal mutex is the C04 hypothesis; F10 (scope's unconditional unblock invents a wake-up) is modelled as is, witnessed in corpus/C07 and recorded as a known finding of C07.",
   technique="Lean 4 proof over primitive LTSs + step-exact differential + log monitors",
   design="§7 C05"),
 "C06": dict(
   text="Lean 4: a 25-clause inductive invariant over EVERY history of the most-general client of the channel's pure transitions (ShuttleProofs/C06.lean: received_is_prefix_of_sent, per_sender_order, capacity_invariant incl. rendezvous, recv_blocks_iff_empty, disconnect_send_fails, disconnect_recv_drains_then_fails, no_stranded_waiter, unblocked_waiter_completes, abstract_refinement to a bounded FIFO, no_panic). Three clauses of the property are false for the code and are proved so on concrete reachable states with exact partial forms: try_send/send report Full/block while a freed slot is reserved for a queued sender (F21, known finding, re-found by the C02 soundness comparison), try_recv on a rendezvous channel blocks until the hand-off, endpoint drops are skipped while any task is panicking. Tie: step-exact differential on channel streams (capacities unb/rdv/1/2, 1–3 senders, drops anywhere, receiver moved to a child, inside scopes). Oracle: FIFO / exactly-once / capacity / drain-before-disconnect monitors.",
   note="Trusted: Lean kernel + standard axioms; wrapper↔kernel composition by differential.",
   technique="Lean 4 invariant proof over all channel histories + step-exact differential + FIFO/capacity monitors",
   design="§7 C06"),
 "C10": dict(
   text="Lean 4: iteration_reproducible (for every deterministic program, seed and step bound: the i-th execution of the random scheduler — choices and data draws — equals the single execution of a scheduler built from the seed reported for iteration i), choose_uniform / choose_uniform_u64 (for every 0<n<2^32 resp. 2^64 each index is returned by exactly 2^lz(n) raw draws: equal probability conditional on acceptance), every_offered_positive, choose_history_free, nextTask_history_free — about a BIT-EXACT model of Pcg64Mcg and rand 0.8.8's gen_index/choose/shuffle/index::sample validated on 128k vectors. Tie: prediction mode — the model reproduces every choice and draw of the real RandomScheduler from the seed alone; impl-vs-impl: same seed twice; iteration i's seed fed back with one iteration reproduces iteration i.",
   note="Uniformity/'eventually visited' are counting theorems about the sampling algorithm; that Pcg64Mcg's outputs are uniform and independent is an assumption, not a theorem. URW: weights ≥ 1 read from urw.rs and the WeightedIndex model is validated on vectors; URW decisions are compared in trace mode only. SHUTTLE_RANDOM_SEED override not exercised.",
   technique="Lean 4 proof (counting + induction) over a bit-exact RNG model + prediction-mode differential",
   design="§7 C10"),
 "C12": dict(
   text="Lean 4 theorems over ALL process histories (sequences of configured runs on any OS threads) of the emission state machine of failure.rs + Execution::run's error mapping (ShuttleProofs/C12.lean): payload_reraised, continue_after_silent, emission_exact_fixed / emission_depends_only_on_own_config_fixed for the repaired code (the negation for the pinned code — F5, F6 — is kept as proved witnesses with the exact deviation characterisation later_run_deviates_iff), emitted_schedule_replays, portfolio_fails_iff_member_fails. Tie: vh_c12 runs generated sequences of configured real Shuttle runs (Print/File/None × panic in main/thread/future/while holding locks × deadlock × failing and continuing step bounds × portfolios) in child processes, captures stderr and the directory, replays every emitted schedule, and the canonical lines must equal the model's prediction. Oracle: the property text on those lines + 'a panic is never swallowed' on kernel streams with ContinueAfter bounds. Known findings re-found each run: F18 (double emission when unwinding through guards), F20 (ContinueAfter swallows a panic suspended mid-unwind).",
   note="Trusted: Lean kernel + standard axioms; bytes of messages beyond their class, create_new races and stderr interleaving are not modelled; F5/F6 repaired in /repo (c8ec228).",
   technique="Lean 4 proof over all process histories + child-process differential of emitted artefacts + replay of every emitted schedule",
   design="§7 C12"),
 "C18": dict(
   text="Lean 4 theorems over all histories of a most-general client (arbitrary finished-task snapshots and clocks) on the pure transition layer of batch_semaphore.rs (ShuttleProofs/C18.lean): conservation, batches_sum_eq_avail, source_invariants_1_to_4 (invariant (1) as written in the source is false for unfair semaphores: witness), acquire_removes_exactly_n, try_iff_immediate, fair_fifo + fair_no_overtaking, unfair_any_fitting_waiter_woken, unfair_losers_reblocked, cancel_safe, close_fails_all, wakes_current_poller, no_internal_assertion_fails, wrappers_atomic_granularity. Tie: step-exact differential on direct BatchSemaphore objects (fair/unfair, batch sizes), everything layered on it (Mutex, RwLock, Once, parking_lot, tokio locks) and the async Acquire API (create/poll/await/drop from different tasks). Oracle: conservation and try exactness from the log with available_permits() probes.",
   note="Trusted: Lean kernel + standard axioms; wrapper↔kernel composition by differential (only the switch granularity is proved).",
   technique="Lean 4 proof over the semaphore's pure transition system + step-exact differential",
   design="§7 C18"),
 "C01": dict(
   text="Lean 4 theorems for EVERY Program over the kernel API, every scheduler (any state type) and all fuel (ShuttleProofs/C01.lean): replay_faithful — replaying the schedule an execution recorded, through the model of ReplayScheduler, yields the same seed, the same event log (offered lists, current, yielding flags, choices, draw values, observations), the same outcome (pass / same panic / same deadlock list / step bound), the same final user state and re-records the same schedule, under the explicit hypothesis DataFaithful (shown necessary by a counterexample and proved for the round-robin, random and DFS schedulers: builtin_data_faithful); replay_exhausts_schedule (none of the replay panics is reachable); replay_from_string(_ws) via the C16 round trip; nondet_check_never_rejects (the uncontrolled-nondeterminism checker never rejects a deterministic program; newExec consulted once per pair); record_exact (C08). Tie: step-exact trace-mode differential on 13 program profiles under random/PCT/round-robin/DFS; oracle, implementation vs implementation: ~1000 recorded executions per run — passing, panicking (also while holding locks), deadlocking, step-bound — are re-run through the real ReplayScheduler::new_from_encoded(serialize_schedule(recorded)) with the run's own config and must reproduce every decision, draw, result, clock, the outcome and the re-recorded schedule.",
   note="Trusted: Lean kernel + standard axioms; programs in the model are deterministic by construction, so the theorems show recording/replay/checker are logically right — that the real runtime has no hidden nondeterminism is what the differential and the replay oracle check on the generated programs. shuttle::replay uses the default Config: the theorems and the oracle replay with the run's own step bound. URW scheduler: differential only. target_clock: partial theorem about next_task only.",
   technique="Lean 4 proof (simulation) over all programs/schedulers + step-exact differential + impl-vs-impl replay oracle",
   design="§7 C01"),
 "C11": dict(
   text="Lean 4 theorems about a line-by-line model of pct.rs for all states satisfying the invariant, all offered lists, all seeds (ShuttleProofs/C11.lean): pct_inv (distinct priorities, keys 0..len-1; shuffle proved to be a permutation), pct_runs_min_priority, pct_priority_changes_only (only insertion of new tasks by fresh slot/swap and demotion of the running task to a fresh lowest slot exactly when >1 task is offered and (step is a change point or yielding)), pct_demotes_only_current, pct_change_points and pct_at_most_d_minus_1_change_preemptions (under the explicit hypothesis SampleLoopsInRange on rand's rejection loop), pct_k_estimate, pct_iterations_exact, pct_no_concurrency_panics. Tie: prediction mode — model PCT + bit-exact Pcg64Mcg/rand 0.8.8 must reproduce every decision of the real PctScheduler from (seed, depth) alone (150 programs × 3–5 iterations per quick run; 151,919 decisions in the agent's validation); same-seed determinism impl-vs-impl; a sound log-only priority monitor. The probability bound 1/(n·k^(d-1)) is NOT formalised: it follows from the proved structure by the PCT paper's argument and is stated as such.",
   note="Trusted: Lean kernel + standard axioms; hypothesis SampleLoopsInRange (arithmetic core proved); PRNG uniformity is an assumption; rand/rand_pcg re-stated bit-exactly and validated on 128k vectors + every compared decision.",
   technique="Lean 4 proof over all scheduler states + prediction-mode differential against the real PctScheduler",
   design="§7 C11"),
 "C09": dict(
   text="Lean 4 theorems over ALL finite, well-formed choice trees (ShuttleProofs/C09.lean: dfs_exhaustive — every path exactly once, in left-to-right order, then stop, with fuel shown not to be a loophole; dfs_no_duplicates; dfs_iteration_bound; dfs_step_bound; dfs_never_fails) about a line-by-line transcription of dfs.rs. Tie, every run: prediction mode (the model DFS scheduler driving the model kernel must reproduce every decision, draw, result and recorded schedule of the real check_dfs run) and set/order comparison of the real run's schedules with an independent explicit-stack enumerator of the model kernel's choice tree; oracles on the implementation's own logs for the iteration bound, the ContinueAfter bound and the fixed data stream.",
   note="Trusted: Lean kernel; axioms ⊆ {propext, Classical.choice, Quot.sound}; the kernel contract (non-empty, distinct offers: C08) links programs to trees; harness/generator unverified; trees above 3000 leaves are cut and excluded from set mode.",
   technique="Lean 4 proof over all choice trees + prediction-mode and set-mode differential against the real DfsScheduler",
   design="§7 C09"),
 "C08": dict(
   text="Lean 4 theorems for EVERY Program over the kernel API, every Scheduler, every decision of every execution (ShuttleProofs/C08.lean: offered_nonempty, offered_strictly_ascending, offered_unfinished, offered_superset_runnable, offered_subset_runnable_or_spurious, current_is_last_chosen, yielding flag = has_yielded set only by request_yield, chosen_runs_next, none_stops_without_failure, no_scheduling_error, record_exact) about a transcription of ExecutionState::schedule / run_to_completion (ShuttleModel/Kernel.lean). Tie: step-exact trace-mode differential on 12 program profiles × 4 schedulers; oracle: a pass-through recording Scheduler asserts the contract on every real call and the tasks' own log cross-checks that only the chosen task runs.",
   note="Trusted: Lean kernel + standard axioms; coroutine switching (corosensei), unwinding and RefCell discipline are modelled not verified; wrapper transparency beyond the always-present MetricsScheduler is covered by the differential only.",
   technique="Lean 4 proof over all programs/schedulers + step-exact differential + contract-asserting recorder",
   design="§7 C08"),
 "C03": dict(
   text="Lean 4 theorems for every Program/Scheduler (ShuttleProofs/C03.lean: deadlock_iff as a full iff at the loop head, deadlock_verdict_sound/complete for executions, deadlockList_exact — exactly the unfinished tasks with detached/sleeping flags —, ok_iff, detached_leftovers_ok, no_early_end, spurious_not_progress, terminates_under_bound). Tie: trace-mode differential including the outcome line with the task list on deadlock-rich streams (lock cycles, lost notifications, closed channels, parked threads, barriers short of arrivals). Oracle on implementation logs: reported tasks = tasks that never finished; normal end ⇒ every task finished.",
   note="Trusted: as C08. 'blocked exactly when the operation is disabled' per primitive is part of C04–C06/C18, not of this check. Detached async tasks: theorem only (async IR not yet in the differential).",
   technique="Lean 4 proof over all programs + step-exact differential + log oracle",
   design="§7 C03"),
 "C13": dict(
   text="Lean 4 theorems for every Program/Scheduler (ShuttleProofs/C13.lean: no_decision_beyond_bound, fail_after/continue_after outcomes, bound_outcomes, bound_hit_ends, below_bound_unaffected at full strength, terminates_under_bound; the literal 'never more than n steps, draws included' is FALSE for the code — steps_overshoot_witness proves the negation on a concrete program and steps_total_bound_partial states exactly what holds; recorded as known finding F7). Tie: trace mode over a grid of bounds L-2..L+2 around each program's own step count, FailAfter and ContinueAfter; oracle counts steps from the log, compares below-bound runs with unbounded ones, and checks Runner::run's return value against the invocation count and the scheduler budget.",
   note="Trusted: as C08. Time limit (checked only between iterations) is read from the source, not exercised. F17 (debug-build abort when abandoning an execution holding a lock) repaired in /repo.",
   technique="Lean 4 proof over all programs + bound-grid differential + step-counting oracle",
   design="§7 C13"),
}
PENDING_REASON = "not claimed yet: machinery for this property is still being built in this session (see DESIGN.md §7/§11)"
ALL = ["C%02d" % i for i in range(1, 21)]

def main():
    checks = []
    for pid in ALL:
        if pid in CLAIMED:
            c = CLAIMED[pid]
            checks.append({
                "property_id": pid,
                "quick_cmd": f"./check {pid} quick",
                "thorough_cmd": f"./check {pid} thorough",
                "evidence_file": f"/verif/evidence/{pid}.json",
                "replay_cmd_template": "./check " + pid + " --replay {path}",
                "engine": "shuttle-in-lean",
                "level_claimed": {"category": "proof", "text": c["text"], "design_ref": c["design"]},
                "level_note": c["note"],
                "technique": c["technique"],
            })
    m = {
        "version": 1,
        "setup_cmd": "./setup.sh",
        "hooks": {"guard": "verif-hooks", "enable": "no hooks are needed: the harness uses only public APIs (Scheduler trait, CurrentSchedule::get_schedule, serialize/deserialize_schedule, current::clock)",
                  "baseline_off_cmd": "cd /repo && cargo nextest run --workspace --no-fail-fast --tool-config-file pb:/w/lib/nextest.toml --profile pb --test-threads 8 --offline",
                  "source_commits": [], "add_only": True},
        "engines": [{"name": "shuttle-in-lean", "path": "lean/", "serves_properties": sorted(CLAIMED),
                     "kind_free_text": "hand-written executable Lean 4 model of Shuttle (kernel, schedulers, codec, RNG) with property theorems; tied to /repo by a step-exact differential harness (harness/, Rust, calls the real crates) and a constant extractor"}],
        "checks": checks,
        "not_applicable": [{"property_id": p, "reason": PENDING_REASON} for p in ALL if p not in CLAIMED],
        "notes": "Entry point ./check <Cnn> quick|thorough. DESIGN.md explains approach, trusted base and findings. known_findings.jsonl lists recorded and fixed defects.",
    }
    json.dump(m, open(os.path.join(VERIF, "MANIFEST.json"), "w"), indent=1)

if __name__ == "__main__":
    main()
