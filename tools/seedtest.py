#!/usr/bin/env python3
"""Run registered checks against a seeded change:  seedtest.py <patch.diff> <Cnn> [<Cmm> …]
Applies the patch to /repo (git apply), runs `./check <Cnn> quick` for each listed property, prints one
line per check (DETECTED / missed + the VIOLATION lines) and ALWAYS restores /repo (git checkout -- .)."""
import os, subprocess, sys, json, time

VERIF = os.path.dirname(os.path.dirname(os.path.abspath(__file__)))


def main():
    patch = os.path.abspath(sys.argv[1])
    props = sys.argv[2:]
    st = subprocess.run(["git", "-C", "/repo", "status", "--porcelain", "--untracked-files=no"], capture_output=True, text=True).stdout.strip()
    if st:
        print("refusing: /repo has uncommitted changes:\n" + st); return 2
    r = subprocess.run(["git", "-C", "/repo", "apply", patch], capture_output=True, text=True)
    if r.returncode != 0:
        print("patch does not apply:", r.stderr[:300]); return 2
    out = {}
    try:
        for p in props:
            t0 = time.time()
            env = dict(os.environ)
            c = subprocess.run([os.path.join(VERIF, "check"), p, env.get("SEEDTEST_TIER", "quick")], cwd=VERIF, capture_output=True, text=True, env=env)
            viol = [l for l in c.stdout.splitlines() if l.startswith("VIOLATION")]
            known = [l for l in c.stdout.splitlines() if l.startswith("KNOWN-FINDING")]
            out[p] = {"rc": c.returncode, "violations": viol, "known": len(known), "wall_s": round(time.time() - t0, 1)}
            what = []
            for v in viol[:3]:
                path = v.split("replay=")[1].split()[0]
                try:
                    what.append(json.load(open(path)).get("what", json.load(open(path)).get("broken", ""))[:160])
                except Exception:
                    pass
            print(f"{p}: {'DETECTED' if viol else 'missed'} rc={c.returncode} {len(viol)} violation(s) in {out[p]['wall_s']}s")
            for v, w in zip(viol[:3], what):
                print("   ", v[:140])
                print("      ", w)
            if not viol:
                print("    last line:", c.stdout.strip().splitlines()[-1] if c.stdout.strip() else c.stderr[-200:])
    finally:
        subprocess.run(["git", "-C", "/repo", "checkout", "--", "."])
        subprocess.run(["git", "-C", "/repo", "clean", "-fdq", "--", "shuttle/tests"], capture_output=True)
    print(json.dumps(out))
    return 0


if __name__ == "__main__":
    sys.exit(main())
