"""C04 — Mutex, RwLock and atomics: mutual exclusion and atomic, SC updates.
Proof: ShuttleProofs/C04.lean (exclusion and try_* exactness as permit accounting over the semaphore
theorems of C18; poisoning; atomics = fetch_update with wrap-around, one uninterrupted segment each).
Tie: trace mode on lock/atomic streams (all integer widths, operands biased to 0, 1, MAX, MIN).
Oracle: holder-set monitor in log order; failing try_* must leave the lock as it was; every atomic result is
replayed on a sequential std-semantics reference along the logged total order."""
from kernelprop import *
import oracles_prim


def o_c04(prog, lines):
    return oracles_prim.o_locks(prog, lines) + oracles_prim.o_poison(prog, lines)


def poison_streams(c, rng, tier, results):
    """a task panics while it holds two or three guards; the others run inside its unwinding (every run fails at its
    first execution, so each program is run under eight single-iteration schedulers)"""
    n = 150 if tier == "quick" else 2500
    res = {"poison_shape": run_stream("c04_poison", gen.batch(rng.next(), "poison_shape", n, "c04p_"), "trace")}
    return res, apply_oracle(res, o_c04)


def run(tier, seed):
    return run_kernel_prop("C04", tier, seed, ["ShuttleProofs.C04"], "ShuttleProofs.C04Audit", None,
                           ["ShuttleProofs/C04.lean"], o_c04,
                           "mutex_exclusive, rwlock_writer_exclusive, rwlock_no_reader_with_writer, try_succeeds_iff_available, failed_try_leaves_state (with the F3 repair; "
                           "witness for the unrepaired code kept), reentrant_diagnosed, poison_after_panicking_release, atomic ops = fetch_update mod 2^bits",
                           profiles=["locks", "atomics", "stdmix", "condvar", "kernel"], per_quick=100, lemma_prefixes=("Sem", "Locks"), extra=poison_streams)


def replay(path):
    return replay_program(path, lambda res: [(w, None, s) for n in res["names"] for (w, s) in o_c04(res["progs"][n], res["impl"].get(n, []))])
