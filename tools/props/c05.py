"""C05 — Condvar, Barrier, Once, park/unpark neither lose nor invent wake-ups.
Proof: ShuttleProofs/C05.lean over all histories of most-general-client LTSs on the pure transitions of
Prim/{Condvar,Barrier,Once}.lean and Task.park/unpark.  Tie: trace mode on waiter/notifier mixes, reused
barriers (n ∈ {0,1,2,3}), racing call_once, park/unpark.  Oracle: per-execution monitors on the log."""
from kernelprop import *
import oracles_prim


def both(prog, lines):
    return oracles_prim.o_waiters(prog, lines) + [x for x in oracles_prim.o_locks(prog, lines) if x[1].startswith("C05")]


def run(tier, seed):
    return run_kernel_prop("C05", tier, seed, ["ShuttleProofs.C05"], "ShuttleProofs.C05Audit", None,
                           ["ShuttleProofs/C05.lean", "ShuttleModel/Prim/Condvar.lean", "ShuttleModel/Prim/Barrier.lean", "ShuttleModel/Prim/Once.lean"], both,
                           "wait_returns_only_after_notify_during_wait, notify_one_releases_at_most_one, any_waiter_can_win, notify_all_releases_all, condvar_no_lost_wakeup, "
                           "barrier_releases_exact_group, one_leader_per_generation, barrier_reuse_generations, exactly_one_initializer, call_once_returns_after_completion, "
                           "token_is_boolean, park_consumes_or_blocks, unpark_unblocks_or_sets_token, park_invariant — all histories; "
                           "F10 (thread::scope's unconditional unblock invents a wake-up for a task blocked in recv/wait/join) is a known finding, witnessed under corpus/C07",
                           profiles=["cv_shape", "park", "park_mix", "condvar", "condvar_dl", "barrier", "once", "kernel", "stdmix", "scope"], per_quick=150,
                           lemma_prefixes=("Condvar", "Barrier", "Once", "Park"))


def replay(path):
    return replay_program(path, lambda res: [(w, None, s) for n in res["names"] for (w, s) in both(res["progs"][n], res["impl"].get(n, []))])
