"""C12 — failures surface to the caller with a schedule that reproduces them.
Proof: ShuttleProofs/C12.lean over ALL process histories (sequences of configured runs) of the emission
state machine of failure.rs + Execution::run's error mapping: payload_reraised, continue_after_silent,
emission_depends_only_on_own_config_fixed / emission_exact_fixed (for the repaired code; the negation for the
unrepaired code is kept as witnesses), portfolio_fails_iff_member_fails.
Tie: `vh_c12` runs generated SEQUENCES of configured Shuttle runs (Print / File / None × panic in main, thread,
future, while holding locks, deadlock, failing and continuing step bounds, portfolios; several OS threads) in
child processes, captures stderr and the persistence directory, replays every emitted schedule, and the
canonical result lines must equal the Lean model's prediction (`shuttle_model c12 … fixed`).
Oracle: the property text on those lines (tools/c12_check.py) + "a panic is never swallowed" on the kernel streams."""
import json, os, subprocess
from vlib import *
from propbase import *
import kernelprop, oracles, gen

VH_C12 = os.path.join(HARNESS, "target", "release", "vh_c12")


def o_swallowed(prog, lines):
    bad = []
    for e in executions(lines):
        if any(l == "P panic" or (l.startswith("O ") and l.endswith(" panicking")) for l in e["lines"]) and not (e["end"] or "").startswith("E fail"):
            bad.append(("a task panicked but the execution did not fail: the panic was swallowed "
                        "(the step bound was reached while the panicking task was suspended in its unwinding)", "C12:panic-swallowed"))
    return bad


PANIC_PROFILE = {"objs": {"atomic": (1, 1), "mutex": (1, 2)},
                 "weights": {"atomic": 3, "yield": 2, "lock": 5, "panic": 2, "randpanic": 3},
                 "min_tasks": 1, "extra_tasks": 2, "min_ops": 1, "extra_ops": 4}


def run(tier, seed):
    c = Check("C12", tier, seed)
    c.assumptions = ["Lean kernel; axioms per theorem via #print axioms",
                     "modelled, not verified: the bytes of the panic message beyond its class, create_new races of persist_failure_to_file, stderr interleaving",
                     "replay of a failing step-bound execution uses the run's own Config (shuttle::replay uses the default one)",
                     "harness (vh_c12 child/parent processes), spec generator and this script unverified"]
    ok_build, ok_audit = build_and_audit(c, ["ShuttleProofs.C12"], "ShuttleProofs.C12Audit",
                                         ["ShuttleModel/Failure.lean", "ShuttleProofs/C12.lean"] + lemma_files(["Failure"]))
    if not c.cargo_build(("vh", "vh_c12")):
        c.violation_noinput("harness does not build: " + getattr(c, "cargo_error", "")[-300:], "cargo build vh vh_c12")
        return c.finish()
    bad = []
    # ---- process-history sweep
    count = 120 if tier == "quick" else 1500
    impl_f = os.path.join(WORK, "c12_impl.txt")
    specs_f = os.path.join(WORK, "c12_specs.txt")
    rc, out, err, dt = sh([sys.executable, os.path.join(VERIF, "tools", "c12_check.py"), "--sweep", str(seed % 100000), str(count),
                           "--out", impl_f, "--specs", specs_f], timeout=3000)
    rc2, mout, merr, _ = sh([MODEL, "c12", specs_f, "fixed"])
    model_f = os.path.join(WORK, "c12_model.txt")
    open(model_f, "w").write(mout)
    rc3, cout, cerr, _ = sh([sys.executable, os.path.join(VERIF, "tools", "c12_check.py"), impl_f, model_f])
    cands = [l for l in cout.splitlines() if l.startswith("VIOLATION-CANDIDATE")]
    diffs = [l for l in cout.splitlines() if l.startswith("MODEL-DIFF") or l.startswith("DIFF")]
    seen = set()
    for l in cands:
        m = dict(kv.split("=", 1) for kv in l.split()[1:] if "=" in kv)
        cls = l.rsplit("class=", 1)[-1].strip() if "class=" in l else "UNCLASSIFIED"
        sig = "C12:" + cls
        if sig in seen:
            continue
        seen.add(sig)
        bad.append((l[20:300], {"kind": "c12spec", "spec": m.get("spec"), "run": m.get("run"),
                                "rerun": f"harness/target/release/vh_c12 parent {m.get('spec')}"}, sig))
    nlines = sum(1 for _ in open(impl_f)) if os.path.exists(impl_f) else 0
    # ---- "a panic is never swallowed": kernel streams with panics, with and without ContinueAfter bounds
    rng = Rng(seed)
    n = 60 if tier == "quick" else 1000
    lines = corpus_programs("C12") + gen.batch(rng.next(), PANIC_PROFILE, n, "c12p_", ("random", "rr", "pct"))
    res = {"panic_streams": run_stream("c12_panic", lines, "trace")}
    bounded = []
    for l in lines:
        if l.startswith("config "):
            bounded.append(l.replace("steps=none", "steps=cont:%d" % (4 + rng.below(10))))
        elif l.startswith("=== "):
            bounded.append(l + "_b")
        elif l.startswith("run "):
            t = l[4:].split(":")     # one execution per run (F19 would make later ones differ from the model)
            bounded.append("run " + (":".join(t[:-1] + ["1"]) if t[0] in ("random", "pct") else "rr:1"))
        else:
            bounded.append(l)
    res["panic_streams_continue_after"] = run_stream("c12_panic_b", bounded, "trace")
    bad += kernelprop.apply_oracle(res, o_swallowed)
    # ---- "replaying it reproduces the same failure": every failing execution of the panic streams (many of them depend
    # on shuttle::rand draws and are not the first execution of their run) is replayed from its recorded schedule
    from props.c01 import replay_stream
    fails = {"panic_streams": dict(res["panic_streams"])}
    rl, meta = replay_stream(fails, rng, tier, per_prog=3, only_failing=True)
    rp = run_stream("c12_replay", rl, "trace")
    res["replay_of_failures"] = rp
    for nm in rp["names"]:
        sname, n, e = meta[nm]
        ex = executions(rp["impl"].get(nm, []))
        want = e["end"] or ""
        got = (ex[0]["end"] or "") if len(ex) == 1 else f"<{len(ex)} executions>"
        if got != want:
            bad.append((f"replaying the schedule of a failing execution does not reproduce its failure: recorded `{want[:90]}`, replayed `{got[:90]}`",
                        {"kind": "program", "program": rp["progs"][nm], "original": fails[sname]["progs"][n]}, "C12:replay-differs"))
    known_sigs = {k.get("signature") for k in c.known if k.get("status") == "known"}
    if (rc2 != 0 or diffs or rc3 not in (0, 1)) and not [b for b in bad if b[2] not in known_sigs]:
        c.violation_noinput(f"model and implementation disagree on the emission lines: {(diffs or [cerr[-200:]])[0][:300]}",
                            "correspondence C12 process-history sweep (shuttle_model c12 fixed vs vh_c12 sweep)")
    c.cov["samples"] = [{"spec_lines": open(impl_f).read().splitlines()[:4] if os.path.exists(impl_f) else []}]
    c.cov["process_histories"] = count
    c.cov["configured_runs_compared"] = nlines
    c.cov["violation_candidates_by_class"] = {s: sum(1 for l in cands if l.endswith(s.split(":")[1])) for s in seen}
    c.cov["explanation"] = ("payload_reraised, continue_after_silent, emission_exact_fixed / emission_depends_only_on_own_config_fixed over all process histories, portfolio_fails_iff_member_fails; "
                            "tie: generated sequences of configured runs in child processes vs the model's emission lines, every emitted schedule replayed")
    return report(c, res, bad, ok_build, ok_audit, "ShuttleProofs.C12", "ShuttleProofs.C12Audit")


def replay(path):
    r = json.load(open(path))
    if r.get("kind") == "c12spec":
        p = subprocess.run([VH_C12, "parent", r["spec"]], capture_output=True, text=True)
        print(p.stdout)
        return 0
    return replay_program(path, lambda res: [(w, None, s) for n in res["names"] for (w, s) in o_swallowed(res["progs"][n], res["impl"].get(n, []))])
