"""C09 — depth-first search visits every schedule exactly once and then stops.
Proof: ShuttleProofs/C09.lean (all finite choice trees). Tie: prediction mode (model DFS must
reproduce the real DfsScheduler decision by decision) + set mode (the schedules recorded under the
real DFS ≡ the leaves produced by an independent explicit-stack enumerator over the model kernel).
Oracles on the implementation's own logs: no duplicate schedule, iteration bound = prefix of the
unbounded run, ContinueAfter(n) = distinct length-n prefixes, one fixed data stream."""
import json, os
from vlib import *
from propbase import *
import gen

SMALL = {"objs": {"atomic": (1, 1), "mutex": (0, 1)},
         "weights": {"atomic": 5, "yield": 2, "lock": 2, "rand": 1},
         "min_tasks": 1, "extra_tasks": 1, "min_ops": 1, "extra_ops": 2}
NORAND = {"objs": {"atomic": (1, 1), "mutex": (0, 1)},
          "weights": {"atomic": 5, "yield": 2, "lock": 2},
          "min_tasks": 1, "extra_tasks": 1, "min_ops": 1, "extra_ops": 2}
LIMIT = 3000


def with_run(lines, run, steps=None, suffix=""):
    out = []
    for l in lines:
        if l.startswith("run "):
            out.append("run " + run)
        elif l.startswith("=== "):
            out.append(l + suffix)
        elif l.startswith("config ") and steps is not None:
            out.append(" ".join(("steps=" + steps) if t.startswith("steps=") else t for t in l.split()))
        else:
            out.append(l)
    return out


def oracles(full, bounded, stepb, enum, ks, ns):
    bad = []
    for n in full["names"]:
        ex = executions(full["impl"].get(n, []))
        scheds = [e["sched"] for e in ex]
        prog = full["progs"][n]
        if len(scheds) >= LIMIT:
            continue
        failed = any((e["end"] or "").startswith("E fail") for e in ex)
        if len(set(scheds)) != len(scheds):
            bad.append(("DFS repeated a schedule", {"kind": "program", "program": prog}, "C09:duplicate"))
        # set mode against the independent enumerator
        en = enum["model"].get(n, [])
        if en and en[-1].startswith("T complete"):
            leaves = [l.split()[1] for l in en if l.startswith("L ")]
            if failed:
                # the run stops at its first failing execution: it must have visited the leaves before it
                if leaves[:len(scheds)] != scheds:
                    bad.append(("DFS did not follow the left-to-right order of the tree up to its first failure",
                                {"kind": "program", "program": prog}, "C09:order"))
            elif sorted(leaves) != sorted(scheds):
                missing = sorted(set(leaves) - set(scheds))[:3]
                extra = sorted(set(scheds) - set(leaves))[:3]
                bad.append((f"DFS visited {len(scheds)} schedules, the enumerated tree has {len(leaves)} leaves; missing={missing} extra={extra}",
                            {"kind": "program", "program": prog}, "C09:set-mismatch"))
            elif leaves != scheds:
                bad.append(("DFS order differs from left-to-right order of the tree", {"kind": "program", "program": prog}, "C09:order"))
        # one fixed data stream
        streams = [[l for l in e["lines"] if l.startswith("R ")] for e in ex]
        longest = max(streams, key=len) if streams else []
        if any(s != longest[:len(s)] for s in streams) or len(set(e["seed"] for e in ex)) > 1:
            bad.append(("executions of one DFS run used different random-data streams", {"kind": "program", "program": prog}, "C09:data-stream"))
        # iteration bound: exactly the first k schedules
        if failed:
            continue
        k = ks[n]
        bn = n + "_k"
        if bn in bounded["impl"]:
            bs = [e["sched"] for e in executions(bounded["impl"][bn])]
            if bs != scheds[:k]:
                bad.append((f"dfs with iteration bound {k} ran {len(bs)} executions that are not the first {k} of the unbounded run",
                            {"kind": "program", "program": bounded["progs"][bn]}, "C09:iteration-bound"))
        # step bound (programs without draws only): distinct prefixes of length nsteps
        sn = n + "_s"
        if sn in stepb["impl"] and not any(l.startswith("R ") for l in full["impl"].get(n, [])):
            nst = ns[n]
            ss = [decode_schedule(e["sched"])[1] for e in executions(stepb["impl"][sn]) if e["sched"]]
            want = []
            for h in scheds:
                p = decode_schedule(h)[1][:nst]
                if p not in want:
                    want.append(p)
            if ss != want:
                bad.append((f"dfs under ContinueAfter({nst}) enumerated {len(ss)} prefixes, expected the {len(want)} distinct prefixes",
                            {"kind": "program", "program": stepb["progs"][sn]}, "C09:step-bound"))
    return bad


def run(tier, seed):
    c = Check("C09", tier, seed)
    c.assumptions = ["Lean kernel; axioms per theorem via #print axioms",
                     "the choice tree a deterministic program presents is finite and well formed (non-empty offers, distinct ids): guaranteed by the kernel contract C08",
                     "harness/generators/this script unverified"]
    ok_build, ok_audit = build_and_audit(c, ["ShuttleProofs.C09"], "ShuttleProofs.C09Audit",
                                         ["ShuttleModel/Sched/Dfs.lean", "ShuttleProofs/C09.lean"] + lemma_files(["Dfs"]))
    if not c.cargo_build(("vh",)):
        c.violation_noinput("harness does not build: " + getattr(c, "cargo_error", "")[-300:], "cargo build vh")
        return c.finish()
    rng = Rng(seed)
    count = 120 if tier == "quick" else 1500
    base = corpus_programs("C09")
    base += gen.batch(rng.next(), SMALL, count // 2, "c09r_", ("dfs",))
    base += gen.batch(rng.next(), NORAND, count // 2, "c09n_", ("dfs",))
    full_lines = with_run(base, f"dfs:{LIMIT}")
    full = run_stream("c09full", full_lines, "predict")
    enum = run_stream("c09enum", full_lines, "enumerate", LIMIT)
    enum["diffs"] = []
    ks, ns = {}, {}
    bounded_lines, step_lines = [], []
    progs = corr.split_programs(base)
    for n, pl in progs.items():
        # bounds include the corner 0 (no execution at all / one empty execution); forced for the first programs
        ks[n] = 0 if len(ks) < 6 else rng.below(7)
        ns[n] = 0 if len(ns) < 6 else rng.below(10)
        bounded_lines += with_run(pl, f"dfs:{ks[n]}", suffix="_k")
        # (programs that can panic are left out of the step-bound stream: an execution abandoned in the middle of a
        # panic leaks the OS thread's panic count into the following ones — known finding F19, decided by C14)
        if not any(a.split()[:2] == b.split()[:2] and a.split()[:1] == ["lock"] for a, b in zip(pl, pl[1:])):
            step_lines += with_run(pl, f"dfs:{LIMIT}", steps=f"cont:{ns[n]}", suffix="_s")
    bounded = run_stream("c09k", bounded_lines, "predict")
    stepb = run_stream("c09s", step_lines, "predict")
    bad = oracles(full, bounded, stepb, enum, ks, ns)
    sizes = [len(executions(full["impl"].get(n, []))) for n in full["names"]]
    c.cov["samples"] = sample_of({"full": full}, 1) + [{"tree_sizes_histogram": {str(k): sum(1 for s in sizes if s == k) for k in sorted(set(sizes))[:25]}}]
    c.cov["explanation"] = ("theorems dfs_exhaustive, dfs_no_duplicates, dfs_iteration_bound, dfs_step_bound, dfs_never_fails over all well-formed finite trees; "
                            "tie: prediction mode vs the real DfsScheduler + set/order comparison with an independent enumerator; "
                            f"largest tree {max(sizes) if sizes else 0} leaves, trees ≥ {LIMIT} leaves are cut and excluded from set mode")
    c.cov["exhaustive_trees_compared"] = sum(1 for n in full["names"] if enum["model"].get(n, [""])[-1].startswith("T complete"))
    return report(c, {"dfs_full_predict": full, "dfs_iteration_bound_predict": bounded, "dfs_step_bound_predict": stepb, "enumerator": enum},
                  bad, ok_build, ok_audit, "ShuttleProofs.C09", "ShuttleProofs.C09Audit")


def replay(path):
    def orc(res):
        bad = []
        for n in res["names"]:
            scheds = [e["sched"] for e in executions(res["impl"].get(n, []))]
            if len(set(scheds)) != len(scheds):
                bad.append(("duplicate schedule", None, "C09:duplicate"))
        return bad
    return replay_program(path, orc)
