"""C19 — tokio-compatible primitives keep tokio's documented contracts.
Proof: ShuttleProofs/C19.lean over all histories of a most-general client on the pure transitions of the
tokio wrappers (mpsc over two fair semaphores, oneshot, watch, Notify, locks/semaphore as corollaries of C18).
Tie: step-exact differential on the tokio streams (async ops driven through block_on from threads, blocking_*
variants, poll-once-then-drop cancellation).  Oracle: tools/oracle_c19.py monitors on the implementation log."""
from kernelprop import *
import oracle_c19


def more_streams(c, rng, tier, results):
    """the cheap profiles whose interesting interleavings are rare get many more programs"""
    n = 500 if tier == "quick" else 8000
    res = {}
    for prof in ("tnotify", "tmpsc", "tlocks"):
        res["more_" + prof] = run_stream("c19m_" + prof, gen.batch(rng.next(), prof, n, f"c19m_{prof}_"), "trace")
    return res, apply_oracle(res, oracle_c19.o_tokio)


def run(tier, seed):
    return run_kernel_prop("C19", tier, seed, ["ShuttleProofs.C19"], "ShuttleProofs.C19Audit", None,
                           ["ShuttleProofs/C19.lean"] + ["ShuttleModel/Wrap/" + f for f in ("Tokio.lean", "TokioBase.lean", "TokioMpsc.lean", "TokioOneshot.lean", "TokioWatch.lean", "TokioNotify.lean", "TokioLocks.lean")],
                           oracle_c19.o_tokio,
                           "tmpsc_fifo_exactly_once, tmpsc_capacity, tmpsc_slot_returned_on_every_receive_fixed (F4 repaired in /repo; witness for the pinned code kept), oneshot_at_most_one, "
                           "watch_latest_and_notified, notify_at_most_one_permit, notify_one_wakes_at_most_one, notify_waiters_wakes_all_current, notify_never_lost_partial "
                           "(the full statement is false: F14, known finding), tokio_locks_exclusion / fifo as corollaries of C18; spawn/JoinHandle/abort: see C17. "
                           "Not driven: broadcast, OnceCell, select!, time, the *_owned variants, entry points that are unimplemented!() in the wrapper",
                           profiles=["tmpsc", "tnotify", "twatch", "toneshot", "tlocks", "tmix"], per_quick=120, lemma_prefixes=("Tokio",), extra=more_streams)


def replay(path):
    return replay_program(path, lambda res: [(w, None, s) for n in res["names"] for (w, s) in oracle_c19.o_tokio(res["progs"][n], res["impl"].get(n, []))])
