"""C02 — the runtime offers its scheduler enough choices: every outcome that some sequentially
consistent interleaving of a program's visible operations allows is produced by at least one
sequence of choices (completeness of the schedule tree).

Three outcome sets are computed for every SMALL program (≤ 3 tasks, a handful of ops per task):
  impl   the real Shuttle under the real `DfsScheduler` (`run dfs:<cap>`); when a failing execution
         stops the DFS run early, every schedule of the model's enumerated tree is replayed on the
         real runtime (`run replay:<hex>`) instead;
  model  the model kernel's exhaustively enumerated choice tree (`shuttle_model outcomes`);
  ref    the independent sequentially consistent reference semantics (`shuttle_model ref`,
         lean/ShuttleModel/Ref.lean) — `strict`: no spurious `park` returns, the barrier leader is
         the last arriver; `lenient`: everything the documented contracts allow.
Oracles:
  C02:missing-outcome:<shape>   outcomes(ref strict) ⊆ outcomes(impl)          (the property)
  C02:unsound-outcome:<shape>   outcomes(impl) ⊆ outcomes(ref lenient)         (belongs to C03–C07)
  C02:model-mismatch            outcomes(impl) = outcomes(model kernel)
<shape> = sorted set of the op kinds used on the objects of the operations whose results differ
between the offending outcome and the nearest outcome of the other set.
Proof side: ShuttleProofs/C02.lean (abstract completeness theorem over labelled transition systems
under the kernel contract C08 + a refinement hypothesis; concrete incompleteness witness)."""
import json, os
from vlib import *
from propbase import *
import gen, corr, outcomes as oc

CAP = 4000            # DFS iteration cap = enumeration limit: larger trees are skipped (and counted)
REF_LIMIT = 400000    # states of the reference search
REPLAY_CAP = 600      # schedules replayed for a program whose DFS run is cut short by a failure
MAX_OPS = 5           # ops per task (without `if` lines) of a generated program

_B = {"min_tasks": 1, "extra_tasks": 1, "min_ops": 1, "extra_ops": 2, "clocks": False}
PROFILES = {
    "atomic": dict(_B, objs={"atomic": (1, 2)}, weights={"atomic": 6, "yield": 1}, extra_ops=3),
    "mutex": dict(_B, objs={"atomic": (0, 1), "mutex": (1, 2)}, weights={"lock": 6, "atomic": 2, "yield": 1}),
    "rwlock": dict(_B, objs={"atomic": (0, 1), "rwlock": (1, 1)}, weights={"rw": 6, "atomic": 2, "yield": 1}),
    "chan": dict(_B, objs={"chan": (1, 2)}, parent0=(9, 10), weights={"send": 5, "recv": 5, "yield": 1}),
    "condvar": dict(_B, objs={"mutex": (1, 1), "condvar": (1, 1)}, weights={"cvwait": 5, "cvnotify": 5, "yield": 1}),
    "barrier": dict(_B, objs={"barrier": (1, 1), "atomic": (1, 1)}, weights={"barrier": 5, "atomic": 3, "yield": 1}),
    "once": dict(_B, objs={"once": (1, 2), "atomic": (0, 1)}, weights={"once": 6, "atomic": 2, "yield": 1}),
    "sem": dict(_B, objs={"sem": (1, 1), "atomic": (0, 1)}, weights={"sem": 6, "atomic": 2, "yield": 1}),
    "park": dict(_B, objs={"atomic": (1, 1)}, weights={"park": 3, "unpark": 4, "atomic": 3, "yield": 1}, extra_ops=3),
    "mix": dict(_B, objs={"atomic": (1, 1), "mutex": (0, 1), "chan": (0, 1), "sem": (0, 1), "once": (0, 1)},
                weights={"atomic": 3, "lock": 2, "send": 2, "recv": 2, "sem": 2, "once": 2, "park": 1, "unpark": 1, "yield": 1}),
}
# outside the fragment: scheduler internals, thread-locals / lazy statics / scopes (not modelled by the reference), and
# `once_val` — a read of a plain (non-Shuttle) cell, which breaks the premise "communicate only through Shuttle's primitives"
UNSUPPORTED_OPS = {"ctx", "tls_with", "lazy_get", "scope_begin", "scope_spawn", "scope_end", "reset_steps", "once_val"}


def normalise(lines):
    """every program runs without step bound, without clock lines, under the real DFS"""
    out = []
    for l in lines:
        if l.startswith("config "):
            out.append("config steps=none clocks=0")
        elif l.startswith("run "):
            out.append(f"run dfs:{CAP}")
        else:
            out.append(l)
    return out


def small_enough(pl):
    p = oc.parse_program(pl)
    if len(p["tasks"]) > 3:
        return False
    for t in p["tasks"]:
        if sum(1 for o in t if o[0] != "if") > MAX_OPS:
            return False
        if any(o[0] in UNSUPPORTED_OPS for o in t):
            return False
    return True


def generated(seed, profile, count, prefix):
    lines = gen.batch(seed, PROFILES[profile], count, prefix, ("dfs",))
    out = []
    for n, pl in corr.split_programs(lines).items():
        if small_enough(pl):
            out += pl
    return normalise(out)


# ---------------------------------------------------------------- compact snippet generator
# gen.py's blocks are too long for exhaustive three-way comparison; these profiles build programs
# from 1–3 op snippets: ≤ 3 tasks, ≤ 4 ops per task (spawns/joins included)
_AT = [["aload a"], ["astore a 1"], ["aadd a 1"], ["aswap a 2"]]
SNIPS = {
    "s_atomic": {"objs": [["obj a atomic 0"], ["obj a atomic 0", "obj b atomic 0"]],
                 "snips": _AT + [["aload b"], ["astore b 1"], ["acas a 0 3"], ["yield"], ["sleep"]]},
    "s_mutex": {"objs": [["obj m mutex 0", "obj a atomic 0"]],
                "snips": [["lock m", "unlock m"], ["lock m", "setval m 1", "unlock m"], ["lock m"], ["lock m", "setval m 2"],
                          ["trylock m", "if wouldblock skip 1", "unlock m"], ["trylock m"], ["yield"]] + _AT[:2]},
    "s_rwlock": {"objs": [["obj l rwlock 0", "obj a atomic 0"]],
                 "snips": [["read l", "unread l"], ["write l", "setval l 1", "unwrite l"], ["read l"], ["write l"],
                           ["tryread l", "if wouldblock skip 1", "unread l"], ["trywrite l", "if wouldblock skip 1", "unwrite l"],
                           ["tryread l"], ["trywrite l"]] + _AT[:2]},
    "s_chan": {"objs": [["obj c chan unb"], ["obj c chan cap:1"], ["obj c chan rdv"], ["obj c chan unb", "obj a atomic 0"]],
               "snips": [["send c 1"], ["send c 2"], ["try_send c 3"], ["recv c"], ["recv c"], ["try_recv c"], ["drop_tx c"],
                         ["drop_rx c"], ["yield"]]},
    "s_condvar": {"objs": [["obj m mutex 0", "obj cv condvar"]],
                  "snips": [["lock m", "wait cv m", "unlock m"], ["lock m", "if v:1 skip 1", "wait cv m", "unlock m"],
                            ["lock m", "wait_while cv m 0", "unlock m"], ["lock m", "setval m 1", "unlock m", "notify_one cv"],
                            ["lock m", "setval m 1", "notify_all cv", "unlock m"], ["notify_one cv"], ["notify_all cv"],
                            ["lock m", "wait cv m"], ["yield"]]},
    "s_barrier": {"objs": [["obj b barrier 2", "obj a atomic 0"], ["obj b barrier 3", "obj a atomic 0"], ["obj b barrier 1", "obj a atomic 0"]],
                  "snips": [["bwait b"], ["bwait b"], ["bwait b", "bwait b"]] + _AT},
    "s_once": {"objs": [["obj o once", "obj a atomic 0"]],
               "snips": [["call_once o 1"], ["call_once o 2"], ["is_completed o"], ["is_completed o"]] + _AT[:3]},
    "s_sem": {"objs": [["obj s sem 1 unfair", "obj a atomic 0"], ["obj s sem 1 fair", "obj a atomic 0"],
                       ["obj s sem 0 fair", "obj a atomic 0"], ["obj s sem 2 unfair", "obj a atomic 0"], ["obj s sem 0 unfair", "obj a atomic 0"]],
              "snips": [["acquire s 1"], ["acquire s 2"], ["try_acquire s 1"], ["try_acquire s 2"], ["release s 1"], ["release s 2"],
                        ["avail s"], ["avail s"], ["close s"], ["acquire s 1", "release s 1"]] + _AT[:2]},
    "s_park": {"objs": [["obj a atomic 0"]],
               "snips": [["park"], ["park"], ["unpark ?"], ["unpark ?"], ["unpark ?"], ["yield"]] + _AT},
    "s_join": {"objs": [["obj a atomic 0"]],
               "snips": [["join ?"], ["join ?"], ["yield"]] + _AT},
}


def snippet_program(rng, prof, name):
    p = SNIPS[prof]
    objs = rng.choice(p["objs"])
    declared = {o.split()[1] for o in objs}
    usable = [sn for sn in p["snips"]
              if all(len(o.split()) < 2 or o.split()[0] in ("if", "unpark", "join") or o.split()[1] in declared for o in sn)]
    nt = 2 + rng.below(2)
    bodies = []
    for k in range(nt):
        body, target = [], 1 + rng.below(3)
        while sum(1 for o in body if not o.startswith("if ")) < target:
            sn = rng.choice(usable)
            if sum(1 for o in body + sn if not o.startswith("if ")) > 4:
                if body:
                    break
                continue
            body += sn
        bodies.append(body)
    parents = {}
    for k in range(1, nt):
        parent = 0 if (k == 1 or rng.chance(3, 4)) else 1
        if rng.chance(2, 3):
            pos = 0 if parent == 0 else rng.below(len(bodies[parent]) + 1)
            # spawns of task 0 stay in front, in order
            if parent == 0:
                pos = sum(1 for o in bodies[0] if o.startswith("spawn "))
        else:
            pos = rng.below(len(bodies[parent]) + 1)
        while pos > 0 and pos < len(bodies[parent]) and gen.Gen._inside_skip(bodies[parent], pos):
            pos -= 1
        bodies[parent].insert(pos, f"spawn {k}")
        parents[k] = parent
        if prof != "s_join" and rng.chance(1, 3):
            bodies[parent].append(f"join {k}")
    # thread handles are used the way a Rust program can: a `JoinHandle` by the spawner after the
    # spawn (once), a `Thread` handle of oneself, an ancestor or an own child already spawned
    for j, body in enumerate(bodies):
        anc, x = [j], j
        while x in parents:
            x = parents[x]
            anc.append(x)
        joined = set()
        for pos, o in enumerate(body):
            kids = [int(b.split()[1]) for b in body[:pos] if b.startswith("spawn ")]
            if o == "unpark ?":
                body[pos] = f"unpark {rng.choice(anc + kids)}"
            elif o == "join ?":
                cand = [c for c in kids if c not in joined]
                if cand:
                    c = rng.choice(cand)
                    joined.add(c)
                    body[pos] = f"join {c}"
                else:
                    body[pos] = "yield"
            elif o.startswith("join "):
                joined.add(int(o.split()[1]))
    lines = [f"=== {name}", "config steps=none clocks=0"] + list(objs)
    for k, b in enumerate(bodies):
        lines.append(f"task {k} thread")
        lines += ["  " + o for o in b]
        lines.append("end")
    lines.append(f"run dfs:{CAP}")
    return lines


def snippet_batch(seed, prof, count, prefix):
    rng = Rng(seed)
    lines, seen = [], set()
    for i in range(count):
        pl = snippet_program(rng, prof, f"{prefix}{i}")
        key = "\n".join(pl[1:])
        if key in seen:
            continue
        seen.add(key)
        lines += pl
    return lines


def evaluate(tag, lines, jobs=12):
    """the three outcome sets of every program of the batch.
    -> dict(names, progs, impl={n: {...}}, model={n: (set, complete)}, ref={n: (set, complete)},
            lenient={n: (set, complete)}, raw=run_stream-like dict, crashed=[...])"""
    raw = run_stream(tag, lines, "none", None, jobs=jobs)
    raw["diffs"] = []
    progs, names = raw["progs"], raw["names"]
    crashed = []
    mo, cr = oc.run_model("outcomes", lines, tag, CAP, jobs=jobs); crashed += cr
    raw["model"] = mo
    rs, cr = oc.run_model("ref", lines, tag + "s", REF_LIMIT, "nospurious,leaderlast", jobs=jobs); crashed += cr
    # the lenient reference only differs for programs with park / barriers
    len_names = [n for n in names if any(l.split()[:1] in (["park"], ["bwait"]) for l in progs[n])]
    len_lines = [l for n in len_names for l in progs[n]]
    rl, cr = oc.run_model("ref", len_lines, tag + "l", REF_LIMIT, jobs=jobs) if len_lines else ({}, []); crashed += cr
    impl, model, ref, lenient = {}, {}, {}, {}
    need_replay = {}
    for n in names:
        impl[n] = oc.impl_outcomes(progs[n], raw["impl"].get(n, []), CAP)
        impl[n]["via"] = "dfs"
        model[n] = oc.u_lines(mo.get(n, []))
        ref[n] = oc.u_lines(rs.get(n, []))
        lenient[n] = oc.u_lines(rl[n]) if n in rl else ref[n]
        en = [l for l in mo.get(n, []) if l]
        if impl[n]["failed"] and en and en[-1].startswith("T complete"):
            leaves = [l.split()[1] for l in en if l.startswith("L ")]
            if len(leaves) <= REPLAY_CAP:
                need_replay[n] = leaves
    if need_replay:
        rlines = oc.replay_batch(progs, need_replay)
        rimpl, _, rnames, rst = corr.run_batch(rlines, tag + "rp", jobs=jobs, model_mode="none")
        for prog, rc, err in rst["crashed"]:
            crashed.append(f"vh replay crashed on {prog}: rc={rc} {err[-200:]}")
        for n, leaves in need_replay.items():
            p = oc.parse_program(progs[n])
            outs, ok = set(), True
            for i, h in enumerate(leaves):
                ex = executions(rimpl.get(f"{n}@{i}", []))
                if len(ex) != 1 or ex[0]["sched"] != h:
                    ok = False       # the real runtime did not follow (or did not accept) the schedule
                    continue
                outs.add(oc.project_execution(p, ex[0]))
            impl[n].update({"outcomes": impl[n]["outcomes"] | outs, "complete": ok, "via": "replay",
                            "executions": len(leaves)})
    # `setval` is a plain write to the data a held guard protects — no call into the runtime, hence not a visible operation
    # and not separable from the acquisition before it; its result (`ok`) carries nothing: dropped from every outcome
    for n in names:
        inv = invisible_pcs(progs[n])
        if not inv:
            continue
        impl[n]["outcomes"] = {strip_pcs(o, inv) for o in impl[n]["outcomes"]}
        model[n] = ({strip_pcs(o, inv) for o in model[n][0]}, model[n][1])
        ref[n] = ({strip_pcs(o, inv) for o in ref[n][0]}, ref[n][1])
        lenient[n] = ({strip_pcs(o, inv) for o in lenient[n][0]}, lenient[n][1])
    return {"names": names, "progs": progs, "impl": impl, "model": model, "ref": ref, "lenient": lenient,
            "raw": raw, "crashed": crashed}


def invisible_pcs(pl):
    """{body: {pc of every `setval`}}"""
    inv, cur, pc = {}, None, 0
    for l in pl:
        t = l.split()
        if l.startswith("task "):
            cur, pc = int(t[1]), 0
        elif l.startswith("  ") and cur is not None:
            if t[0] == "setval":
                inv.setdefault(cur, set()).add(pc)
            pc += 1
        elif l.strip() == "end":
            cur = None
    return inv


def strip_pcs(outcome, inv):
    body, sep, term = outcome.rpartition(";E:")
    if not sep:
        return outcome
    tasks = []
    for part in body.split(";"):
        k, colon, rest = part.partition(":")
        if not colon or not k.isdigit():
            tasks.append(part); continue
        items = [it for it in (rest.split(",") if rest else []) if not (it.partition("=")[0].isdigit() and int(it.partition("=")[0]) in inv.get(int(k), ()))]
        tasks.append(f"{k}:" + ",".join(items))
    return ";".join(tasks) + ";E:" + term


def reentrant_without_panic(pl):
    """the program acquires a lock it already holds (the runtime diagnoses that with a panic raised BEFORE the operation's
    scheduling point) and has no `panic` of its own"""
    held, cur, found = set(), None, False
    for l in pl:
        t = l.split()
        if l.startswith("task "):
            cur, held = int(t[1]), set()
        elif l.startswith("  ") and cur is not None and len(t) > 1:
            if t[0] == "panic":
                return False
            if t[0] in ("lock", "read", "write"):
                if t[1] in held:
                    found = True
                held.add(t[1])
            elif t[0] in ("trylock", "tryread", "trywrite"):
                held.add(t[1])
            elif t[0] in ("unlock", "unread", "unwrite"):
                held.discard(t[1])
        elif l.startswith("  ") and t and t[0] == "panic":
            return False
    return found


NOOP_RESULTS = {"noguard", "nohandle", "norecv", "nosender", "noscope", "busy"}


def strip_noops(outcome):
    body, sep, term = outcome.rpartition(";E:")
    if not sep:
        return outcome
    tasks = []
    for part in body.split(";"):
        k, colon, rest = part.partition(":")
        if not colon:
            tasks.append(part); continue
        items = [it for it in (rest.split(",") if rest else []) if it.partition("=")[2] not in NOOP_RESULTS]
        tasks.append(f"{k}:" + ",".join(items))
    return ";".join(tasks) + ";E:" + term


def prog_size(pl):
    return sum(1 for l in pl if l.startswith("  "))


def oracles(ev, only=None):
    """-> (bad, counters). bad: list of (what, replay_obj, signature, size, root) — smallest program
    first; `only`: restrict to these program names"""
    bad = []
    cnt = {"programs": 0, "impl_complete": 0, "impl_via_replay": 0, "skipped_tree_too_large": 0,
           "skipped_unsupported": 0, "skipped_ref_truncated": 0, "compared": 0, "ref_outcomes": 0,
           "impl_outcomes": 0, "model_compared": 0, "programs_missing": 0, "programs_unsound": 0,
           "programs_model_mismatch": 0}
    for n in ev["names"]:
        if only is not None and n not in only:
            continue
        cnt["programs"] += 1
        pl = ev["progs"][n]
        prog = oc.parse_program(pl)
        im, (mo, mo_ok), (rf, rf_ok), (ln, ln_ok) = ev["impl"][n], ev["model"][n], ev["ref"][n], ev["lenient"][n]
        # `nohandle`: the program looked a thread handle up in the HARNESS's shared table while the spawn that
        # fills it was concurrent — communication outside Shuttle's primitives, outside the property's premise
        # (the same holds for every operation that never reaches the runtime — `unwrite` without a guard, `recv` without a
        # receiver …: bookkeeping of the harness, not a step of the program, hence no scheduling point)
        if any(o.endswith("E:unsupported") or any(f"={r}" in o for r in NOOP_RESULTS) for o in rf | ln | im["outcomes"]):
            cnt["skipped_unsupported"] += 1
            continue
        if not im["complete"]:
            cnt["skipped_tree_too_large"] += 1
            continue
        cnt["impl_complete"] += 1
        cnt["impl_via_replay"] += im["via"] == "replay"
        if mo_ok:
            cnt["model_compared"] += 1
            if mo != im["outcomes"]:
                cnt["programs_model_mismatch"] += 1
                bad.append((f"the implementation's outcome set differs from the model kernel's: only impl {sorted(im['outcomes'] - mo)[:2]}, only model {sorted(mo - im['outcomes'])[:2]}",
                            {"kind": "program", "program": pl}, "C02:model-mismatch", prog_size(pl), "model-mismatch"))
        if not (rf_ok and ln_ok):
            cnt["skipped_ref_truncated"] += 1
            continue
        cnt["compared"] += 1
        cnt["ref_outcomes"] += len(rf)
        cnt["impl_outcomes"] += len(im["outcomes"])
        missing = sorted(rf - im["outcomes"])
        # (what other tasks observe while a panic is propagating — locks closed by a panicking release, F11/F12 — is outside
        # the reference semantics and outside this property; the soundness of those executions is C04's business)
        unsound = sorted(o for o in im["outcomes"] - ln if not o.endswith(";E:panic"))
        if missing:
            cnt["programs_missing"] += 1
            sigs = {}
            for o in missing:
                shape, root, near = oc.shape_signature(prog, o, im["outcomes"])
                sigs.setdefault(shape, (o, near, root))
            for shape, (o, near, root) in sigs.items():
                bad.append((f"a sequentially consistent interleaving produces the outcome [{o}] but no schedule of the "
                            f"runtime's complete tree ({im['executions']} executions, {im['via']}) does; nearest produced: [{near}]",
                            {"kind": "program", "program": pl, "missing_outcome": o, "nearest_produced": near,
                             "impl_outcomes": sorted(im["outcomes"]), "ref_outcomes": sorted(rf)},
                            *(("C02:missing-switch-before:reentrant-diagnosis", prog_size(pl), "missing:reentrant-diagnosis")
                              if o.endswith(";E:panic") and reentrant_without_panic(pl) else
                              ("C02:missing-outcome:" + shape, prog_size(pl), "missing:" + root))))
        if unsound:
            cnt["programs_unsound"] += 1
            sigs = {}
            for o in unsound:
                shape, root, near = oc.shape_signature(prog, o, ln)
                sigs.setdefault(shape, (o, near, root))
            for shape, (o, near, root) in sigs.items():
                bad.append((f"the runtime produces the outcome [{o}] that no sequentially consistent interleaving allows; nearest allowed: [{near}]",
                            {"kind": "program", "program": pl, "unsound_outcome": o, "nearest_allowed": near,
                             "impl_outcomes": sorted(im["outcomes"]), "ref_outcomes": sorted(ln)},
                            "C02:unsound-outcome:" + shape, prog_size(pl), "unsound:" + root))
    bad.sort(key=lambda b: b[3])
    return bad, cnt


def _candidates(p):
    """single-op removals (never a `spawn`, never at or inside an `if … skip`), unused objects, and
    the last task together with its spawn / join / unpark"""
    idx, guarded = [], set()
    for i, l in enumerate(p):
        t = l.split()
        if l.startswith("  ") and t[0] == "if":
            guarded.update(range(i, i + int(t[-1]) + 1))
    for i, l in enumerate(p):
        if l.startswith("  ") and i not in guarded and i - 1 not in guarded and l.split()[0] != "spawn":
            idx.append(i)
    out = [p[:i] + p[i + 1:] for i in idx]
    used = " ".join(l for l in p if l.startswith("  ")).split()
    for i, l in enumerate(p):
        if l.startswith("obj ") and l.split()[1] not in used:
            out.append(p[:i] + p[i + 1:])
    starts = [i for i, l in enumerate(p) if l.startswith("task ")]
    if len(starts) > 2 and not guarded:
        k = len(starts) - 1
        end = next(i for i in range(starts[-1], len(p)) if p[i].strip() == "end")
        rest = p[:starts[-1]] + p[end + 1:]
        out.append([l for l in rest if l.strip() not in (f"spawn {k}", f"join {k}", f"unpark {k}")])
    return out


def minimise_all(items, rounds=10):
    """items: {root: program lines}.  Greedy, all roots in lockstep: per round ONE batch with every
    candidate of every root; for each root the smallest candidate that still shows a finding of the
    same kind (missing / unsound; ties: the same root first) is kept — so that programs converge to
    canonical minimal shapes.  -> {root: (program, finding tuple or None)}"""
    cur = {r: (list(pl), None) for r, pl in items.items()}
    active = set(cur)
    for _ in range(rounds):
        batch, owner = [], {}
        for ri, r in enumerate(sorted(active)):
            for j, cand in enumerate(_candidates(cur[r][0])):
                name = f"m{ri}_{j}"
                owner[name] = (r, cand)
                batch += [f"=== {name}" if l.startswith("=== ") else l for l in cand]
        if not batch:
            break
        bad, _ = oracles(evaluate("c02min", batch))
        hits = {}
        for b in bad:
            name = b[1]["program"][0][4:].strip()
            r, cand = owner.get(name, (None, None))
            if r is not None and b[4].split(":")[0] == r.split(":")[0]:
                hits.setdefault(r, []).append((prog_size(cand), 0 if b[4] == r else 1, name, cand, b))
        active = set(hits)
        for r, hs in hits.items():
            _, _, _, cand, b = min(hs, key=lambda h: (h[0], h[1], h[2]))
            cur[r] = (cand, b)
    return cur


def minimise(pl, root, rounds=10):
    return minimise_all({root: pl}, rounds)[root]


def run(tier, seed):
    c = Check("C02", tier, seed)
    c.assumptions = ["Lean kernel; axioms per theorem via #print axioms",
                     "the reference semantics (lean/ShuttleModel/Ref.lean) is the documented std/tokio meaning of the operations — hand-written, unverified",
                     "outcome sets are compared on bounded programs only (≤ 3 tasks, ≤ %d ops per task, trees ≤ %d executions)" % (MAX_OPS, CAP),
                     "for programs with failing executions the implementation's outcomes come from replaying every schedule of the model's enumerated tree on the real runtime",
                     "the model-kernel half of incomplete_witness_mpsc_drop is an executable test of the compiled driver (`shuttle_model c02witness`), not a kernel-checked proof",
                     "harness/generators/this script unverified"]
    ok_build, ok_audit = build_and_audit(c, ["ShuttleProofs.C02"], "ShuttleProofs.C02Audit",
                                         ["ShuttleModel/Ref.lean", "ShuttleProofs/C02.lean"] + lemma_files(["Ref"]))
    if not c.cargo_build(("vh",)):
        c.violation_noinput("harness does not build: " + getattr(c, "cargo_error", "")[-300:], "cargo build vh")
        return c.finish()
    # the executable half of the incompleteness witness (informational: it stops holding when the runtime is fixed)
    rc, out, err, _ = sh([MODEL, "c02witness"], timeout=600)
    c.cov["incomplete_witness_mpsc_drop"] = [l for l in out.split("\n") if l.startswith("W ")]
    rng = Rng(seed)
    count = 10 if tier == "quick" else 300
    streams = [("corpus", normalise(corpus_programs("C02")))]
    for name in PROFILES:
        streams.append((name, generated(rng.next(), name, 2 * count, f"c02{name}_")))
    for name in SNIPS:
        streams.append((name, snippet_batch(rng.next(), name, 2 * count, f"c02{name}_")))
    results, bad, per = {}, [], {}
    # quick: one batch (process start-up dominates); thorough: one batch per stream
    groups = [("all", [l for _, ls in streams for l in ls])] if tier == "quick" else streams
    for gname, lines in groups:
        if not lines:
            continue
        ev = evaluate("c02" + gname, lines)
        results[gname] = ev["raw"]
        for msg in ev["crashed"]:
            c.violation_noinput(msg, "C02 driver")
        for name, ls in (streams if tier == "quick" else [(gname, lines)]):
            names = set(corr.split_programs(ls))
            b, cnt = oracles(ev, names)
            bad += b
            if cnt["programs"]:
                per[name] = cnt
    # ---- where the scheduling points are: step-exact (trace mode) on the general profiles.  The model has a scheduling
    # point exactly where the source calls thread::switch(), including the conditional ones (blocking acquire of a fair
    # semaphore, a send that will block, the last arrival at a barrier): a point that disappears from the code is a
    # decision the implementation no longer makes.
    n_sp = 100 if tier == "quick" else 2500
    for prof in ("sem", "sem_shape", "chan", "chan_shape", "chan_dl", "barrier", "condvar", "locks", "once", "stdmix", "async_sem", "tmpsc", "tlocks"):
        k = n_sp // 3 if prof.endswith("_shape") else n_sp
        results["points_" + prof] = run_stream("c02pt_" + prof, gen.batch(rng.next(), prof, k, f"c02pt_{prof}_"), "trace")
    bad.sort(key=lambda b: b[3])
    # one defect shows up under many shapes in unminimised programs: group by root (the op kinds of the differing
    # operations), minimise the smallest program of every root, take the signature from the minimised program
    roots, seen, final = {}, set(), []
    for b in bad:
        roots.setdefault(b[4], b)
    small = minimise_all({r: b[1]["program"] for r, b in roots.items() if r != "model-mismatch"},
                         rounds=8 if tier == "quick" else 14)
    for root, (what, robj, sig, _, _) in sorted(roots.items()):
        prog, found = small.get(root, (None, None))
        if found is not None:
            what, robj, sig = found[0], dict(found[1], program=prog), found[2]
        if sig in seen:
            continue
        seen.add(sig)
        final.append((what, robj, sig))
    final = explain(final)
    seen = set(sg for _, _, sg in final)
    c.cov["roots"] = sorted(roots)
    c.cov["per_profile"] = per
    c.cov["signatures"] = sorted(seen)
    c.cov["samples"] = sample_of(results, 1)
    c.cov["explanation"] = ("abstract theorem complete_switch_normal (every interleaving of a spec LTS is realised by a choice sequence when every "
                            "visible step is preceded by a scheduling point offering all enabled tasks and enabledness refines) + concrete "
                            "incompleteness witness (reference half kernel-checked, model half executable); tie: three-way comparison of outcome sets "
                            "impl DFS / model kernel enumeration / reference semantics on small programs")
    return report(c, results, final, ok_build, ok_audit, "ShuttleProofs.C02", "ShuttleProofs.C02Audit")



# ---------------------------------------------------------------- cause confirmation ("explanation check")
CAUSES = [("chan-endpoint-drop", {"drop_tx", "drop_rx"}, True),
          ("once-is_completed", {"is_completed"}, False),
          ("sem-available_permits", {"avail"}, False),
          ("barrier-blocking-wait", {"bwait"}, False),
          ("park", {"park"}, False)]
CHAN_OPS = {"send", "try_send", "recv", "try_recv", "drop_tx", "drop_rx"}


def with_yields(pl, kinds, at_task_end):
    """insert a `yield` (a scheduling point) before every op of `kinds` (and, for channel programs, at the end
    of every task that uses channel ops: its endpoints are dropped there). Returns (program, per-task list of
    inserted positions in NEW numbering) or None when the program has `if … skip` lines (offsets would break)."""
    if any(l.startswith("  if ") for l in pl):
        return None
    out, ins, cur, pc = [], {}, None, 0
    has_chan = any(l.split()[:1] == ["obj"] and len(l.split()) > 2 and l.split()[2] == "chan" for l in pl)
    for l in pl:
        t = l.split()
        if l.startswith("task "):
            cur, pc = int(t[1]), 0
            ins[cur] = []
            out.append(l)
        elif l.startswith("  ") and cur is not None:
            if t[0] in kinds:
                out.append("  yield"); ins[cur].append(pc); pc += 1
            out.append(l); pc += 1
        elif l.strip() == "end" and cur is not None:
            if at_task_end and has_chan:
                out.append("  yield"); ins[cur].append(pc); pc += 1
            out.append(l); cur = None
        else:
            out.append(l)
    return out, ins


def strip_inserted(outcome, ins):
    """rewrite an outcome of the yield-augmented program to the numbering of the original one"""
    body, _, term = outcome.rpartition(";E:")
    tasks = []
    for part in body.split(";"):
        if ":" not in part:
            tasks.append(part); continue
        k, _, rest = part.partition(":")
        items = []
        for it in (rest.split(",") if rest else []):
            pc, _, res = it.partition("=")
            pc = int(pc)
            if pc in ins.get(int(k), []):
                continue
            items.append(f"{pc - sum(1 for x in ins.get(int(k), []) if x < pc)}={res}")
        tasks.append(f"{k}:" + ",".join(items))
    return ";".join(tasks) + ";E:" + term


def explain(final):
    """for every missing-outcome violation: does a scheduling point inserted before the suspected operations make
    the runtime produce the missing outcome? then the cause is exactly that missing scheduling point"""
    out = []
    for what, robj, sig in final:
        if not sig.startswith("C02:missing-outcome:") or "missing_outcome" not in robj:
            out.append((what, robj, sig)); continue
        pl = robj["program"]
        ops = set(l.split()[0] for l in pl if l.startswith("  "))
        cause = None
        for name, kinds, at_end in CAUSES:
            if not (ops & kinds) and not (at_end and ops & CHAN_OPS):
                continue
            v = with_yields(pl, kinds, at_end)
            if v is None:
                continue
            vp, ins = v
            vp = [l + "_y" if l.startswith("=== ") else l for l in vp]
            ev = evaluate("c02explain", normalise(vp), jobs=1)
            for n in ev["names"]:
                got = set(strip_inserted(o, ins) for o in ev["impl"][n]["outcomes"])
                if ev["impl"][n]["complete"] and robj["missing_outcome"] in got:
                    cause = name
            if cause:
                break
        if cause:
            robj = dict(robj, confirmed_cause=f"inserting a scheduling point before {cause} makes the runtime produce the missing outcome")
            out.append((what + f" — cause confirmed: no scheduling point before {cause}", robj, "C02:missing-switch-before:" + cause))
        else:
            out.append((what, robj, sig))
    seen, res = set(), []
    for w, r, sg in out:
        if sg.startswith("C02:unsound-outcome:") and set(sg.split(":")[2].split(",")) <= CHAN_OPS and "try_send" in sg:
            sg = "C02:unsound-outcome:chan-reserved-slot"
        if sg in seen:
            continue
        seen.add(sg); res.append((w, r, sg))
    return res


def replay(path):
    r = json.load(open(path))
    if "program" not in r or not r["program"]:
        print("replay names a broken obligation, nothing to execute:", r.get("broken")); return 1
    subprocess.run(["cargo", "build", "--release", "--offline", "--bin", "vh"], cwd=HARNESS, env=ENV, capture_output=True)
    ev = evaluate("c02replay", normalise(r["program"]), jobs=1)
    bad, cnt = oracles(ev)
    for n in ev["names"]:
        print("impl :", sorted(ev["impl"][n]["outcomes"]), ev["impl"][n]["via"], "complete" if ev["impl"][n]["complete"] else "INCOMPLETE")
        print("model:", sorted(ev["model"][n][0]))
        print("ref  :", sorted(ev["ref"][n][0]))
    want = r.get("signature")
    hit = [b for b in bad if want is None or b[2] == want]
    for what, _, sig, _, _ in bad:
        print("ORACLE:", sig, what)
    print("REPRODUCED" if hit else "not reproduced")
    return 1 if hit else 0
