"""C08 — the runtime honours the Scheduler interface contract.
Proof: ShuttleProofs/C08.lean (every decision of every execution of every Program under every
scheduler).  Tie: trace-mode correspondence.  Oracle: the recording pass-through scheduler asserts the
contract on every real call and the task-side log cross-checks `chosen_runs_next`; executions that are
stopped early (the step bound plays the scheduler's "no task" answer) must end without failure."""
from kernelprop import *
import oracles

PROGRAM_FAILURES = ("vp-panic", "deadlock! blocked tasks", "tried to acquire a", "PoisonError", "called `Result::unwrap()` on an `Err` value: PoisonError",
                    "exceeded max_steps bound", "test closure did not exercise")


def o_stopped(prog, lines):
    """`returning no task ends the execution without failure`: an execution cut short must not fail inside the runtime"""
    bad = []
    for e in executions(lines):
        end = e["end"] or ""
        if end.startswith("E fail ") and not any(k in end for k in PROGRAM_FAILURES):
            bad.append((f"an execution that was stopped early failed inside the runtime instead of ending quietly: {end[7:160]}", "C08:stop-fails"))
    return bad


def stopped_streams(c, rng, tier, results):
    per = 40 if tier == "quick" else 600
    res = {}
    for prof in ("chan", "chan_dl", "sem", "locks", "condvar", "stdmix", "async", "tmpsc"):
        if prof not in gen.PROFILES:
            continue
        lines = []
        n = per * 4 if prof.startswith("chan") else per
        for l in gen.batch(rng.next(), prof, n, f"c08s_{prof}_", ("random", "rr", "pct")):
            if l.startswith("config "):
                # half of the executions are cut by the step bound, half by the scheduler itself answering "no task"
                if rng.below(2):
                    l = l.replace("steps=none", "steps=cont:%d" % (2 + rng.below(9)))
                else:
                    l = l + " stop=%d" % (1 + rng.below(12))
            elif l.startswith("run "):
                # one execution per run: an execution abandoned in the middle of a panic leaks the OS thread's panic
                # count into the next one (known finding F19, decided by C14) — not what this stream is about
                t = l[4:].split(":")
                l = "run " + ":".join(t[:-1] + ["1"]) if t[0] in ("random", "pct", "urw") else "run rr:1"
            lines.append(l)
        res["stopped_" + prof] = run_stream("c08s_" + prof, lines, "trace")
    bad = apply_oracle(res, o_stopped) + apply_oracle(res, oracles.o_contract)
    return res, bad


def run(tier, seed):
    return run_kernel_prop("C08", tier, seed, ["ShuttleProofs.C08"], "ShuttleProofs.KernelAudit", ["ShuttleProofs.C08."],
                           ["ShuttleProofs/C08.lean"], oracles.o_contract,
                           "offered_nonempty / strictly_ascending / unfinished / superset_runnable / subset_runnable_or_spurious, current_is_last_chosen, "
                           "yielding flag = has_yielded set only by request_yield, chosen_runs_next, none_stops_without_failure, record_exact — for all programs and schedulers; "
                           "wrapper transparency (metrics wrapper is always in the path of Runner) is covered by the differential only",
                           extra=stopped_streams)


def replay(path):
    return replay_program(path, lambda res: [(w, None, s) for n in res["names"] for (w, s) in
                                             oracles.o_contract(res["progs"][n], res["impl"].get(n, [])) + o_stopped(res["progs"][n], res["impl"].get(n, []))])
