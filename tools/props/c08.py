"""C08 — the runtime honours the Scheduler interface contract.
Proof: ShuttleProofs/C08.lean (every decision of every execution of every Program under every
scheduler).  Tie: trace-mode correspondence.  Oracle: the recording pass-through scheduler asserts the
contract on every real call and the task-side log cross-checks `chosen_runs_next`."""
from kernelprop import *
import oracles


def run(tier, seed):
    return run_kernel_prop("C08", tier, seed, ["ShuttleProofs.C08"], "ShuttleProofs.KernelAudit", ["ShuttleProofs.C08."],
                           ["ShuttleProofs/C08.lean"], oracles.o_contract,
                           "offered_nonempty / strictly_ascending / unfinished / superset_runnable / subset_runnable_or_spurious, current_is_last_chosen, "
                           "yielding flag = has_yielded set only by request_yield, chosen_runs_next, none_stops_without_failure, record_exact — for all programs and schedulers; "
                           "wrapper transparency (metrics wrapper is always in the path of Runner) is covered by the differential only")


def replay(path):
    return replay_program(path, lambda res: [(w, None, s) for n in res["names"] for (w, s) in oracles.o_contract(res["progs"][n], res["impl"].get(n, []))])
