"""C18 — BatchSemaphore conserves permits, honours fairness mode, is cancel-safe.
Proof: ShuttleProofs/C18.lean over all histories of a most-general client on the pure transitions of
Prim/Sem.lean (conservation, source invariants, fair_fifo, unfair wake/reblock, cancel_safe, close_fails_all,
wakes_current_poller, try_iff_immediate).  Tie: step-exact trace mode on the semaphore streams (direct
BatchSemaphore objects, and everything built on it: Mutex, RwLock, Once, parking_lot locks).  Oracle:
conservation / try exactness / close from the log with available_permits() probes."""
from kernelprop import *
import oracles_prim


def shape_streams(c, rng, tier, results):
    """directed stories around one semaphore: acquisitions created by one task and polled / awaited / dropped by another,
    racing release, close and try_acquire; schedule trees explored (almost) exhaustively"""
    n = 300 if tier == "quick" else 5000
    res = {"sem_shape": run_stream("c18_shape", gen.batch(rng.next(), "sem_shape", n, "c18s_"), "trace")}
    return res, apply_oracle(res, oracles_prim.o_sems)


def run(tier, seed):
    return run_kernel_prop("C18", tier, seed, ["ShuttleProofs.C18"], "ShuttleProofs.C18Audit", None,
                           ["ShuttleProofs/C18.lean"], oracles_prim.o_sems,
                           "conservation, batches_sum_eq_avail, source_invariants_1_to_4 (invariant (1) holds for fair semaphores only: source_invariant_1_unfair_fails_witness), "
                           "acquire_removes_exactly_n, try_iff_immediate, fair_fifo, unfair_any_fitting_waiter_woken, unfair_losers_reblocked, cancel_safe, close_fails_all, wakes_current_poller — "
                           "all histories of the most-general client over the pure transition layer; wrappers ↔ kernel composition checked by the differential. "
                           "The async Acquire API (create/poll/drop from different tasks) enters the differential with the async IR (C17).",
                           profiles=["sem", "async_sem", "locks", "stdmix", "once", "pl", "pl_upgrade"], per_quick=100, lemma_prefixes=("Sem",), extra=shape_streams)


def replay(path):
    return replay_program(path, lambda res: [(w, None, s) for n in res["names"] for (w, s) in oracles_prim.o_sems(res["progs"][n], res["impl"].get(n, []))])
