"""C07 — thread lifecycle: spawn, join, scope and thread-locals behave as in std.
Proof: ShuttleProofs/C07.lean (storage_init_once, storage_pop_in_insertion_order, storage_tombstone_access_is_error,
storage_pop_loop_terminates_with_late_inits, tls_model_refines_storage, thread_fn_order, join_returns_only_when_finished,
task_ids_unique, closure_runs_once, scope_waits_for_all, scope_unblock_only_when_waiting (F10 repaired)).
Tie: step-exact differential on nested-spawn / any-order join / scoped / TLS-with-destructor streams.
Oracle: drop-order log, join-after-end, unique ids (tools/oracles_prim.o_threads)."""
from kernelprop import *
import oracles_prim

F10_MSGS = ("index < len", "should not have been woken", "assertion failed: index")


def both(prog, lines):
    bad = oracles_prim.o_threads(prog, lines)
    # F10: thread::scope's last child unblocks the main task unconditionally: a main task blocked in recv / wait /
    # join inside the scope closure is woken with nothing to receive and trips an internal assertion
    if any(l.split()[:1] == ["scope_begin"] for l in prog):
        for e in executions(lines):
            end = e["end"] or ""
            if end.startswith("E fail") and any(m in end for m in F10_MSGS):
                bad.append(("thread::scope woke its main task although it was blocked in another operation: " + end[7:120], "C07:scope-phantom-wakeup"))
    return bad


def run(tier, seed):
    return run_kernel_prop("C07", tier, seed, ["ShuttleProofs.C07", "ShuttleProofs.C07Join"], "ShuttleProofs.C07Audit", None,
                           ["ShuttleProofs/C07.lean", "ShuttleProofs/C07Join.lean", "ShuttleModel/Storage.lean"], both,
                           "storage theorems (init once, FIFO destruction, tombstones, termination with late inits), the model's TLS code refines the storage model, thread_fn order, "
                           "join only when finished (join_returns_only_when_finished_loop / joinWait_segment: the wait loop returns only through a set_waiter that saw the target Finished, whatever else unblocks the joiner), unique ids, closure runs once; scope returns when the scoped closures have returned (their TLS destructors may still run: as in the code); "
                           "join values and thread names are not modelled",
                           profiles=["scope", "tls", "kernel", "stdmix", "chan"], per_quick=100, lemma_prefixes=("Storage", "Thread", "Tls"))


def replay(path):
    return replay_program(path, lambda res: [(w, None, s) for n in res["names"] for (w, s) in both(res["progs"][n], res["impl"].get(n, []))])
