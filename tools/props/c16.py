"""C16 — schedule strings round-trip exactly and malformed strings are rejected.
Proof: ShuttleProofs/C16.lean (all Schedule values / all strings).  Tie: the real
serialize_schedule/deserialize_schedule vs ShuttleModel.Serialize on generated + corpus inputs,
line by line.  Oracle: the property text evaluated on the implementation's own outputs."""
import json, os, subprocess, sys
from vlib import *

WS = [" ", "\n", "\t", "\r", "\x0b", "\x0c", "\u0085", " ", " ", " ", " ", " ",
      " ", " ", " ", " ", "　"]


def enc(s):
    out = []
    for b in s.encode("utf-8"):
        c = chr(b)
        out.append(c if c.isalnum() and b < 128 else "%%%02X" % b)
    return "".join(out)


def steps_str(steps):
    return ",".join("r" if x is None else "t%d" % x for x in steps) if steps else "-"


def gen_schedules(rng, tier):
    out = []
    seeds = [0, 1, 127, 128, 2**14 - 1, 2**14, 2**21, 2**28 - 1, 2**35, 2**42, 2**49 - 1, 2**56, 2**63 - 1,
             2**63, 2**64 - 1, 0x12345678]
    for sd in seeds:
        out.append((sd, []))
        out.append((sd, [0, None, 1]))
    for k in range(0, 65):
        for v in (2**k - 1, 2**k):
            if 0 <= v < 2**64:
                out.append((rng.choice(seeds), [v, None, 0, v, None][: 1 + rng.below(5)]))
    # lengths around the 76-column wrap and byte boundaries
    for n in list(range(0, 90)) + [150, 151, 152, 153, 300, 301, 607, 608, 609]:
        w = rng.choice([1, 2, 3, 4, 7, 8, 9])
        steps = [None if rng.chance(1, 4) else rng.below(2**w) for _ in range(n)]
        out.append((rng.choice(seeds), steps))
    big = [2000, 20000] if tier == "quick" else [2000, 20000, 100000, 250000]
    for n in big:
        steps = [None if rng.chance(1, 5) else rng.below(6) for _ in range(n)]
        out.append((rng.next(), steps))
    for _ in range(200 if tier == "quick" else 4000):
        n = rng.below(40)
        w = 1 + rng.below(64)
        steps = [None if rng.chance(1, 3) else rng.below(2**w) for _ in range(n)]
        out.append((rng.next() >> rng.below(64), steps))
    return out


def hostile(rng):
    """headers that used to crash the decoder; each is run in its own process"""
    def varint(v):
        b = []
        while True:
            c = v & 0x7F
            v >>= 7
            if v == 0:
                b.append(c); break
            b.append(c | 0x80)
        return "".join("%02x" % x for x in b)
    out = ["", " ", "\n\t", "91", "9101", "910100", "91010100", "9101010001", "92010000", "00", "ff",
           "91" + varint(0) + varint(0) + varint(5), "91" + varint(0) + varint(1) + varint(5) + "00",
           "91" + varint(65) + varint(1) + varint(5) + "01", "91" + varint(65) + varint(1) + varint(5) + "00" * 12,
           "91" + varint(64) + varint(1) + varint(5) + "00" * 9, "91" + varint(255) + varint(2) + varint(0) + "00" * 40,
           "91" + varint(2**40) + varint(1) + varint(0) + "00",
           "91" + "8000" + "01" + "0a" + "01ff", "91" + "01" + "818080808080808000" + "00",
           "9101" + "ffffffffffffffffff01" + "00", "9101" + "ffffffffffffffffff02" + "00",
           "9101" + "80808080808080808001" + "00" + "00", "9101" + "8080808080808080" + "00",
           "g1", "9g", "910", "91010", "9101000", "91 01 00 00", "9​1010000", "９１010000"]
    for ln in (2**20, 2**31, 2**40, 2**62, 2**63, 2**64 - 1):
        out.append("9101" + varint(ln) + "00" + "00")
        out.append("9101" + varint(ln) + "00")
    return out


def build_de_cases(rng, sched, ser_out, tier):
    """second phase: decode cases derived from what the implementation serialized"""
    cases = []   # (arg_string, kind, index of schedule or None)
    for i, (s, line) in enumerate(zip(sched, ser_out)):
        if not line.startswith("ok "):
            continue
        txt = line[3:].replace("|", "\n")
        cases.append((txt, "exact", i))
        flat = txt.replace("\n", "")
        cases.append((flat, "flat", i))
        cases.append((flat.upper(), "upper", i))
        # whitespace anywhere
        for _ in range(2):
            t = list(flat)
            for _ in range(1 + rng.below(6)):
                t.insert(rng.below(len(t) + 1), rng.choice(WS))
            cases.append(("".join(t), "ws", i))
        if len(flat) <= 160 or rng.chance(1, 6):
            cuts = range(len(flat)) if len(flat) <= 160 else [rng.below(len(flat)) for _ in range(40)]
            for k in cuts:
                cases.append((flat[:k], "prefix", i))
        if len(flat) >= 2:
            for _ in range(3):
                k = rng.below(len(flat))
                bad = rng.choice(["g", "z", "-", "​", "x", ":"])
                cases.append((flat[:k] + bad + flat[k + 1:], "nonhex", i))
                hexd = rng.choice("0123456789abcdef")
                cases.append((flat[:k] + hexd + flat[k + 1:], "flip", i))
            cases.append(("92" + flat[2:], "badmagic", i))
            cases.append(("00" + flat[2:], "badmagic", i))
    for _ in range(300 if tier == "quick" else 5000):
        n = rng.below(24)
        cases.append(("".join(rng.choice("0123456789abcdefABCDEF") for _ in range(n)), "randhex", None))
        cases.append(("91" + "".join(rng.choice("0123456789abcdef") for _ in range(2 * rng.below(14))), "rand91", None))
    return cases


def expect_some(s):
    return "some %d %s" % (s[0], steps_str(s[1]))


def oracle(c, sched, ser_out, cases, de_out, hostile_in, hostile_out):
    """the property text on the implementation's outputs; returns list of (what, input-lines, signature)"""
    bad = []
    for s, line in zip(sched, ser_out):
        inp = "ser %d %s" % (s[0], steps_str(s[1]))
        if not line.startswith("ok "):
            bad.append(("serialize did not return a string: " + line[:80], [inp], "ser-fail")); continue
        if any(len(x) > 76 for x in line[3:].split("|")):
            bad.append(("serialized line longer than 76 columns", [inp], "wrap"))
    for (arg, kind, i), got in zip(cases, de_out):
        inp = "de " + enc(arg)
        if got.startswith("panic") or got.startswith("abort"):
            bad.append((f"decoder crashed instead of returning ({kind}): {got[:100]}", [inp], "de-crash:" + kind)); continue
        if i is not None:
            want = expect_some(sched[i])
            if kind in ("exact", "flat", "upper", "ws"):
                if got != want:
                    bad.append((f"round trip ({kind}) gave {got[:80]} instead of the schedule", [inp], "roundtrip:" + kind))
            elif kind == "prefix":
                if got != "none" and got != want:
                    bad.append(("a cut-short string decoded to a different schedule: " + got[:80], [inp], "prefix-accepted"))
                if len(arg.replace("\n", "")) % 2 == 1 and got != "none":
                    bad.append(("odd-length string accepted", [inp], "odd-accepted"))
            elif kind in ("nonhex", "badmagic"):
                if got != "none":
                    bad.append((f"malformed string ({kind}) accepted: {got[:80]}", [inp], kind + "-accepted"))
        else:
            if len(arg) % 2 == 1 and got != "none":
                bad.append(("odd-length string accepted", [inp], "odd-accepted"))
    for arg, got in zip(hostile_in, hostile_out):
        inp = "de " + enc(arg)
        if got.startswith("panic") or got.startswith("abort"):
            bad.append((f"decoder crashed on malformed input: {got[:100]}", [inp], "de-crash:hostile"))
        flat = "".join(ch for ch in arg if not ch.isspace())
        if (flat == "" or not flat.lower().startswith("91") or len(flat) % 2 == 1) and got != "none":
            bad.append((f"empty / wrong-version / odd string accepted: {got[:80]}", [inp], "malformed-accepted"))
    return bad


def run_single(binary, line, name):
    rc, out, err, _ = run_lines(binary, "codec", [line], name)
    if rc != 0 or not out or out == [""]:
        return f"abort rc={rc}"
    return out[0]


def run(tier, seed):
    c = Check("C16", tier, seed)
    rng = Rng(seed)
    c.assumptions = ["Lean 4.33.0 kernel; axioms reported per theorem by #print axioms (at most propext, Classical.choice, Quot.sound)",
                     "hex and bitvec crates behave as specified (re-stated in ShuttleModel/Bits.lean, compared through the serializer's output on every run)",
                     "the correspondence harness (vh codec), the generators and this script are unverified"]
    ok_build = c.extract_consts() and c.lake_build(["shuttle_model", "ShuttleProofs.C16", "ShuttleProofs.Gen.C16"])
    ok_audit = ok_build and c.audit("ShuttleProofs.C16Audit")
    if ok_build and tier == "thorough":
        for mod in ("ShuttleProofs.C16", "ShuttleProofs.Gen.C16"):
            rc_l, out_l, err_l, _ = sh(["lake", "env", "leanchecker", mod], cwd=LEAN, timeout=3000)
            c.cov.setdefault("leanchecker", {})[mod] = "ok" if rc_l == 0 else f"rc={rc_l} {(out_l + err_l)[-200:]}"
            if rc_l != 0:
                ok_audit = False
                c.audit_error = f"leanchecker rejects {mod}"
    hits = c.forbidden_scan(["ShuttleModel/Serialize.lean", "ShuttleModel/Bits.lean", "ShuttleModel/Varint.lean",
                             "ShuttleProofs/C16.lean", "ShuttleProofs/Gen/C16.lean"] +
                            ["ShuttleProofs/Lemmas/" + f for f in os.listdir(os.path.join(LEAN, "ShuttleProofs/Lemmas")) if f.startswith("Serialize")])
    if hits:
        ok_audit = False
        c.audit_error = "forbidden construct: " + "; ".join(hits[:3])
    if not c.cargo_build(("vh",)):
        c.violation_noinput("harness does not build against /repo: " + getattr(c, "cargo_error", "")[-300:], "cargo build vh")
        return c.finish()

    # ---- corpus first, then generated
    corpus_lines = []
    cdir = os.path.join(VERIF, "corpus", "C16")
    for f in sorted(os.listdir(cdir)):
        corpus_lines += [l.rstrip("\n") for l in open(os.path.join(cdir, f), encoding="utf-8") if l.strip() and not l.startswith("#")]
    sched = gen_schedules(rng, tier)
    ser_in = ["ser %d %s" % (s[0], steps_str(s[1])) for s in sched]
    rc, ser_out, err, dt1 = run_lines(VH, "codec", ser_in, "c16_ser.txt")
    if rc != 0 or len(ser_out) != len(ser_in):
        c.violation("harness died while serializing (rc=%s)" % rc, {"lines": ser_in[:5], "stderr": err[-300:]}, "ser-abort")
        return c.finish()
    cases = build_de_cases(rng, sched, ser_out, tier)
    de_in = ["de " + enc(a) for a, _, _ in cases]
    rc, de_out, err, dt2 = run_lines(VH, "codec", de_in, "c16_de.txt")
    if rc != 0 or len(de_out) != len(de_in):
        # attribute the crash: run line by line
        de_out = [run_single(VH, l, "c16_one.txt") for l in de_in[:3000]]
        cases, de_in = cases[:3000], de_in[:3000]
    corpus_de = [l for l in corpus_lines if l.startswith("de ")]
    hostile_args = hostile(rng) + [None] * len(corpus_de)
    hostile_lines = ["de " + enc(a) for a in hostile(rng)] + corpus_de
    hostile_out = [run_single(VH, l, "c16_h.txt") for l in hostile_lines]

    # ---- model on the same lines
    mrc, m_ser, merr, _ = run_lines(MODEL, "codec", ser_in, "c16_ser.txt")
    mrc2, m_de, merr2, _ = run_lines(MODEL, "codec", de_in, "c16_de.txt")
    mrc3, m_h, merr3, _ = run_lines(MODEL, "codec", hostile_lines, "c16_hm.txt")
    diffs = []
    for inp, a, b in list(zip(ser_in, ser_out, m_ser)) + list(zip(de_in, de_out, m_de)) + list(zip(hostile_lines, hostile_out, m_h)):
        if a != b:
            diffs.append((inp, a, b))
    if mrc or mrc2 or mrc3 or len(m_ser) != len(ser_in) or len(m_de) != len(de_in):
        diffs.append(("<driver>", "model driver failed", (merr + merr2 + merr3)[-200:]))

    # ---- oracle (always on)
    # decode the percent-encoding of corpus lines for the oracle's class tests
    def dec(a):
        import urllib.parse
        return urllib.parse.unquote(a)
    h_args = [a if a is not None else dec(l[3:]) for a, l in zip(hostile_args, hostile_lines)]
    bad = oracle(c, sched, ser_out, cases, de_out, h_args, hostile_out)
    seen = set()
    for what, lines, sig in bad:
        if sig in seen:
            continue
        seen.add(sig)
        c.violation(what, {"kind": "codec", "lines": lines}, "C16:" + sig)
    if not bad:
        if diffs:
            inp, a, b = diffs[0]
            c.violation_noinput(f"model and implementation disagree on {len(diffs)} line(s); first: `{inp[:120]}` impl=`{a[:80]}` model=`{b[:80]}`",
                                "correspondence C16 codec stream")
        if not ok_build:
            c.violation_noinput("lake build failed: " + "; ".join(getattr(c, "lake_errors", []))[:400], "ShuttleProofs.C16 (build)")
        elif not ok_audit:
            c.violation_noinput(getattr(c, "audit_error", "audit failed")[:400], "ShuttleProofs.C16Audit")

    kinds = {}
    for _, k, _ in cases:
        kinds[k] = kinds.get(k, 0) + 1
    n_some = sum(1 for x in de_out if x.startswith("some"))
    c.cov.update({
        "evaluations": len(ser_in) + len(de_in) + len(hostile_lines),
        "distinct_nontrivial": len(set(ser_in)) + len(set(de_in)) + len(set(hostile_lines)),
        "rule": "ser: generated schedules (varint/width/wrap boundaries, random, long); de: exact/flat/upper/whitespace variants, every prefix, corruptions, random hex, hostile headers + corpus; distinct = distinct input lines",
        "traces_validated_against_impl": len(ser_in) + len(de_in) + len(hostile_lines),
        "disagreements": len(diffs),
        "case_kinds": kinds, "decode_results": {"some": n_some, "none": sum(1 for x in de_out if x == "none"),
                                                "panic": sum(1 for x in de_out + hostile_out if x.startswith(("panic", "abort")))},
        "longest_schedule": max(len(s[1]) for s in sched),
        "samples": [{"in": ser_in[3], "impl": ser_out[3], "model": m_ser[3] if len(m_ser) > 3 else None},
                    {"in": de_in[len(de_in) // 2][:160], "impl": de_out[len(de_in) // 2][:160]},
                    {"in": hostile_lines[7], "impl": hostile_out[7], "model": m_h[7] if len(m_h) > 7 else None}],
        "explanation": "22 theorems over all schedules/strings (roundtrip, roundtrip_ws, wrap_width, width_minimal, reject_*, truncated_ok); "
                       "model tied to the code by line-exact comparison of serialize/deserialize outputs",
    })
    return c.finish()


def replay(path):
    r = json.load(open(path))
    if "lines" not in r:
        print("replay names a broken obligation, nothing to execute:", r.get("broken")); return 1
    subprocess.run(["cargo", "build", "--release", "--offline", "--bin", "vh"], cwd=HARNESS, env=ENV, capture_output=True)
    failing = 0
    for l in r["lines"]:
        got = run_single(VH, l, "c16_replay.txt")
        model = run_single(MODEL, l, "c16_replay_m.txt")
        print(f"{l[:100]}\n  impl : {got[:200]}\n  model: {model[:200]}")
        if got.startswith(("panic", "abort")) or got != model:
            failing += 1
    print("REPRODUCED" if failing else "not reproduced")
    return 1 if failing else 0
