"""C01 — a recorded schedule replays to the identical execution.
Proof: ShuttleProofs/C01.lean (replay_faithful for every Program and scheduler, record_exact, the replay
scheduler never rejects a recorded schedule, string round trip via C16).  Tie: trace-mode correspondence under
every scheduler.  Oracle (implementation vs implementation): every recorded execution — passing, panicking,
deadlocking, step-bound — is re-run through the real ReplayScheduler::new_from_encoded(serialized schedule)
with the run's own config and must produce the identical log (decisions, draws, results, clocks, outcome,
re-recorded schedule)."""
from kernelprop import *
import oracles


def replay_stream(results, rng, tier, per_prog=2, only_failing=False):
    """build `run replay:<hex>` programs from recorded executions"""
    lines, meta = [], {}
    for sname, r in results.items():
        for n in r["names"]:
            ex = [e for e in executions(r["impl"].get(n, [])) if e["sched"] and (not only_failing or (e["end"] or "").startswith("E fail"))]
            if not ex:
                continue
            picks = ex if len(ex) <= per_prog else [ex[rng.below(len(ex))] for _ in range(per_prog)]
            for j, e in enumerate(picks):
                nm = f"{n}_rp{j}"
                meta[nm] = (sname, n, e)
                for l in r["progs"][n]:
                    if l.startswith("=== "):
                        lines.append("=== " + nm)
                    elif l.startswith("run "):
                        lines.append("run replay:" + e["sched"])
                    else:
                        lines.append(l)
    return lines, meta


def extra(c, rng, tier, results):
    # harvest recorded schedules from the streams run_kernel_prop has just executed
    base = {k: v for k, v in results.items()}
    lines, meta = replay_stream(base, rng, tier)
    rp = run_stream("c01_replay", lines, "trace")
    bad = []
    for nm in rp["names"]:
        sname, n, e = meta[nm]
        ex = executions(rp["impl"].get(nm, []))
        prog = rp["progs"][nm]
        if len(ex) != 1:
            bad.append((f"replay performed {len(ex)} executions instead of one", {"kind": "program", "program": prog}, "C01:replay-count"))
            continue
        g = ex[0]
        # the replay must make the same decisions, serve the same draws, return the same results, end the same way
        if g["lines"] != e["lines"]:
            i = 0
            while i < min(len(g["lines"]), len(e["lines"])) and g["lines"][i] == e["lines"][i]:
                i += 1
            a = e["lines"][i] if i < len(e["lines"]) else "<end>"
            b = g["lines"][i] if i < len(g["lines"]) else "<end>"
            bad.append((f"replay diverges from the recorded execution at event {i}: recorded `{a}` replayed `{b}`",
                        {"kind": "program", "program": prog, "original": base[sname]["progs"][n]}, "C01:replay-diverges"))
        elif g["end"] != e["end"]:
            bad.append((f"replay ends differently: recorded `{e['end']}` replayed `{g['end']}`",
                        {"kind": "program", "program": prog, "original": base[sname]["progs"][n]}, "C01:replay-outcome"))
        elif g["sched"] != e["sched"]:
            bad.append(("replay re-records a different schedule", {"kind": "program", "program": prog}, "C01:replay-schedule"))
        elif g["seed"] != e["seed"]:
            bad.append(("replay uses a different data seed", {"kind": "program", "program": prog}, "C01:replay-seed"))
    return {"replay": rp}, bad


def run(tier, seed):
    return run_kernel_prop("C01", tier, seed, ["ShuttleProofs.C01"], "ShuttleProofs.C01Audit", None,
                           ["ShuttleProofs/C01.lean", "ShuttleModel/Sched/Replay.lean"] + lemma_files(["Replay"]), None,
                           "replay_faithful (all programs, schedulers, fuel), replay_exhausts_schedule, builtin_data_faithful, replay_from_string, record_exact; "
                           "tie: trace mode under random/pct/rr/dfs; impl-vs-impl replay of recorded executions of every outcome kind",
                           extra=extra)


def replay(path):
    return replay_program(path, None)
