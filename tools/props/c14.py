"""C14 — executions are isolated: nothing leaks from one iteration to the next.
Proof: ShuttleProofs/C14.lean (fresh_world, runner_iteration_eq_standalone / runner_suffix_eq_fresh_run: in the model of
Runner::run an execution receives nothing from its predecessors except the scheduler state; pool_only_reusable over a
transcription of the continuation life-cycle; once_and_lazy_per_execution).  These make isolation true in the model by
construction; the content for the code is the tie: for multi-iteration runs under every scheduler — with ContinueAfter
bounds that abandon executions in the middle of critical sections and of panics, with thread-locals, lazy statics and
Once objects — iteration k's log must equal the model's (which starts every execution from a fresh world) AND the
stand-alone replay of iteration k's recorded schedule in a fresh Runner on a fresh OS thread."""
from kernelprop import *
from props import c01

STATIC_PROFILE = {"objs": {"atomic": (1, 1), "mutex": (1, 2), "once": (1, 1), "lazy": (0, 1), "tls": (1, 2)},
                  "weights": {"atomic": 3, "yield": 1, "lock": 4, "once": 3, "tls": 3, "lazy": 2, "panic": 1},
                  "min_tasks": 1, "extra_tasks": 2, "min_ops": 2, "extra_ops": 4}


def extra(c, rng, tier, results):
    per = 60 if tier == "quick" else 900
    res = {}
    lines = corpus_programs("C14")
    for prof, tag in ((STATIC_PROFILE, "st"), ("locks", "lk"), ("stdmix", "mx"), ("tls", "tl"), ("async_dl", "ad"), ("async_abort", "ab"), ("chan", "ch")):
        for l in gen.batch(rng.next(), prof, per, f"c14{tag}_", ("random", "pct", "dfs")):
            if l.startswith("config ") and rng.chance(2, 3):
                l = l.replace("steps=none", "steps=cont:%d" % (3 + rng.below(12)))
            elif l.startswith("run random:"):
                l = "run random:%s:%d" % (l.split(":")[1], 4 + rng.below(3))
            lines.append(l)
    multi = run_stream("c14_multi", lines, "trace")
    res["multi_iteration"] = multi
    # stand-alone replay of EVERY iteration (up to 6 per program)
    rl, meta = c01.replay_stream({"multi_iteration": multi}, rng, tier, per_prog=6)
    rp = run_stream("c14_replay", rl, "trace")
    res["standalone_replay"] = rp
    bad = []
    for nm in rp["names"]:
        sname, n, e = meta[nm]
        ex = executions(rp["impl"].get(nm, []))
        if len(ex) != 1:
            continue
        g = ex[0]
        if g["lines"] != e["lines"] or g["end"] != e["end"]:
            # cause: a predecessor left a task suspended in the middle of a panic (known finding F19)?
            all_ex = executions(multi["impl"].get(n, []))
            k = all_ex.index(e) if e in all_ex else len(all_ex)
            leak = any(any(l == "P panic" for l in p["lines"]) and not (p["end"] or "").startswith("E fail") for p in all_ex[:k])
            i = 0
            while i < min(len(g["lines"]), len(e["lines"])) and g["lines"][i] == e["lines"][i]:
                i += 1
            what = (f"iteration {e['idx']} of a run behaves differently from the stand-alone replay of its own schedule (first difference at event {i}: "
                    f"in the run `{e['lines'][i] if i < len(e['lines']) else e['end']}`, alone `{g['lines'][i] if i < len(g['lines']) else g['end']}`)")
            if leak:
                what += " — an earlier execution of the run was abandoned while a task was suspended in the middle of a panic: the OS thread's panic count was never reset"
            bad.append((what, {"kind": "program", "program": multi["progs"][n], "replay_program": rp["progs"][nm]},
                        "C14:panic-count-leak" if leak else "C14:iteration-differs-from-standalone"))
    # the model starts every execution in a fresh world, so the executions that follow an abandoned panic (F19, reported
    # above with its own signature) necessarily differ from it; the correspondence verdict is about all the others
    leaky = set()
    for n in multi["names"]:
        all_ex = executions(multi["impl"].get(n, []))
        if any(any(l == "P panic" for l in p["lines"]) and not (p["end"] or "").startswith("E fail") for p in all_ex[:-1]):
            leaky.add(n)
    # the harness's own probe of the initial world (`L live=<n> label=<b>` at the start of an execution): a value owned by
    # a task of an earlier execution is still alive (e.g. the closure of a task that never got to run was forgotten instead of
    # dropped), or a label written while an earlier execution was torn down is still attached to the main task
    for n in multi["names"]:
        if n in leaky:
            continue
        for ex in executions(multi["impl"].get(n, [])):
            probe = [l for l in ex["lines"] if l.startswith("L ")]
            if probe and ex["idx"] != "0":
                bad.append((f"execution {ex['idx']} does not start in the initial world: `{probe[0]}` (live = values owned by tasks of an earlier "
                            f"execution that were never destroyed; label = a label written during the teardown of an earlier execution)",
                            {"kind": "program", "program": multi["progs"][n]}, "C14:initial-world"))
                break
    multi["diffs"] = [d for d in multi["diffs"] if d[0] not in leaky]
    rp["diffs"] = [d for d in rp["diffs"] if meta.get(d[0], (None, None))[1] not in leaky]
    return res, bad


def run(tier, seed):
    return run_kernel_prop("C14", tier, seed, ["ShuttleProofs.C14"], "ShuttleProofs.C14Audit", None,
                           ["ShuttleProofs/C14.lean", "ShuttleModel/Continuation.lean", "ShuttleModel/Runner.lean"], None,
                           "fresh_world, runner_iteration_eq_standalone, runner_suffix_eq_fresh_run, every_execution_starts_fresh, pool_only_reusable, once_and_lazy_per_execution; "
                           "process-global state outside the model (std panic count, LABELS/TAGS thread-locals, real stack pool) is covered by the impl-vs-impl tie only; "
                           "F19 (panic count leaks out of an execution abandoned mid-unwind) is a known finding; F17 repaired in /repo",
                           extra=extra, profiles=["tls", "once"], per_quick=40, lemma_prefixes=("Continuation", "RunnerIso", "Storage"))


def replay(path):
    return replay_program(path, None)
