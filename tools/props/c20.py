"""C20 — parking_lot / dashmap / collections / rand / lazy_static replacements keep their contracts.
Proof: ShuttleProofs/C20Pl.lean (parking_lot RawRwLock/RawMutex over fair semaphores: permit accounting ⇒
exclusion, one upgradable holder, try_* leave nothing behind; upgrade atomicity and non-blocking downgrades
are FALSE for the code — F8, F9 — witnesses + partial forms) and ShuttleProofs/C20Coll.lean (deterministic
collections refine std maps, DashMap linearizable under its single lock, iteration order a function of hasher
keys and history).  Tie: step-exact differential on pl / pl_upgrade / wrand streams; `vh_c20coll` compares
`hasher().hash_one` of every constructor with the SipHash-1-3 model (fixed keys), iteration order across two
processes, and replays DashMap logs on a plain map.  Oracles: holder-set/value monitors (tools/oracle_c20pl.py),
rand draws = R lines = random schedule steps, lazy statics initialised once per execution."""
import os, subprocess, sys
from kernelprop import *
import oracle_c20pl


def extra(c, rng, tier, results):
    bad = []
    # ---- collections / dashmap slice (own binary + checker)
    c.cargo_build(("vh_c20coll",))
    args = [sys.executable, os.path.join(VERIF, "tools", "c20coll_check.py"), "--no-build", "--seed", str(rng.below(10**6))]
    if tier == "quick":
        args += ["--histories", "80", "--dash", "40"]
    rc, out, err, dt = sh(args, timeout=3000)
    cands = [l for l in out.splitlines() if l.startswith("VIOLATION-CANDIDATE")]
    c.cov["collections_checker"] = {"rc": rc, "seconds": round(dt, 1), "summary": [l for l in out.splitlines() if "OK" in l or "ok" in l][:8]}
    seen = set()
    for l in cands:
        cls = "F15" if "deserialize" in l else ("F16" if any(k in l for k in ("bitor", "bitand", "bitxor", ".sub", "set.sub")) else "collections")
        sig = "C20:" + cls
        if sig in seen:
            continue
        seen.add(sig)
        bad.append((l[20:300], {"kind": "c20coll", "line": l, "rerun": "python3 tools/c20coll_check.py -v"}, sig))
    if rc != 0 and not cands:
        bad.append(("collections checker failed: " + (out + err)[-300:], {"kind": "c20coll", "line": ""}, "C20:collections-checker"))
    # ---- rand wrapper / lazy statics under Shuttle's control
    rc2, out2, err2, dt2 = sh([sys.executable, os.path.join(VERIF, "tools", "c20pl_check.py"), "60" if tier == "quick" else "600", str(rng.below(10**6))], timeout=3000)
    c.cov["pl_wrand_checker"] = {"rc": rc2, "tail": out2.splitlines()[-6:]}
    if rc2 != 0:
        bad.append(("parking_lot / rand / lazy_static checker failed: " + out2[-400:], {"kind": "c20pl", "rerun": "python3 tools/c20pl_check.py"}, "C20:pl-checker"))
    return {}, bad


def run(tier, seed):
    return run_kernel_prop("C20", tier, seed, ["ShuttleProofs.C20Pl", "ShuttleProofs.C20Coll"], "ShuttleProofs.C20PlAudit", None,
                           ["ShuttleProofs/C20Pl.lean", "ShuttleProofs/C20Coll.lean", "ShuttleModel/Wrap/PlLocks.lean", "ShuttleModel/Wrap/SipHash.lean",
                            "ShuttleModel/Wrap/DetMap.lean", "ShuttleModel/Wrap/DashMap.lean"],
                           oracle_c20pl.o_pl,
                           "pl_permit_accounting, pl_exclusion, pl_one_upgradable, pl_try_leaves_nothing, pl_upgrade_atomic_partial + pl_upgrade_overtaken_witness (F8), "
                           "pl_downgrades_do_not_wait_partial + pl_down_up_deadlock_witness (F9); detmap_refines_std, dash_linearizable, iteration_order_function_of_history_partial "
                           "(hashbrown having no other entropy source is an assumption checked across processes); F15/F16 repaired in /repo",
                           extra=extra, profiles=["pl", "pl_upgrade", "wrand"], per_quick=100, lemma_prefixes=("Pl", "C20"))


def replay(path):
    return replay_program(path, lambda res: [(w, None, s) for n in res["names"] for (w, s) in oracle_c20pl.o_pl(res["progs"][n], res["impl"].get(n, []))])
