"""C03 — deadlock and termination verdicts are exact.
Proof: ShuttleProofs/C03.lean (deadlock_iff, deadlockList_exact, verdict soundness/completeness for all
programs).  Tie: trace-mode correspondence incl. the outcome line with the task list.  Oracle: the
reported task list = the tasks that never finished; a normal end ⇒ every task finished."""
from kernelprop import *
import oracles


def deadlock_streams(c, rng, tier, results):
    """more programs where the verdict is delicate: deadlocks with detached / pending futures around, join handles
    polled by one task and awaited by another, park tokens (a missed or a false deadlock shows as a model difference)"""
    per = 300 if tier == "quick" else 4000
    res = {}
    for prof in ("async_dl", "async_abort", "park", "chan_dl", "condvar_dl"):
        lines = gen.batch(rng.next(), prof, per, f"c03x_{prof}_", ("random", "pct", "rr", "dfs"))
        res["verdict_" + prof] = run_stream("c03x_" + prof, lines, "trace")
    return res, apply_oracle(res, oracles.o_verdict)


def run(tier, seed):
    return run_kernel_prop("C03", tier, seed, ["ShuttleProofs.C03"], "ShuttleProofs.KernelAudit", ["ShuttleProofs.C03."],
                           ["ShuttleProofs/C03.lean"], oracles.o_verdict,
                           "deadlock_iff (iteration form), deadlock_verdict_sound/complete, deadlockList_exact, ok ⇒ all attached tasks finished, spurious-wakeable tasks offered but not counted — all programs, all schedulers",
                           extra=deadlock_streams)


def replay(path):
    return replay_program(path, lambda res: [(w, None, s) for n in res["names"] for (w, s) in oracles.o_verdict(res["progs"][n], res["impl"].get(n, []))])
