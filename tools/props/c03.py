"""C03 — deadlock and termination verdicts are exact.
Proof: ShuttleProofs/C03.lean (deadlock_iff, deadlockList_exact, verdict soundness/completeness for all
programs).  Tie: trace-mode correspondence incl. the outcome line with the task list.  Oracle: the
reported task list = the tasks that never finished; a normal end ⇒ every task finished."""
from kernelprop import *
import oracles


def run(tier, seed):
    return run_kernel_prop("C03", tier, seed, ["ShuttleProofs.C03"], "ShuttleProofs.KernelAudit", ["ShuttleProofs.C03."],
                           ["ShuttleProofs/C03.lean"], oracles.o_verdict,
                           "deadlock_iff (iteration form), deadlock_verdict_sound/complete, deadlockList_exact, ok ⇒ all attached tasks finished, spurious-wakeable tasks offered but not counted — all programs, all schedulers")


def replay(path):
    return replay_program(path, lambda res: [(w, None, s) for n in res["names"] for (w, s) in oracles.o_verdict(res["progs"][n], res["impl"].get(n, []))])
