"""C13 — step, iteration and time bounds are enforced as configured.
Proof: ShuttleProofs/C13.lean (no_decision_beyond_bound, bound_outcomes, terminates_under_bound, the exact
partial form of the total bound + the overshoot witness).  Tie: trace mode over a grid of bounds n ∈ {L-2..L+2}
around each program's own step count L.  Oracle: steps counted from the log; below-bound executions equal
the unbounded ones; Runner::run's return value = number of body invocations = the scheduler's budget."""
from kernelprop import *
import oracles

GRID_PROFILE = {"objs": {"atomic": (1, 2), "mutex": (0, 1)},
                "weights": {"atomic": 4, "yield": 2, "lock": 2, "rand": 3, "reset": 1, "sleep": 1},
                "min_tasks": 1, "extra_tasks": 2, "min_ops": 2, "extra_ops": 4}


def set_cfg(prog, steps, name):
    out = []
    for l in prog:
        if l.startswith("=== "):
            out.append("=== " + name)
        elif l.startswith("config "):
            out.append(" ".join(("steps=" + steps) if t.startswith("steps=") else t for t in l.split()))
        else:
            out.append(l)
    return out


def grid(c, rng, tier, _results=None):
    """bounds around the known step count of each program"""
    count = 40 if tier == "quick" else 600
    base = gen.batch(rng.next(), GRID_PROFILE, count, "c13g_", ("rr", "random"))
    # make the random runs single-iteration so that L is the step count of *the* execution
    base = [("run random:%s:1" % l.split(":")[1]) if l.startswith("run random:") else l for l in base]
    unb = run_stream("c13_unbounded", base, "trace")
    lines = []
    meta = {}
    for n in unb["names"]:
        ex = executions(unb["impl"].get(n, []))
        if len(ex) != 1 or not ex[0]["sched"]:
            continue
        L = len(decode_schedule(ex[0]["sched"])[1])
        has_reset = any(" reset_steps" in l for l in unb["progs"][n])
        for nb in sorted({L + d for d in (-2, -1, 0, 1, 2) if L + d >= 0} | {0}):      # the corner 0 always
            for kind in ("fail", "cont"):
                nm = f"{n}_{kind}{nb}"
                meta[nm] = (n, L, nb, kind, has_reset)
                lines += set_cfg(unb["progs"][n], f"{kind}:{nb}", nm)
    g = run_stream("c13_grid", lines, "trace")
    bad = []
    for nm in g["names"]:
        n, L, nb, kind, has_reset = meta[nm]
        prog = g["progs"][nm]
        for what, sig in oracles.o_bounds(prog, g["impl"].get(nm, [])):
            bad.append((what, {"kind": "program", "program": prog, "stream": "c13_grid"}, sig))
        ex = executions(g["impl"].get(nm, []))
        ux = executions(unb["impl"].get(n, []))[0]
        if not ex:
            continue
        e = ex[0]
        if nb > L and not has_reset:
            # an execution that needs fewer than n steps is unaffected
            if e["lines"] != ux["lines"] or e["end"] != ux["end"] or e["sched"] != ux["sched"]:
                bad.append((f"an execution needing {L} steps behaves differently under a bound of {nb}",
                            {"kind": "program", "program": prog, "stream": "c13_grid"}, "C13:below-bound-affected"))
        if nb < L and not has_reset and not (ux["end"] or "").startswith("E fail"):
            # hmm: the bounded run must stop: with fail → max-steps failure; with cont → silent end, run goes on
            end = e["end"] or ""
            if kind == "fail" and not end.startswith("E fail exceeded max_steps bound"):
                # draws may carry the execution past the bound to its natural end (finding F7) — that is reported by o_bounds
                if not any(l.startswith("R ") for l in e["lines"]):
                    bad.append((f"execution of {L} steps was not failed by FailAfter({nb}): {end}",
                                {"kind": "program", "program": prog, "stream": "c13_grid"}, "C13:not-failed"))
            if kind == "cont" and end != "E end":
                bad.append((f"ContinueAfter({nb}) did not abandon the execution silently: {end}",
                            {"kind": "program", "program": prog, "stream": "c13_grid"}, "C13:not-silent"))
    # ---- time limit: checked between iterations only; with a body that takes `ms` of wall-clock time the run may
    # start at most floor(limit/ms)+1 iterations (a slow machine only lowers the count) and must start at least one
    tl = []
    cases = [(100, 40), (250, 60), (30, 50), (180, 45)]
    for i, (limit, ms) in enumerate(cases):
        tl += [f"=== c13_time_{i}", f"config steps=none clocks=0 time={limit}", "obj a0 atomic 0", "task 0 thread",
               "  spawn 1", f"  spin {ms}", "  aadd a0 1", "  join 1", "end", "task 1 thread", "  aadd a0 1", "end", "run random:5:1000"]
    t = run_stream("c13_time", tl, "none", jobs=4)       # wall-clock dependent: there is nothing for the model to follow
    for i, (limit, ms) in enumerate(cases):
        nm = f"c13_time_{i}"
        ex = executions(t["impl"].get(nm, []))
        cap = limit // ms + 1
        if not ex:
            bad.append(("a run with a time limit did not perform a single iteration", {"kind": "program", "program": t["progs"][nm]}, "C13:time-limit"))
        elif len(ex) > cap:
            bad.append((f"time limit {limit} ms with a body of {ms} ms: {len(ex)} iterations were started, at most {cap} can start before the limit has passed",
                        {"kind": "program", "program": t["progs"][nm]}, "C13:time-limit"))
    return {"unbounded": unb, "bound_grid": g, "time_limit": t}, bad


def run(tier, seed):
    return run_kernel_prop("C13", tier, seed, ["ShuttleProofs.C13"], "ShuttleProofs.KernelAudit", ["ShuttleProofs.C13."],
                           ["ShuttleProofs/C13.lean"], oracles.o_bounds,
                           "no_decision_beyond_bound, fail_after/continue_after outcomes, bound_hit_ends, terminates_under_bound (all programs, schedulers); "
                           "the literal total bound is false for consecutive draws (steps_overshoot_witness, known finding F7), steps_total_bound_partial states what holds; "
                           "time limit: checked only between iterations (read from runner.rs), not exercised",
                           extra=grid)


def replay(path):
    return replay_program(path, lambda res: [(w, None, s) for n in res["names"] for (w, s) in oracles.o_bounds(res["progs"][n], res["impl"].get(n, []))])
