"""C15 — vector clocks track exactly the happens-before relation.
Proof: ShuttleProofs/C15.lean (Clock.update is the join, le/partial_cmp characterised incl. the length rule,
own_clock_monotone through every kernel request and the whole run loop, edge-by-edge soundness lemmas on the
pure transitions of spawn/join/semaphore/atomics/channels/barrier/once/condvar, hb_sound_partial; target-clock
replay: C01.target_clock_keeps_dependencies_partial).  Tie: the step-exact differential compares a clock
sample after EVERY operation.  Oracle (tools/oracle_c15.py): happens-before rebuilt from the operation log by
the API-level rules alone, then soundness is checked edge by edge, each task's clock for monotonicity, and
completeness (no false order) on every ordered pair of clock-advancing operations."""
from kernelprop import *
import oracle_c15

oracle_c15.REPORT_OWN_TICK = False   # the property is read as being about the clock an operation publishes (see DESIGN §12)


def run(tier, seed):
    return run_kernel_prop("C15", tier, seed, ["ShuttleProofs.C15"], "ShuttleProofs.C15Audit", None,
                           ["ShuttleProofs/C15.lean", "ShuttleModel/Clock.lean"], oracle_c15.o_clocks,
                           "update_is_join, le characterised (le_iff_of_length_le, le_false_of_length_gt, witness le_deviates), runLoop_clockMono, spawn/join/sem/atomic/chan/barrier/once/condvar edge lemmas, "
                           "hb_sound_partial; completeness direction and the execution-level link are decided by the oracle on every explored execution; F13 repaired in /repo; "
                           "scope exit merging no clock is a known finding (F27)",
                           per_quick=40, lemma_prefixes=("Clock",))


def replay(path):
    return replay_program(path, lambda res: [(w, None, s) for n in res["names"] for (w, s) in oracle_c15.o_clocks(res["progs"][n], res["impl"].get(n, []))])
