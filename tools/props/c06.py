"""C06 — mpsc channels deliver each message exactly once, in order, within capacity.
Proof: ShuttleProofs/C06.lean (25-clause inductive invariant over every history of the most-general client;
FIFO/exactly-once, capacity, no_stranded_waiter, abstract_refinement to a bounded FIFO, no_panic; three clauses of
the property are FALSE for the code and are proved so by concrete witnesses, with exact `_partial` forms).
Tie: trace mode on channel streams (capacities unb/rdv/1/2, 1–3 senders, drops anywhere, receiver moved to a
child, inside thread::scope).  Oracle: FIFO / exactly-once / capacity / drain-before-disconnect monitors."""
from kernelprop import *
import oracles_prim


def run(tier, seed):
    return run_kernel_prop("C06", tier, seed, ["ShuttleProofs.C06"], "ShuttleProofs.C06Audit", None,
                           ["ShuttleProofs/C06.lean", "ShuttleModel/Prim/Chan.lean"], oracles_prim.o_channels,
                           "received_is_prefix_of_sent, per_sender_order, capacity_invariant (rendezvous: at most one message, only with the receiver waiting), recv_blocks_iff_empty, "
                           "disconnect_send_fails, disconnect_recv_drains_then_fails, no_stranded_waiter, unblocked_waiter_completes, abstract_refinement, no_panic; "
                           "false for the code (witness + partial): try_send/send report Full/block while a slot is reserved for a queued sender (F21), "
                           "try_recv on a rendezvous channel blocks until the hand-off, endpoint drops are skipped while any task is panicking",
                           profiles=["chan_shape", "chan", "chan_dl", "stdmix", "scope"], per_quick=120, lemma_prefixes=("Chan",))


def replay(path):
    return replay_program(path, lambda res: [(w, None, s) for n in res["names"] for (w, s) in oracles_prim.o_channels(res["progs"][n], res["impl"].get(n, []))])
