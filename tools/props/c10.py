"""C10 — random schedulers: seed-deterministic, reproducible per iteration, unbiased.
Proof: ShuttleProofs/C10.lean (iteration_reproducible for all programs/seeds; choose_uniform /
every_offered_positive counting theorems for all n ≤ 2^32).  Tie: prediction mode — the bit-exact
model of Pcg64Mcg + rand 0.8.8 `choose` must reproduce every choice and every data draw of the real
RandomScheduler from the seed alone.  Oracles (implementation vs implementation): same seed twice ⇒
identical runs; iteration i's reported seed, given back with one iteration, reproduces iteration i."""
import json, os
from vlib import *
from propbase import *
import gen

PROFILE = {"objs": {"atomic": (1, 2), "mutex": (0, 2)},
           "weights": {"atomic": 4, "yield": 2, "lock": 3, "rand": 3, "sleep": 1},
           "min_tasks": 1, "extra_tasks": 2, "min_ops": 1, "extra_ops": 4}


def with_run_map(lines, fn, suffix):
    """rewrite each program's run line through fn(name) and rename it"""
    out, name = [], None
    for l in lines:
        if l.startswith("=== "):
            name = l[4:].strip()
            out.append(l + suffix)
        elif l.startswith("run "):
            out.append("run " + fn(name, l[4:].strip()))
        else:
            out.append(l)
    return out


def strip_x(lines):
    return [l for l in lines if not l.startswith("N ")]


def run(tier, seed):
    c = Check("C10", tier, seed)
    c.assumptions = ["Lean kernel; axioms per theorem via #print axioms",
                     "uniformity is proved as a counting statement about rand 0.8.8's sampling algorithm; that Pcg64Mcg's outputs are uniform/independent is an assumption, not a theorem",
                     "rand 0.8.8 / rand_pcg 0.3.1 / rand_core 0.6.4 re-stated bit-exactly in ShuttleModel/Rng.lean and validated on 128k vectors + on every run through the scheduler's choices",
                     "harness/generators/this script unverified"]
    ok_build, ok_audit = build_and_audit(c, ["ShuttleProofs.C10"], "ShuttleProofs.C10Audit",
                                         ["ShuttleModel/Rng.lean", "ShuttleProofs/C10.lean"] + lemma_files(["Rng"]))
    if not c.cargo_build(("vh",)):
        c.violation_noinput("harness does not build: " + getattr(c, "cargo_error", "")[-300:], "cargo build vh")
        return c.finish()
    rc, out, err, _ = sh([MODEL, "selftest"])
    if rc != 0:
        c.violation_noinput("RNG self-test vectors no longer reproduce: " + out[-200:], "ShuttleModel.Rng.Vectors.rngSelfTest")
    rng = Rng(seed)
    count = 150 if tier == "quick" else 3000
    base = corpus_programs("C10") + gen.batch(rng.next(), PROFILE, count, "c10_", ("random",))
    # A: prediction mode (model from the seed alone) — also run A
    a = run_stream("c10a", base, "predict")
    # B: the same programs and seeds again, implementation only
    b = run_stream("c10b", base, "none")
    bad = []
    for n in a["names"]:
        if strip_x(a["impl"].get(n, [])) != strip_x(b["impl"].get(n, [])):
            bad.append(("two runs of the random scheduler with the same seed differ", {"kind": "program", "program": a["progs"][n]}, "C10:same-seed"))
    # C: iteration i's seed given back with one iteration reproduces iteration i
    picks = {}
    for n in a["names"]:
        ex = executions(a["impl"].get(n, []))
        if ex:
            i = rng.below(len(ex))
            picks[n] = (i, ex[i])
    one = with_run_map([l for n in a["names"] if n in picks for l in a["progs"][n]],
                       lambda n, r: f"random:{picks[n][1]['seed']}:1", "_i")
    cres = run_stream("c10c", one, "predict")
    for n in a["names"]:
        if n not in picks:
            continue
        i, e = picks[n]
        ex = executions(cres["impl"].get(n + "_i", []))
        if not ex or ex[0]["lines"] != e["lines"] or ex[0]["end"] != e["end"] or ex[0]["sched"] != e["sched"]:
            bad.append((f"iteration {i} (seed {e['seed']}) is not reproduced by a one-iteration run from that seed",
                        {"kind": "program", "program": cres["progs"][n + "_i"], "original": a["progs"][n], "iteration": i}, "C10:iteration-seed"))
    # position statistics (labelled statistical evidence, not an obligation)
    pos = {}
    for n in a["names"]:
        for l in a["impl"].get(n, []):
            if l.startswith("D "):
                t = l.split()
                off = t[1].split(",")
                if t[-1] in off:
                    key = str(len(off))
                    d = pos.setdefault(key, [0] * len(off))
                    d[off.index(t[-1])] += 1
    c.cov["samples"] = sample_of({"a": a}, 1)
    c.cov["choice_position_histogram_by_offer_length"] = pos
    c.cov["explanation"] = ("iteration_reproducible (all programs, seeds), choose_uniform / every_offered_positive (all n ≤ 2^32) proved; "
                            "prediction mode: every choice and draw of the real RandomScheduler reproduced by the model from the seed; "
                            "impl-vs-impl: same seed twice, per-iteration seed replay. Position histogram is statistical evidence only.")
    b["diffs"] = []
    return report(c, {"random_predict": a, "random_again": b, "iteration_seed_predict": cres}, bad, ok_build, ok_audit,
                  "ShuttleProofs.C10", "ShuttleProofs.C10Audit")


def replay(path):
    return replay_program(path, None)
