"""C11 — PCT: strict priorities, at most depth-1 change points, detection bound met.
Proof: ShuttleProofs/C11.lean (pct_inv, pct_runs_min_priority, pct_priority_changes_only,
pct_demotes_only_current, pct_change_points, pct_at_most_d_minus_1_change_preemptions, pct_k_estimate,
pct_iterations_exact, pct_no_concurrency_panics).  Tie: prediction mode — the model PCT scheduler (with the
bit-exact RNG) must reproduce every decision of the real PctScheduler from (seed, depth) alone.
Oracle from the log alone: a strict priority order consistent with all choices must exist between permitted
change events (task creation, yield, ≤ depth-1 change points that demote only the running task)."""
from kernelprop import *
from propbase import *
import oracles

PCT_PROFILE = {"objs": {"atomic": (1, 2), "mutex": (0, 2)},
               "weights": {"atomic": 5, "yield": 2, "lock": 3, "rand": 1, "sleep": 1},
               "min_tasks": 1, "extra_tasks": 3, "min_ops": 2, "extra_ops": 5}


MANY_TASKS = {"objs": {"atomic": (1, 1), "mutex": (0, 1)},
              "weights": {"atomic": 3, "yield": 4, "lock": 1},
              "min_tasks": 16, "extra_tasks": 6, "min_ops": 1, "extra_ops": 2, "parent0": (9, 10)}


def o_pct(prog, lines):
    P = oracles.parse_program(prog)
    parts = P["run"].split(":")
    if parts[0] != "pct":
        return []
    depth = int(parts[2])
    bad = []
    # Sound (never alarms on a correct PCT) but deliberately weaker than prediction mode: a task `o` that
    # was preferred to `ch` can only fall behind it if, since then, `o` was the running task at a
    # multi-choice decision (change point or yield: both demote only the running task) or a task was
    # created (a new task may take over an existing task's priority and send that task to the bottom).
    for e in executions(lines):
        learned = {}        # (hi, lo) -> index of the decision that last showed hi preferred to lo
        known = set()
        was_cur = {}        # task -> indices of multi-choice decisions at which it was the running task
        created_at = []     # indices of decisions at which a new task id appeared
        idx = 0
        for l in e["lines"]:
            if not l.startswith("D "):
                continue
            idx += 1
            t = l.split()
            off = [int(x) for x in t[1].split(",") if x]
            cur = None if t[2] == "-" else int(t[2])
            ch = None if t[5] == "-" else int(t[5])
            if any(o not in known for o in off):
                created_at.append(idx)
            known.update(off)
            if ch is None or len(off) < 2:
                if ch is not None and len(off) == 1 and ch != off[0]:
                    bad.append(("PCT chose a task that was not offered", "C11:choice"))
                continue
            if cur is not None:
                was_cur.setdefault(cur, []).append(idx)
            for o in off:
                if o != ch and (o, ch) in learned:
                    since = learned[(o, ch)]
                    ran = any(since < i <= idx for i in was_cur.get(o, []))
                    born = any(since < i <= idx for i in created_at)
                    if not ran and not born:
                        bad.append((f"task {ch} ran although task {o} was offered and had been preferred to it, and since then task {o} "
                                    f"was never the running task at a decision and no task was created (depth {depth})", "C11:priority-inversion"))
            for o in off:
                if o != ch:
                    learned.pop((o, ch), None)
                    learned[(ch, o)] = idx
    return bad


def extra(c, rng, tier, results):
    count = 150 if tier == "quick" else 3000
    lines = corpus_programs("C11") + gen.batch(rng.next(), PCT_PROFILE, count, "c11_", ("pct",))
    # priorities must stay strict whatever the number of tasks (the scheduler's inline capacity is 16) and must change only
    # at creations, yields and change points — not at a `park` that returns at once or any other operation
    lines += gen.batch(rng.next(), MANY_TASKS, count // 6, "c11m_", ("pct",))
    for prof in ("park", "park_mix", "kernel", "condvar", "chan"):
        lines += gen.batch(rng.next(), prof, count // 3, f"c11{prof}_", ("pct",))
    pred = run_stream("c11_predict", lines, "predict")
    bad = []
    for n in pred["names"]:
        prog = pred["progs"][n]
        for what, sig in o_pct(prog, pred["impl"].get(n, [])):
            bad.append((what, {"kind": "program", "program": prog, "stream": "c11_predict"}, sig))
        for what, sig in oracles.o_contract(prog, pred["impl"].get(n, [])):
            if sig == "C08:yield-flag":
                # PCT demotes the running task whenever the yielding flag is set: a flag nobody asked for is a priority
                # change that is neither a creation, nor a yield, nor a change point
                bad.append(("PCT was told `is_yielding` (and demotes the running task) at a decision that no yield request preceded: " + what,
                            {"kind": "program", "program": prog, "stream": "c11_predict"}, "C11:demotion-without-cause"))
        for what, sig in oracles.o_bounds(prog, pred["impl"].get(n, [])):
            if sig == "C13:budget":
                bad.append(("PCT did not run exactly the requested number of iterations: " + what,
                            {"kind": "program", "program": prog}, "C11:iterations"))
    # determinism for a given seed: the same programs again, implementation only
    again = run_stream("c11_again", lines, "none")
    for n in pred["names"]:
        if [l for l in pred["impl"].get(n, []) if not l.startswith("N ")] != [l for l in again["impl"].get(n, []) if not l.startswith("N ")]:
            bad.append(("two PCT runs with the same seed differ", {"kind": "program", "program": pred["progs"][n]}, "C11:same-seed"))
    again["diffs"] = []
    return {"pct_predict": pred, "pct_again": again}, bad


def run(tier, seed):
    c = Check("C11", tier, seed)
    c.assumptions = ["Lean kernel; axioms per theorem via #print axioms",
                     "pct_change_points / pct_at_most_d_minus_1_change_preemptions carry the explicit hypothesis SampleLoopsInRange about rand's integer rejection loop (arithmetic core proved, fuel induction not)",
                     "the 1/(n·k^(d-1)) detection bound is the PCT paper's argument from the proved priority/change-point structure; it is NOT formalised and not claimed as a theorem",
                     "rand 0.8.8 re-stated bit-exactly (Rng.lean), validated on vectors and through every PCT decision compared here"]
    ok_build, ok_audit = build_and_audit(c, ["ShuttleProofs.C11", "ShuttleProofs.Gen.C11"], "ShuttleProofs.C11Audit",
                                         ["ShuttleModel/Sched/Pct.lean", "ShuttleModel/Rng.lean", "ShuttleProofs/C11.lean", "ShuttleProofs/Gen/C11.lean"] + lemma_files(["Pct"]))
    if not c.cargo_build(("vh",)):
        c.violation_noinput("harness does not build: " + getattr(c, "cargo_error", "")[-300:], "cargo build vh")
        return c.finish()
    rng = Rng(seed)
    results, bad = extra(c, rng, tier, {})
    c.cov["samples"] = sample_of(results, 1)
    c.cov["explanation"] = ("priority invariant, min-priority choice, change-only-by insertion/demotion, ≤ d-1 change points, k estimate, exact iteration count proved for all states/offers/seeds; "
                            "prediction mode: every decision of the real PctScheduler reproduced by the model from the seed")
    return report(c, results, bad, ok_build, ok_audit, "ShuttleProofs.C11", "ShuttleProofs.C11Audit")


def replay(path):
    return replay_program(path, lambda res: [(w, None, s) for n in res["names"] for (w, s) in o_pct(res["progs"][n], res["impl"].get(n, []))])
