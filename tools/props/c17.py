"""C17 — async executor: no lost wake-up, each task result delivered exactly once.
Proof: ShuttleProofs/C17.lean — kernel level, every Program and scheduler: no_lost_wake (ghost-state invariant at
every reachable loop head and inside segments), wake_then_sleepUnlessWoken, pending_without_wake_not_runnable,
detached_only_remainder_ends_ok; future level, every interleaving of a most-general client of the JoinHandle /
Wrapper transitions: join_result_once, cancelled_iff_abort_before_completion, abort_mid_poll, abort_idempotent,
drop_detaches_not_cancels; poll loops: task_loop_polls_until_ready, block_on_returns_output_after_ready.
Tie: step-exact differential on async streams (hand-written wakers, nested block_on, join/abort/detach at any
point, Acquire futures created in one task and polled in another).  Oracle: tools/oracle_c17.py."""
from kernelprop import *
import oracle_c17


def run(tier, seed):
    return run_kernel_prop("C17", tier, seed, ["ShuttleProofs.C17"], "ShuttleProofs.C17Audit", None,
                           ["ShuttleProofs/C17.lean", "ShuttleModel/Prim/Future.lean"], oracle_c17.o_async,
                           "no_lost_wake, wake semantics, pending futures not runnable, detached remainders end ok, join_result_once, cancelled_iff_abort_before_completion, "
                           "abort idempotent / finished noop / mid-poll, drop detaches, poll-loop shapes — all proved in full",
                           profiles=["async", "async_abort", "async_sem", "async_dl", "tmix"], per_quick=120, lemma_prefixes=("Future",))


def replay(path):
    return replay_program(path, lambda res: [(w, None, s) for n in res["names"] for (w, s) in oracle_c17.o_async(res["progs"][n], res["impl"].get(n, []))])
