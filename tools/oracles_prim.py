"""Model-independent monitors for the std-like primitives (C04, C05, C06, C07, C18): the property
texts evaluated on the implementation's own operation log, in log order.

Why log order is a valid linearisation: every operation logs its `O` line in the same atomic segment
in which it took effect (its scheduling points come *before* the effect), so between the effect and the
log line no other task runs. Executions that end in a failure (panic, deadlock) are only checked up to
the failure, and poisoned locks / closed semaphores are treated as ending the monitor's knowledge."""
import re
from propbase import executions
from oracles import parse_program, op_name


def _ops(P, e):
    """yield (tid, k, pc, name, args, result) for the O lines of one execution, in order; the special
    lines `O tid k end`, `O tid k drop <oi>`, `O tid k dtor <t>` … are yielded with pc=None"""
    for l in e["lines"]:
        if l == "P panic":
            # a panic started (also one raised inside the runtime, e.g. the re-entrancy diagnosis, which logs no
            # `panicking` line of its own): from here on releases take the "panicking" branch
            yield -1, -1, None, "panicking", [], ""
            continue
        if not l.startswith("O "):
            continue
        t = l.split()
        if len(t) >= 5 and t[3].isdigit():
            k, pc = int(t[2]), int(t[3])
            try:
                op = P["bodies"][k][pc]
            except Exception:
                op = ["?"]
            yield int(t[1]), k, pc, op[0], op[1:], " ".join(t[4:])
        else:
            yield int(t[1]), int(t[2]) if t[2].isdigit() else -1, None, t[3] if len(t) > 3 else "?", t[4:], ""


def _objnames(P):
    return list(P["objs"].keys())


def o_locks(prog, lines):
    """C04: mutual exclusion, try_* exactness, failed try leaves the lock unchanged, atomics = std"""
    P = parse_program(prog)
    names = _objnames(P)
    bad = []
    for e in executions(lines):
        failed = (e["end"] or "").startswith("E fail")
        holder = {}        # mutex -> tid
        readers = {}       # rwlock -> set(tid)
        writer = {}        # rwlock -> tid
        dead = set()       # objects whose state we no longer know (poisoned / after a panic)
        atom = {}          # atomic -> current value (python int, unsigned 64)
        for n, k in P["objs"].items():
            pass
        for l in prog:
            t = l.split()
            if len(t) >= 3 and t[0] == "obj" and t[2] == "atomic":
                typ = t[4] if len(t) > 4 else "u64"
                if typ == "u64":
                    atom[t[1]] = int(t[3]) if len(t) > 3 else 0
        last_pc = {}       # tid -> (body, pc) of its last logged op
        # a mutex that a thread-local destructor locks (`tls … lock:m`) is taken and released after the body's `end`
        # line, at points the log does not show: nothing can be said about it
        for l in prog:
            t = l.split()
            if len(t) > 3 and t[0] == "obj" and t[2] == "tls" and t[3].startswith("lock:"):
                dead.add(t[3][5:])

        def may_be_waiting(t, m):
            """task t may currently be inside Condvar::wait on mutex m (which released m): its body has a
            wait/wait_while on m after its last logged operation"""
            if t not in last_pc:
                return False
            kb, p = last_pc[t]
            return any(op[0] in ("wait", "wait_while") and len(op) > 2 and op[2] == m for op in P["bodies"].get(kb, [])[p + 1:])
        for tid, k, pc, name, args, res in _ops(P, e):
            if pc is not None:
                last_pc[tid] = (k, pc)
            if res.startswith("poisoned") or name == "panicking":
                dead.update(names)
            o = args[0] if args else None
            if pc is None:
                if name == "drop" and args:
                    oi = int(args[0])
                    if oi < len(names):
                        o = names[oi]
                        if o in dead:
                            continue
                        kind = P["objs"][o]
                        if kind == "mutex" and holder.get(o) == tid:
                            del holder[o]
                        elif kind == "rwlock":
                            if writer.get(o) == tid:
                                del writer[o]
                            elif tid in readers.get(o, set()):
                                readers[o].discard(tid)
                continue
            if o in dead:
                continue
            if name == "lock" and (res.startswith("v:")):
                if o in holder and not may_be_waiting(holder[o], o):
                    bad.append((f"task {tid} acquired mutex {o} while task {holder[o]} holds it", "C04:mutex-two-holders"))
                holder[o] = tid
            elif name == "trylock":
                if res.startswith("v:"):
                    if o in holder and not may_be_waiting(holder[o], o):
                        bad.append((f"try_lock on {o} succeeded while task {holder[o]} holds it", "C04:mutex-two-holders"))
                    holder[o] = tid
                elif res == "wouldblock" and o not in holder:
                    bad.append((f"try_lock on {o} failed although the mutex was free", "C04:try-fails-when-free"))
            elif name == "unlock" and res == "ok":
                if holder.get(o) != tid:
                    bad.append((f"task {tid} released mutex {o} it does not hold", "C04:release-not-held"))
                holder.pop(o, None)
            elif name in ("read", "tryread"):
                if res.startswith("v:"):
                    if o in writer:
                        bad.append((f"read lock on {o} granted while task {writer[o]} holds it for writing", "C04:reader-with-writer"))
                    readers.setdefault(o, set()).add(tid)
                elif res == "wouldblock":
                    if o not in writer and tid not in readers.get(o, set()):
                        bad.append((f"try_read on {o} failed although no writer holds it", "C04:try-fails-when-free"))
            elif name in ("write", "trywrite"):
                if res.startswith("v:"):
                    if o in writer or readers.get(o):
                        bad.append((f"write lock on {o} granted while held (writer={writer.get(o)}, readers={sorted(readers.get(o, []))})", "C04:writer-not-exclusive"))
                    writer[o] = tid
                elif res == "wouldblock":
                    if o not in writer and not readers.get(o):
                        # the failing try must leave the lock unchanged, and it can only fail when held
                        bad.append((f"try_write on {o} failed although the lock was free (an earlier failed try_* changed its state?)", "C04:failed-try-changed-state"))
            elif name == "unread" and res == "ok":
                readers.get(o, set()).discard(tid)
            elif name == "unwrite" and res == "ok":
                writer.pop(o, None)
            elif name in ("wait", "wait_while") and res.startswith("v:"):
                # condvar wait released and re-acquired the mutex: on return the caller holds it again
                m = args[1] if len(args) > 1 else None
                if m in dead:
                    m = None               # nothing is known about this mutex (poisoned, or locked by a TLS destructor)
                if m and m in holder and holder[m] != tid and not may_be_waiting(holder[m], m):
                    bad.append((f"Condvar::wait returned to task {tid} while task {holder[m]} holds mutex {m}", "C05:wait-without-mutex"))
                if m:
                    holder[m] = tid
            # ---- atomics (u64 objects only): replay on a sequential reference
            elif name.startswith("a") and o in atom and name in ("aload", "astore", "aswap", "aadd", "asub", "aand", "aor", "axor", "anand", "amax", "amin", "acas"):
                M = 2 ** 64
                old = atom[o]
                v = int(args[1]) if len(args) > 1 else 0
                exp = None
                if name == "aload":
                    exp = f"v:{old}"
                elif name == "astore":
                    exp = "ok"; atom[o] = v % M
                elif name == "aswap":
                    exp = f"v:{old}"; atom[o] = v % M
                elif name == "acas":
                    new = int(args[2]) if len(args) > 2 else 0
                    if old == v:
                        exp = f"ok:{old}"; atom[o] = new % M
                    else:
                        exp = f"err:{old}"
                else:
                    f = {"aadd": lambda a, b: (a + b) % M, "asub": lambda a, b: (a - b) % M, "aand": lambda a, b: a & b,
                         "aor": lambda a, b: a | b, "axor": lambda a, b: a ^ b, "anand": lambda a, b: (~(a & b)) % M,
                         "amax": max, "amin": min}[name]
                    exp = f"v:{old}"; atom[o] = f(old, v)
                if res != exp:
                    bad.append((f"atomic {name} on {o} returned {res}; std's atomic at this point of the total order returns {exp}", "C04:atomic-result"))
    return bad


def o_poison(prog, lines):
    """C04: `a lock released by a panicking holder is seen as poisoned`.  A Mutex guard or an RwLock *write* guard that a
    task holds when it starts to panic is released by its unwinding; the guard is exclusive, so any acquisition of that
    lock that another task completes afterwards comes after that release and must report the poison."""
    P = parse_program(prog)
    bad = []
    ACQ = {"lock": "m", "trylock": "m", "write": "w", "trywrite": "w", "read": "r", "tryread": "r"}
    REL = {"unlock": "m", "unwrite": "w", "unread": "r"}
    for e in executions(lines):
        held = {}            # tid -> list of (obj, kind)
        must = {}            # obj -> tid of the panicking holder
        for tid, k, pc, name, args, res in _ops(P, e):
            if pc is None:
                if name == "panicking":
                    for (o, kd) in held.get(tid, []):
                        if kd in ("m", "w"):
                            must.setdefault(o, tid)
                continue
            if not args:
                continue
            o = args[0]
            if name in ACQ and (res.startswith("v:") or res.startswith("poisoned")):
                held.setdefault(tid, []).append((o, ACQ[name]))
                if o in must and must[o] != tid and res.startswith("v:") and P["objs"].get(o) in ("mutex", "rwlock"):
                    bad.append((f"{P['objs'].get(o)} {o} was held ({'write' if P['objs'].get(o) == 'rwlock' else 'locked'}) by task {must[o]} when it panicked, "
                                f"yet `{name} {o}` by task {tid} afterwards reports no poison", "C04:poison-missed"))
            elif name in REL:
                h = held.get(tid, [])
                for i in range(len(h) - 1, -1, -1):
                    if h[i] == (o, REL[name]):
                        del h[i]
                        break
    return bad


def o_channels(prog, lines):
    """C06: exactly-once, FIFO, capacity, Full/Empty exactness, disconnection"""
    P = parse_program(prog)
    bad = []
    caps = {}
    for l in prog:
        t = l.split()
        if len(t) >= 4 and t[0] == "obj" and t[2] == "chan":
            caps[t[1]] = None if t[3] == "unb" else (0 if t[3] == "rdv" else int(t[3].split(":")[1]))
    TX, RX = ("send", "try_send", "drop_tx"), ("recv", "try_recv", "drop_rx")
    plain = {k: not any(o[0] in ("if", "scope_begin", "block_on") or o[0].startswith("f") for o in ops) for k, ops in P["bodies"].items()}
    uses_tx = {k: {o[1] for o in ops if o[0] in TX and len(o) > 1} for k, ops in P["bodies"].items()}
    for e in executions(lines):
        sent = {c: [] for c in caps}
        recvd = {c: [] for c in caps}
        recv_disc, send_disc, rx_dropped = set(), set(), set()
        # bodies that may still hold a Sender (over-approximation: a spawned body that uses one is assumed to get one)
        holders = {c: {0} for c in caps}
        last_pc, body_of, ended = {}, {}, set()
        rx_holder = {c: 0 for c in caps}        # the harness's ownership rule: the Receiver moves to a spawned body that uses it
        # (the deadlock report itself is a panic, raised after the last decision: only earlier panics count)
        last_d = max([i for i, l in enumerate(e["lines"]) if l.startswith("D ")], default=-1)
        panicked = any((l == "P panic" and i < last_d) or l.endswith(" panicking") for i, l in enumerate(e["lines"]))
        for tid, k, pc, name, args, res in _ops(P, e):
            body_of[tid] = k
            if pc is None:
                if name in ("end", "dropped"):
                    ended.add(tid)
                    for c in caps:
                        holders[c].discard(k)
                        if rx_holder[c] == k:
                            rx_dropped.add(c)           # the body that owned the Receiver is over: it has been dropped
                continue
            last_pc[tid] = pc
            if name in ("spawn", "scope_spawn", "fspawn") and args and args[0].isdigit():
                for c in caps:
                    if c in uses_tx.get(int(args[0]), ()):
                        holders[c].add(int(args[0]))
                    kid_ops = P["bodies"].get(int(args[0]), [])
                    rest = P["bodies"].get(k, [])[pc + 1:]
                    if (rx_holder[c] == k and any(o[0] in RX and o[1:2] == [c] for o in kid_ops)
                            and not any(o[0] in RX and o[1:2] == [c] for o in rest)):
                        rx_holder[c] = int(args[0])
            if not args or args[0] not in caps:
                continue
            c = args[0]
            if name in TX and res == "ok" and c in recv_disc:
                bad.append((f"channel {c}: the receiver was told `Disconnected` although a sender was still alive (it completed `{name}` afterwards)", "C06:false-disconnect-recv"))
            if name in RX and res != "norecv" and c in send_disc and not (name == "drop_rx" and res != "ok"):
                bad.append((f"channel {c}: a sender was told `Disconnected` although the receiver was still alive (`{name}` afterwards)", "C06:false-disconnect-send"))
            if name in ("recv", "try_recv") and res == "err:disconnected":
                recv_disc.add(c)
            if name in ("send", "try_send") and res == "err:disconnected":
                send_disc.add(c)
            if name == "drop_rx" and res == "ok":
                rx_dropped.add(c)
            if name == "drop_tx" and res == "ok":
                holders[c].discard(k)
            if name in ("send", "try_send") and res == "ok":
                sent[c].append(int(args[1]))
                cap = caps[c]
                if cap is not None and len(sent[c]) - len(recvd[c]) > max(cap, 1):
                    bad.append((f"channel {c} (capacity {cap}) holds {len(sent[c]) - len(recvd[c])} messages", "C06:capacity"))
            elif name in ("recv", "try_recv") and res.startswith("v:"):
                v = int(res[2:])
                i = len(recvd[c])
                if i >= len(sent[c]):
                    bad.append((f"channel {c}: received {v} which was never sent (or was already received)", "C06:invented"))
                elif sent[c][i] != v:
                    bad.append((f"channel {c}: received {v} but the next message in send order is {sent[c][i]}", "C06:order"))
                recvd[c].append(v)
            elif name == "try_recv" and res == "err:empty":
                pass   # a message may be reserved for / in flight from a blocked sender: not decidable from the log alone
            elif name in ("recv", "try_recv") and res == "err:disconnected":
                if len(recvd[c]) < len(sent[c]):
                    bad.append((f"channel {c}: disconnection reported with {len(sent[c]) - len(recvd[c])} message(s) still undelivered", "C06:disconnect-before-drain"))
        # a deadlock must not contain a task blocked on a channel whose other side is gone
        end = e["end"] or ""
        if end.startswith("E fail deadlock! blocked tasks: [") and not panicked:
            for tid in (int(m) for m in re.findall(r"\(task [^()]*\((\d+)\)", end)):
                k = body_of.get(tid, 0 if tid == 0 else None)
                if k is None or not plain.get(k):
                    continue
                ops = P["bodies"].get(k, [])
                nxt = last_pc.get(tid, -1) + 1
                if nxt >= len(ops) or len(ops[nxt]) < 2 or ops[nxt][1] not in caps:
                    continue
                c = ops[nxt][1]
                if ops[nxt][0] == "send" and c in rx_dropped:
                    bad.append((f"deadlock: task {tid} is still blocked in `send {c}` although the receiver of {c} has been dropped", "C06:stranded-sender"))
                if ops[nxt][0] == "recv" and not (holders[c] - {k}) and k not in holders[c]:
                    bad.append((f"deadlock: task {tid} is still blocked in `recv {c}` although every sender of {c} is gone", "C06:stranded-receiver"))
    return bad


def o_waiters(prog, lines):
    """C05: barrier groups and leaders, Once, condvar wait/notify counting"""
    P = parse_program(prog)
    bad = []
    bounds = {}
    for l in prog:
        t = l.split()
        if len(t) >= 4 and t[0] == "obj" and t[2] == "barrier":
            bounds[t[1]] = int(t[3])
    for e in executions(lines):
        arrivals = {b: [] for b in bounds}          # results in return order
        once_ran = {}
        notif = {}                                  # condvar -> [notify_one count, notify_all count]
        waits = {}
        for tid, k, pc, name, args, res in _ops(P, e):
            if pc is None:
                # `O tid k init <once>`: logged by the initializer itself, in the segment that completes the Once
                if name == "init" and args:
                    once_ran[args[0]] = once_ran.get(args[0], 0) + 1
                    if once_ran[args[0]] > 1:
                        bad.append((f"Once {args[0]}: a second initializer ran", "C05:once-twice"))
                continue
            if not args:
                continue
            o = args[0]
            if name == "bwait" and o in bounds and res in ("leader", "follower"):
                arrivals[o].append(res)
            elif name == "call_once":
                if res == "skipped" and once_ran.get(o, 0) == 0:
                    bad.append((f"Once {o}: call_once returned without any initializer having completed", "C05:once-skipped-early"))
                if res == "ran" and once_ran.get(o, 0) == 0:
                    bad.append((f"Once {o}: call_once claims to have run the initializer, which never ran", "C05:once-skipped-early"))
            elif name == "notify_one":
                notif.setdefault(o, [0, 0])[0] += 1
            elif name == "notify_all":
                notif.setdefault(o, [0, 0])[1] += 1
            elif name == "wait" and res.startswith("v:"):
                # (`wait_while` may return without waiting at all and is not counted)
                waits[o] = waits.get(o, 0) + 1
                n1, na = notif.get(o, [0, 0])
                if n1 == 0 and na == 0:
                    bad.append((f"Condvar {o}: wait returned before any notification was issued", "C05:wait-without-notify"))
                if na == 0 and waits[o] > n1:
                    bad.append((f"Condvar {o}: {waits[o]} waits returned for {n1} notify_one calls and no notify_all", "C05:notify-one-released-many"))
        for b, n in bounds.items():
            res = arrivals[b]
            n1 = max(n, 1)
            full = len(res) // n1
            # returns come in groups of n (a generation returns only when complete); one leader per generation
            leaders = sum(1 for r in res if r == "leader")
            if n <= 1:
                if leaders != len(res):
                    bad.append((f"barrier {b} of size {n}: a wait returned follower", "C05:barrier-leader"))
            else:
                if len(res) % n1 != 0 and not (e["end"] or "").startswith("E fail"):
                    bad.append((f"barrier {b} of size {n}: {len(res)} waits returned, not a multiple of the group size", "C05:barrier-group"))
                if leaders != (len(res) + n1 - 1) // n1 and leaders != full:
                    bad.append((f"barrier {b} of size {n}: {leaders} leaders for {len(res)} returns", "C05:barrier-leader"))
    return bad


def o_sems(prog, lines):
    """C18: permit conservation from the log (avail probes), try_acquire exactness, close; `Acquire` futures (acq_new /
    acq_poll / acq_await / acq_drop, possibly by different tasks) are accounted for when they report completion"""
    P = parse_program(prog)
    bad = []
    sems = {}
    for l in prog:
        t = l.split()
        if len(t) >= 5 and t[0] == "obj" and t[2] == "sem":
            sems[t[1]] = (int(t[3]), t[4] == "fair")
    ACQUIRING = ("acquire", "acq_await", "acq_poll", "acq_new")

    def strip(op):
        op = list(op)
        while op and op[0] == "block_on":
            op = op[1:]
        return op

    for e in executions(lines):
        avail = {s: v[0] for s, v in sems.items()}
        closed = set()
        unknown = set()
        acq = {}                      # handle -> [sem, n, state]   state: new | pending | done
        last_release = {s: -1 for s in sems}
        last_pc, ended = {}, set()
        for i, (tid, k, pc, name, args, res) in enumerate(_ops(P, e)):
            if name == "panicking":
                unknown.update(sems)
            if pc is None:
                if name in ("end", "dropped"):
                    ended.add(k)
                continue
            last_pc[k] = pc
            op = strip([name] + list(args))
            if not op:
                continue
            name, args = op[0], op[1:]
            # ---- Acquire futures
            if name == "acq_new" and len(args) >= 3 and args[1] in sems and res == "ok":
                if args[0] in acq:
                    # the slot was emptied by an `acq_await` that is still in progress: two acquisitions share one
                    # name from here on and the log no longer tells them apart — stop accounting
                    unknown.update(sems)
                acq[args[0]] = [args[1], int(args[2]), "new", i]
                continue
            if name in ("acq_poll", "acq_await") and args and args[0] not in acq and res in ("ready:ok", "ok"):
                unknown.update(sems)
                continue
            if name in ("acq_poll", "acq_await", "acq_drop") and args and args[0] in acq:
                h = args[0]
                s, n, st, since = acq[h]
                if s in unknown:
                    continue
                if name == "acq_poll":
                    if res == "ready:ok":
                        avail[s] -= n
                        acq.pop(h)
                    elif res == "ready:closed":
                        if s not in closed:
                            bad.append((f"semaphore {s}: an acquisition failed with Closed on an open semaphore", "C18:closed-early"))
                        acq.pop(h)
                    elif res == "pending":
                        if st == "new":
                            acq[h] = [s, n, "pending", i]
                elif name == "acq_await":
                    if res == "ok":
                        avail[s] -= n
                        acq.pop(h)
                    elif res == "closed":
                        if s not in closed:
                            bad.append((f"semaphore {s}: an acquisition failed with Closed on an open semaphore", "C18:closed-early"))
                        acq.pop(h)
                elif name == "acq_drop" and res == "ok":
                    acq.pop(h)             # whatever it had been granted goes back: no change of the count
                if avail[s] < 0:
                    bad.append((f"semaphore {s}: more permits acquired than ever existed", "C18:conservation"))
                    avail[s] = 0
                continue
            if not args or args[0] not in sems:
                continue
            s = args[0]
            n = int(args[1]) if len(args) > 1 and args[1].isdigit() else 0
            if s in unknown:
                continue
            if name == "acquire" and res == "ok":
                avail[s] -= n
            elif name == "try_acquire":
                queued = [h for h, (hs, hn, st, since) in acq.items() if hs == s and st == "pending" and since > last_release[s]]
                if res == "ok":
                    avail[s] -= n
                    if sems[s][1] and queued and n > 0 and s not in closed:
                        bad.append((f"semaphore {s} (fair): try_acquire({n}) succeeded although the acquisition in slot {queued[0]} has been queued "
                                    f"since before the last release", "C18:try-overtakes-queue"))
                elif res == "nopermits" and not sems[s][1] and avail[s] >= n and n > 0 and s not in closed:
                    bad.append((f"semaphore {s} (unfair): try_acquire({n}) failed with {avail[s]} permits available", "C18:try-fails-with-permits"))
                elif res == "closed" and s not in closed:
                    bad.append((f"semaphore {s}: try_acquire reported Closed on an open semaphore", "C18:closed-early"))
            elif name == "release" and res == "ok":
                avail[s] += n
                last_release[s] = i
            elif name == "close":
                closed.add(s)
            elif name == "avail" and res.startswith("v:"):
                got = int(res[2:])
                # permits granted to queued waiters that have not resumed yet are already removed from
                # `available`, so the probe may be lower than the log-derived count, never higher
                if got > avail[s]:
                    bad.append((f"semaphore {s}: available_permits() = {got} but only {avail[s]} can exist (initial {sems[s][0]} + released − acquired)", "C18:conservation"))
                # … and it is exact when nobody can be holding a grant: no acquisition outstanding in the table and no
                # other body with an acquiring op still ahead of it (or in the middle of one)
                outstanding = any(hs == s for hs, hn, st, since in acq.values())
                for b, ops in P["bodies"].items():
                    if b == k or b in ended:
                        continue
                    if any(strip(o)[:1] and strip(o)[0] in ACQUIRING for o in ops[last_pc.get(b, -1) + 1:]):
                        outstanding = True
                if not outstanding and got < avail[s]:
                    bad.append((f"semaphore {s}: available_permits() = {got} although {avail[s]} permits exist and nobody holds or awaits any "
                                f"(initial {sems[s][0]} + released − acquired): permits were lost", "C18:permits-lost"))
            if avail[s] < 0:
                bad.append((f"semaphore {s}: more permits acquired than ever existed", "C18:conservation"))
                avail[s] = 0
    return bad


def o_threads(prog, lines):
    """C07: each spawned body runs once, join after the closure's end and its TLS destructors, scope waits"""
    P = parse_program(prog)
    bad = []
    for e in executions(lines):
        ended = {}          # body -> count of `end` lines
        end_tid = {}
        dtor_after_join = []
        joined = {}
        tid_of = {}
        for tid, k, pc, name, args, res in _ops(P, e):
            tid_of[k] = tid
            if pc is None:
                if name == "end":
                    ended[k] = ended.get(k, 0) + 1
                    end_tid[k] = tid
                elif name == "dtor":
                    if k in joined:
                        bad.append((f"thread-local destructor of body {k} ran after join returned", "C07:dtor-after-join"))
                continue
            if name == "join" and res == "ok":
                b = int(args[0])
                joined[b] = True
                if ended.get(b, 0) == 0:
                    bad.append((f"join on body {b} returned before its closure finished", "C07:join-early"))
        for k, c in ended.items():
            if c > 1:
                bad.append((f"body {k} ran to its end {c} times", "C07:ran-twice"))
        tids = list(tid_of.values())
        if len(set(tids)) != len(tids):
            bad.append(("two bodies report the same thread id", "C07:tid-unique"))
    return bad
