"""C17 — model-independent monitors of the async layer, evaluated on the implementation's own log.

`o_async(prog_lines, impl_log_lines) -> [(what, signature)]`, same conventions as tools/oracles.py.

Log lines used (written by the harness, harness/src/fut.rs + interp.rs):
  O <tid> <body> <pc> <result>     an operation of body <body> completed (logged in the same task
                                    segment as the completion: no other task runs in between)
  O <tid> <body> end               the body ran to its end (for a future: just before `Wrapper::finish(Ok)`)
  O <tid> <body> dropped           the async block of body <body> was dropped before it ran to its end
                                    (logged by a guard object inside the block, only while the
                                    execution is still running)
  E …                               outcome of the execution

What is checked, per execution (property text in quotes):
  join-once        "yields the task's output exactly once": at most one join operation on a body gets a
                   result (`ok` | `cancelled`), all others find no handle
  join-ok          an `ok` result only after the body logged `end`
  join-cancelled   "Cancelled if and only if an abort took effect before completion": `cancelled` only
                   after the body was dropped, which happens only after an `fabort` of it completed;
                   a body that logged `end` is never reported cancelled and never dropped
  dropped-silent   "the future is dropped … and performs no further steps": after `dropped` no further
                   `O` line of that body; at most one `dropped` per body ("abort is idempotent":
                   a second abort adds nothing)
  detach-runs      "dropping a JoinHandle detaches the task without cancelling it": a body is never
                   dropped without an abort of it; a future whose handle is never given up in the
                   program text (no fdetach / join op on it) has finished when the execution ends normally
  detached-deadlock a deadlock is not reported when only detached tasks remain
  pend-wake        "a pending future whose waker is never invoked is not treated as able to progress":
                   the k-th completion of `pend w` has at least k completed `wake w` before it
  finished-flag    `fis_finished k` = true only after body k logged `end` or `dropped`
"""
import re
from propbase import executions
from oracles import parse_program

ASYNC_LEAVES = ("fjoin", "fyield", "pend", "acq_await")


def leaf_of(op):
    """the awaited leaf of an op's tokens: ('fjoin', '2') for `fjoin 2`, `fjoin_block 2`,
    `block_on fjoin 2`, `block_on block_on fjoin 2`; None for ops that are not awaits"""
    t = list(op)
    while t and t[0] == "block_on":
        t = t[1:]
    if not t:
        return None
    if t[0] == "fjoin_block":
        return ("fjoin", t[1] if len(t) > 1 else "0")
    if t[0] in ASYNC_LEAVES:
        return (t[0], t[1] if len(t) > 1 else "")
    return None


def o_async(prog, lines):
    P = parse_program(prog)
    bodies = P["bodies"]
    bad = []

    def op_at(body, pc):
        try:
            return bodies[int(body)][int(pc)]
        except Exception:
            return None

    # futures whose handle the program text never gives up
    given_up = set()
    spawned_as_future = set()
    for k, ops in bodies.items():
        for op in ops:
            if op[0] == "fdetach" and len(op) > 1:
                given_up.add(op[1])
            lf = leaf_of(op)
            if lf and lf[0] == "fjoin":
                given_up.add(lf[1])
            if op[0] == "fpoll" and len(op) > 1:
                given_up.add(op[1])                 # a `Ready` poll consumes (drops) the handle
            if op[0] == "fspawn" and len(op) > 1:
                spawned_as_future.add(op[1])

    for e in executions(lines):
        ended, dropped = set(), set()
        aborted = set()                 # bodies with a completed `fabort` (result ok)
        join_results = {}               # body -> list of results
        spawned = set()                 # future bodies actually spawned
        wakes, pends = {}, {}
        flag = {}                       # wslot -> the one-shot flag as the log order determines it
        last_pc_of, tid_body = {}, {}   # body -> pc of its last logged op; task id -> body
        stopped_by_sched = False
        for l in e["lines"]:
            if l.startswith("D "):
                stopped_by_sched = l.split()[-1] == "-"
                continue
            if not l.startswith("O "):
                continue
            t = l.split()
            body = t[2]
            # thread-local destructors (`dtor`/`touch` lines) are run by `Wrapper::finish` after the drop
            if body in dropped and (t[3].isdigit() or t[3] in ("end", "dropped")):
                bad.append((f"body {body} logged `{' '.join(t[3:])}` after its future had been dropped", "C17:dropped-silent"))
            if len(t) == 4:
                if t[3] == "end":
                    ended.add(body)
                elif t[3] == "dropped":
                    if body in ended:
                        bad.append((f"future {body} was dropped (cancelled) after it had run to its end", "C17:join-cancelled"))
                    if body not in aborted:
                        bad.append((f"future {body} was dropped although no abort of it had completed", "C17:detach-runs"))
                    dropped.add(body)
                continue
            if len(t) < 5:
                continue
            op = op_at(body, t[3])
            if op is None:
                continue                 # `dtor`, `init`, … lines
            res = t[4]
            last_pc_of[body] = int(t[3])
            tid_body[t[1]] = body
            if op[0] == "pend_then" and res == "ok" and len(op) > 1:
                flag[op[1]] = False
            if op[0] == "fspawn" and res == "ok":
                spawned.add(op[1])
            elif op[0] == "fabort" and res == "ok":
                aborted.add(op[1])
            elif op[0] == "wake" and res == "ok":
                wakes[op[1]] = wakes.get(op[1], 0) + 1
                flag[op[1]] = True
            elif op[0] == "fis_finished" and res == "true":
                if op[1] not in ended and op[1] not in dropped:
                    bad.append((f"fis_finished {op[1]} returned true before body {op[1]} ended", "C17:finished-flag"))
            lf = leaf_of(op)
            if op[0] == "fpoll" or (op[0] == "block_on" and "fpoll" in op):
                if res.startswith("ready:"):
                    lf, res = ("fjoin", op[op.index("fpoll") + 1]), res[6:]
                else:
                    lf = None
            if lf and lf[0] == "fjoin" and res in ("ok", "cancelled"):
                b = lf[1]
                join_results.setdefault(b, []).append(res)
                if len(join_results[b]) > 1:
                    bad.append((f"the result of future {b} was delivered {len(join_results[b])} times: {join_results[b]}", "C17:join-once"))
                if res == "ok" and b not in ended:
                    bad.append((f"join of future {b} returned ok before the future ran to its end", "C17:join-ok"))
                if res == "cancelled":
                    if b in ended:
                        bad.append((f"join of future {b} returned cancelled although it ran to its end", "C17:join-cancelled"))
                    if b not in dropped:
                        bad.append((f"join of future {b} returned cancelled but the future was not dropped", "C17:join-cancelled"))
                    if b not in aborted:
                        bad.append((f"join of future {b} returned cancelled although no abort of it had completed", "C17:join-cancelled"))
            elif lf and lf[0] == "pend" and res == "ok":
                w = lf[1]
                pends[w] = pends.get(w, 0) + 1
                flag[w] = False
                if pends[w] > wakes.get(w, 0):
                    bad.append((f"`pend {w}` completed {pends[w]} times after only {wakes.get(w, 0)} `wake {w}`", "C17:pend-wake"))
        end = e["end"] or ""
        if end.startswith("E fail deadlock! blocked tasks: ["):
            items = re.findall(r"\(task [^()]*\((\d+)\)((?:, [a-z ]+)*)\)", end)
            # no lost wake-up: a task still suspended at `pend w` / `pend_then w …` although the flag of w was set after its
            # last completed operation and it is the only body that ever waits on w (so the stored waker was its own)
            def waits_on(o):
                o = list(o)
                while o and o[0] == "block_on":
                    o = o[1:]
                # (`pend_then w <op>` may be stuck inside <op> itself — a parked or receiving task — which the log cannot
                # tell from being suspended after `Pending`: only the plain `pend` is judged)
                return o[1] if len(o) > 1 and o[0] == "pend" else ("?" if len(o) > 1 and o[0] == "pend_then" else None)
            users = {}
            for kb, ops in bodies.items():
                for o in ops:
                    o = list(o)
                    while o and o[0] == "block_on":
                        o = o[1:]
                    if len(o) > 1 and o[0] in ("pend", "pend_then"):
                        users.setdefault(o[1], set()).add(str(kb))      # everybody whose waker the slot may hold
            for tid, _flags in items:
                kb = tid_body.get(tid)
                if kb is None or any(o[0] == "if" for o in bodies.get(int(kb), bodies.get(kb, []))):
                    continue
                ops = bodies.get(int(kb), bodies.get(kb, []))
                nxt = last_pc_of.get(kb, -1) + 1
                if nxt < len(ops):
                    w = waits_on(ops[nxt])
                    if w is not None and w != "?" and flag.get(w) and users.get(w) == {str(kb)} and not any(
                            o[0] == "pend_then" and o[1:2] == [w] for o in ops):
                        bad.append((f"deadlock: task {tid} is still suspended at `{' '.join(ops[nxt])}` although `wake {w}` completed after its last "
                                    f"operation and nobody else waits on {w}: the wake-up was lost", "C17:lost-wake"))
            if items and all(", detached" in flags for _, flags in items):
                bad.append(("deadlock reported although only detached tasks remain: " + end[7:80], "C17:detached-deadlock"))
        elif end == "E end" and not stopped_by_sched and P["steps"][0] != "cont":
            for b in sorted(spawned):
                if b in given_up:
                    continue
                if b not in ended and b not in dropped:
                    bad.append((f"execution ended normally although the attached future {b} neither finished nor was cancelled", "C17:detach-runs"))
    return bad
