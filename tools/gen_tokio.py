"""Generator blocks for the tokio-wrapper objects (C19). Used by gen.py (`Gen.simple_op` dispatches the
weight kinds listed in BLOCKS here). Small programs: <= 4 tasks, <= 6 op blocks."""

KINDS = ("tmpsc", "toneshot", "twatch", "tnotify", "tmutex", "trwlock", "tsem")


def obj_args(r, kind, p):
    if kind == "tmpsc":
        return [r.choice(["unb", "cap:1", "cap:1", "cap:2"])]
    if kind == "twatch":
        return [str(r.below(3)), str(r.choice([1, 1, 2]))]
    if kind == "tmutex":
        return [str(r.below(4))]
    if kind == "trwlock":
        # small reader bounds make writers/readers interact through the permit count
        return [str(r.below(4))] + ([] if r.chance(1, 2) else [str(r.choice([1, 2, 3]))])
    if kind == "tsem":
        return [str(r.choice([0, 1, 1, 2, 3]))]
    return []


def _names(objs, kind):
    return [n for n, k, _ in objs if k == kind]


def _filler(g, objs):
    r = g.r
    c = r.below(10)
    if c < 5:
        return ["yield"]
    if c < 7 and _names(objs, "atomic"):
        return g.atomic_op(objs)
    return []


# ---------------------------------------------------------------------------------------------- mpsc
def mpsc_send(g, objs, ntasks, body):
    r = g.r
    c = r.choice(_names(objs, "tmpsc"))
    out = []
    for _ in range(1 + r.below(2)):
        x = r.below(100)
        v = 1 + r.below(9)
        if x < 70:
            out.append(f"tsend {c} {v}")
        elif x < 82:
            out.append(f"ttry_send {c} {v}")
        elif x < 92:
            out.append(f"tblocking_send {c} {v}")
        else:
            out.append(f"t_poll_once tsend {c} {v}")
    if r.chance(1, 8):
        out.append(f"tcapacity {c}")
    if r.chance(1, 4):
        out.insert(len(out) if r.chance(3, 4) else r.below(len(out) + 1), f"tdrop_tx {c}")
    return out


def mpsc_recv(g, objs, ntasks, body):
    r = g.r
    c = r.choice(_names(objs, "tmpsc"))
    out = []
    for _ in range(1 + r.below(3)):
        x = r.below(100)
        if x < 55:
            out.append(f"trecv {c}")
        elif x < 70:
            out.append(f"ttry_recv {c}")
        elif x < 88:
            out.append(f"tblocking_recv {c}")
        else:
            out.append(f"t_poll_once trecv {c}")
        if r.chance(1, 3):
            out.append(f"tcapacity {c}")
    if r.chance(1, 8):
        out.insert(r.below(len(out) + 1), f"tclose {c}")
    if r.chance(1, 10):
        out.insert(r.below(len(out) + 1), f"tdrop_rx {c}")
    if r.chance(1, 8):
        out.append(f"tlen {c}")
    return out


def mpsc_misc(g, objs, ntasks, body):
    r = g.r
    c = r.choice(_names(objs, "tmpsc"))
    return [r.choice([f"tclone_tx {c}", f"tclone_tx {c}", f"tdrop_tx {c}", f"tcapacity {c}", f"tclose {c}",
                      f"tlen {c}", f"tdrop_rx {c}"])]


# -------------------------------------------------------------------------------------------- notify
def notify_wait(g, objs, ntasks, body):
    r = g.r
    n = r.choice(_names(objs, "tnotify"))
    x = r.below(100)
    if x < 35:
        return [f"n_notified {n}"]
    if x < 45:
        return [f"t_poll_once n_notified {n}"]
    if x < 55:
        # two registered waiters, one of them is dropped after a notify_one may have reached it (F14 shape)
        a, b = ("h0", "h1") if r.chance(1, 2) else ("h1", "h0")
        out = [f"n_new {n} {a}", f"n_new {n} {b}", f"n_enable {n} {a}", f"n_enable {n} {b}"]
        if r.chance(1, 3):
            # a third registered waiter; which of them is given up (first, middle, last) varies
            out += [f"n_new {n} h2", f"n_enable {n} h2"]
        if r.chance(1, 2):
            out.append(f"n_notify_one {n}" if r.chance(2, 3) else f"n_notify_waiters {n}")
        out += _filler(g, objs)
        # (the drop of a registered waiter races the other tasks' notify_one / notify_waiters)
        out += [f"n_drop {n} {a}", f"n_await {n} {b}"] if r.chance(2, 3) else [f"n_drop {n} {b}", f"n_await {n} {a}"]
        return out
    h = f"h{r.below(3)}"
    out = [f"n_new {n} {h}"]
    if r.chance(2, 3):
        out.append(f"n_enable {n} {h}")
    out += _filler(g, objs)
    if r.chance(1, 3):
        out.append(f"n_poll {n} {h}")
    y = r.below(10)
    if y < 5:
        out.append(f"n_await {n} {h}")
        if r.chance(1, 2):
            out.append(f"n_drop {n} {h}")
    elif y < 9:
        out.append(f"n_drop {n} {h}")
    return out


def notify_handle(g, objs, ntasks, body):
    """operate on a handle possibly created by another task"""
    r = g.r
    n = r.choice(_names(objs, "tnotify"))
    h = f"h{r.below(3)}"
    return [r.choice([f"n_enable {n} {h}", f"n_poll {n} {h}", f"n_await {n} {h}", f"n_drop {n} {h}", f"n_drop {n} {h}"])]


def notify_signal(g, objs, ntasks, body):
    r = g.r
    n = r.choice(_names(objs, "tnotify"))
    out = []
    for _ in range(1 + (1 if r.chance(1, 4) else 0)):
        out.append(f"n_notify_waiters {n}" if r.chance(1, 3) else f"n_notify_one {n}")
    return out


# --------------------------------------------------------------------------------------------- watch
def watch_tx(g, objs, ntasks, body):
    r = g.r
    w = r.choice(_names(objs, "twatch"))
    x = r.below(100)
    if x < 70:
        out = [f"w_send {w} {1 + r.below(9)}" for _ in range(1 + r.below(2))]
        if r.chance(1, 5):
            out.append(f"w_drop_tx {w}")
        return out
    if x < 80:
        return [f"w_drop_tx {w}"]
    if x < 88:
        return [f"w_is_closed {w}"]
    if x < 94:
        return [f"w_closed {w}"]
    return [f"t_poll_once w_closed {w}"]


def watch_rx(g, objs, ntasks, body):
    r = g.r
    w = r.choice(_names(objs, "twatch"))
    nrx = int([a for n, k, a in objs if n == w][0][1])
    i = r.below(nrx)
    out = []
    for _ in range(1 + r.below(2)):
        x = r.below(100)
        if x < 40:
            out.append(f"w_changed {w} {i}")
            if r.chance(2, 3):
                out.append(f"{'w_borrow_and_update' if r.chance(1, 2) else 'w_borrow'} {w} {i}")
        elif x < 50:
            out.append(f"t_poll_once w_changed {w} {i}")
        elif x < 65:
            out.append(f"w_borrow {w} {i}")
        elif x < 80:
            out.append(f"w_borrow_and_update {w} {i}")
        elif x < 92:
            out.append(f"w_has_changed {w} {i}")
        else:
            out.append(f"w_drop_rx {w} {i}")
    return out


# ------------------------------------------------------------------------------------------- oneshot
def oneshot_any(g, objs, ntasks, body):
    r = g.r
    o = r.choice(_names(objs, "toneshot"))
    x = r.below(100)
    if x < 28:
        return [f"os_send {o} {1 + r.below(9)}"]
    if x < 50:
        return [f"os_recv {o}"]
    if x < 58:
        return [f"t_poll_once os_recv {o}"]
    if x < 68:
        return [f"os_try_recv {o}"]
    if x < 76:
        return [f"os_poll {o}"] + ([f"os_recv {o}"] if r.chance(1, 2) else [])
    if x < 83:
        return [f"os_close {o}"] + ([f"os_try_recv {o}"] if r.chance(1, 2) else [])
    if x < 89:
        return [f"os_drop_tx {o}"]
    if x < 95:
        return [f"os_drop_rx {o}"]
    return [f"os_is_closed {o}"]


# --------------------------------------------------------------------------------------------- locks
def tmutex_block(g, objs, ntasks, body):
    r = g.r
    m = r.choice(_names(objs, "tmutex"))
    inner = _filler(g, objs)
    if r.chance(1, 3):
        inner.append(f"tm_set {m} {r.below(9)}")
    x = r.below(100)
    if x < 60:
        return [f"tm_lock {m}"] + inner + ([] if r.chance(1, 12) else [f"tm_unlock {m}"])
    if x < 80:
        body_ = inner + [f"tm_unlock {m}"]
        return [f"tm_try_lock {m}", f"if wouldblock skip {len(body_)}"] + body_
    if x < 95:
        body_ = inner + [f"tm_unlock {m}"]
        return [f"t_poll_once tm_lock {m}", f"if pending-dropped skip {len(body_)}"] + body_
    return [f"tm_unlock {m}"]


def trwlock_block(g, objs, ntasks, body):
    r = g.r
    l = r.choice(_names(objs, "trwlock"))
    inner = _filler(g, objs)
    x = r.below(100)
    if x < 25:
        return [f"tr_read {l}"] + inner + ([] if r.chance(1, 12) else [f"tr_unread {l}"])
    if x < 50:
        return [f"tr_write {l}"] + inner + [f"tr_set {l} {r.below(9)}", f"tr_unwrite {l}"]
    if x < 60:
        body_ = inner + [f"tr_unread {l}"]
        return [f"tr_try_read {l}", f"if wouldblock skip {len(body_)}"] + body_
    if x < 70:
        body_ = inner + [f"tr_unwrite {l}"]
        return [f"tr_try_write {l}", f"if wouldblock skip {len(body_)}"] + body_
    if x < 78:
        return [f"tr_write {l}", f"tr_downgrade {l}"] + inner + [f"tr_unread {l}"]
    if x < 86:
        body_ = inner + [f"tr_unread {l}"]
        return [f"t_poll_once tr_read {l}", f"if pending-dropped skip {len(body_)}"] + body_
    if x < 94:
        body_ = inner + [f"tr_unwrite {l}"]
        return [f"t_poll_once tr_write {l}", f"if pending-dropped skip {len(body_)}"] + body_
    # two readers held at once by one task
    return [f"tr_read {l}", f"tr_read {l}", f"tr_unread {l}", f"tr_unread {l}"]


def tsem_block(g, objs, ntasks, body):
    r = g.r
    s = r.choice(_names(objs, "tsem"))
    n = r.choice([1, 1, 1, 2, 2, 3])
    inner = _filler(g, objs)
    x = r.below(100)
    if x < 35:
        rel = [] if r.chance(1, 8) else [f"{'ts_forget' if r.chance(1, 6) else 'ts_release'} {s}"]
        return [f"ts_acquire {s} {n}", "if closed skip %d" % (len(inner) + len(rel))] + inner + rel
    if x < 50:
        body_ = inner + [f"ts_release {s}"]
        return [f"ts_try_acquire {s} {n}", f"if nopermits skip {len(body_)}"] + body_
    if x < 62:
        body_ = inner + [f"ts_release {s}"]
        return [f"t_poll_once ts_acquire {s} {n}", f"if pending-dropped skip {len(body_)}"] + body_
    if x < 75:
        return [f"ts_add {s} {n}"]
    if x < 88:
        return [f"ts_avail {s}"]
    if x < 93:
        return [f"ts_close {s}"]
    if x < 96:
        return [f"ts_acquire {s} 0"]          # tokio allows zero permits
    return [f"ts_release {s}"]


BLOCKS = {
    "t_send": ("tmpsc", mpsc_send), "t_recv": ("tmpsc", mpsc_recv), "t_misc": ("tmpsc", mpsc_misc),
    "n_wait": ("tnotify", notify_wait), "n_handle": ("tnotify", notify_handle), "n_signal": ("tnotify", notify_signal),
    "w_tx": ("twatch", watch_tx), "w_rx": ("twatch", watch_rx),
    "os": ("toneshot", oneshot_any),
    "tm": ("tmutex", tmutex_block), "tr": ("trwlock", trwlock_block), "ts": ("tsem", tsem_block),
}


def block(g, kind, objs, ntasks, body):
    need, f = BLOCKS[kind]
    if not _names(objs, need):
        return None
    return f(g, objs, ntasks, body)


PROFILES = {
    "tmpsc": {"objs": {"tmpsc": (1, 1), "atomic": (0, 1)}, "parent0": (9, 10),
              "weights": {"t_send": 6, "t_recv": 5, "t_misc": 2, "yield": 1},
              "min_tasks": 1, "extra_tasks": 2, "min_ops": 1, "extra_ops": 2},
    "tnotify": {"objs": {"tnotify": (1, 1), "atomic": (0, 1)}, "parent0": (9, 10),
                "weights": {"n_wait": 6, "n_signal": 5, "n_handle": 2, "yield": 1},
                "min_tasks": 1, "extra_tasks": 2, "min_ops": 1, "extra_ops": 2},
    "twatch": {"objs": {"twatch": (1, 1)}, "parent0": (9, 10),
               "weights": {"w_tx": 5, "w_rx": 6, "yield": 1},
               "min_tasks": 1, "extra_tasks": 2, "min_ops": 1, "extra_ops": 2},
    "toneshot": {"objs": {"toneshot": (1, 2)}, "parent0": (9, 10),
                 "weights": {"os": 8, "yield": 1},
                 "min_tasks": 1, "extra_tasks": 2, "min_ops": 1, "extra_ops": 3},
    "tlocks": {"objs": {"tmutex": (0, 1), "trwlock": (0, 1), "tsem": (1, 1), "atomic": (0, 1)}, "parent0": (9, 10),
               "weights": {"tm": 4, "tr": 4, "ts": 5, "yield": 1},
               "min_tasks": 1, "extra_tasks": 2, "min_ops": 1, "extra_ops": 2},
    "tmix": {"objs": {"tmpsc": (0, 1), "tnotify": (0, 1), "twatch": (0, 1), "toneshot": (0, 1), "tmutex": (0, 1),
                      "tsem": (0, 1), "trwlock": (0, 1), "atomic": (0, 1)}, "parent0": (9, 10),
             "weights": {"t_send": 3, "t_recv": 3, "t_misc": 1, "n_wait": 3, "n_signal": 3, "n_handle": 1, "w_tx": 2,
                         "w_rx": 2, "os": 2, "tm": 2, "tr": 1, "ts": 2, "yield": 1},
             "min_tasks": 1, "extra_tasks": 2, "min_ops": 1, "extra_ops": 2},
}
