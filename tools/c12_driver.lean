import ShuttleModel.Failure
open ShuttleModel.Failure
/-- scratch driver: args = [fixed]; stdin = one spec per line; stdout = predicted sweep lines -/
partial def loop (fixed : Bool) (h : IO.FS.Stream) : IO Unit := do
  let line ← h.getLine
  if line.isEmpty then return
  let spec := line.trimAscii.toString
  if spec ≠ "" then
    IO.println (if fixed then predictSweepFixed spec else predictSweep spec)
  loop fixed h
def main (args : List String) : IO Unit := do
  loop (args.contains "fixed") (← IO.getStdin)
