"""C20 (wrapper part): differential + oracle driver for the parking_lot / rand / lazy_static wrappers.

  python3 c20pl_check.py [count] [seed]

1. profiles `pl`, `pl_upgrade`, `wrand`: vh vs. model in trace mode (0 programs may differ), the
   `o_pl` oracle on the implementation logs (only the known signatures F8/F9 may appear);
2. rand wrapper under Shuttle's control: every draw made through the wrapper types shows up as an `R`
   line AND as a `random` step of the recorded schedule, and replaying the recorded schedule of every
   execution (`run replay:<hex>`) reproduces the same draws and the same observations (C01), with the
   lazily initialised statics re-initialised in every execution (C14): each execution that touches
   a `wlazy` object logs exactly one `lazyinit` for it.
"""
import os, sys
import gen, corr, oracle_c20pl
from vlib import *
from propbase import executions, decode_schedule
from oracles import parse_program

KNOWN = {"C20:upgrade-overtaken", "C20:downgrade-blocks"}


def diff_and_oracle(profile, count, seed):
    lines = gen.batch(seed, profile, count, profile + "_")
    impl, model, names, st = corr.run_batch(lines, "c20pl_" + profile)
    d = corr.compare(impl, model, names)
    progs = corr.split_programs(lines)
    sigs = {}
    for n in names:
        for what, sig in oracle_c20pl.o_pl(progs[n], impl.get(n, [])):
            sigs.setdefault(sig, set()).add(n)
    s = corr.stats(impl)
    print(f"{profile}: programs={len(names)} executions={s['executions']} decisions={s['decisions']} "
          f"draws={s['draws']} observations={s['observations']} differ={len(d)} crashed={len(st['crashed'])}")
    for sig, ns in sorted(sigs.items()):
        print(f"   oracle {sig}: {len(ns)} programs" + ("" if sig in KNOWN else "   <-- UNEXPECTED"))
    for n, i, a, b in d[:5]:
        print(f"   DIFF {n} @{i}: impl={a!r} model={b!r}")
    unexpected = [s for s in sigs if s not in KNOWN]
    return len(d) == 0 and not st["crashed"] and not unexpected, lines, impl


def replay_check(lines, impl):
    progs = corr.split_programs(lines)
    ok = True
    rep_lines, expect = [], {}
    nexec = nrand = nlazy = 0
    for n, pl in progs.items():
        wl = [l.split()[1] for l in pl if l.split()[:1] == ["obj"] and l.split()[2] == "wlazy"]
        for e in executions(impl.get(n, [])):
            if not e["sched"]:
                continue
            nexec += 1
            draws = [l for l in e["lines"] if l.startswith("R ")]
            dec = decode_schedule(e["sched"])
            if dec is None:
                print(f"   {n}: undecodable schedule {e['sched']}"); ok = False; continue
            rsteps = sum(1 for s in dec[1] if s is None)
            nrand += rsteps
            if rsteps != len(draws):
                print(f"   {n} exec {e['idx']}: {len(draws)} draws served but {rsteps} random steps recorded")
                ok = False
            P = parse_program(pl)
            for z in wl:
                inits = sum(1 for l in e["lines"] if l.startswith("O ") and l.split()[3:] == ["lazyinit", z])
                uses = 0
                for l in e["lines"]:
                    t = l.split()
                    if l.startswith("O ") and len(t) == 5 and t[3].isdigit():
                        ops = P["bodies"].get(int(t[2]), [])
                        if int(t[3]) < len(ops) and ops[int(t[3])][:2] == ["wlazy", z]:
                            uses += 1
                if inits > 1 or (uses > 0 and inits != 1):
                    print(f"   {n} exec {e['idx']}: static {z} used {uses} times but initialised {inits} times "
                          f"in this execution")
                    ok = False
                nlazy += 1 if uses else 0
            name = f"{n}@{e['idx']}"
            rep_lines += [f"=== {name}"] + [l for l in pl[1:] if not l.startswith("run ")] + [f"run replay:{e['sched']}"]
            expect[name] = [l for l in e["lines"] if l[:2] in ("R ", "O ", "D ")] + [e["end"]]
    rimpl, rmodel, rnames, st = corr.run_batch(rep_lines, "c20pl_replay")
    d = corr.compare(rimpl, rmodel, rnames)
    bad = 0
    for name in rnames:
        ex = executions(rimpl.get(name, []))
        got = ([l for l in ex[0]["lines"] if l[:2] in ("R ", "O ", "D ")] + [ex[0]["end"]]) if ex else ["<none>"]
        if got != expect[name]:
            bad += 1
            if bad <= 5:
                print(f"   REPLAY {name}: replayed execution differs from the recorded one")
    print(f"replay: executions={nexec} random-steps={nrand} executions-using-a-wlazy-static={nlazy} replayed={len(rnames)} replay-mismatch={bad} "
          f"model-differ={len(d)} crashed={len(st['crashed'])}")
    return ok and bad == 0 and len(d) == 0 and not st["crashed"]


if __name__ == "__main__":
    count = int(sys.argv[1]) if len(sys.argv) > 1 else 200
    seed = int(sys.argv[2]) if len(sys.argv) > 2 else 1
    allok = True
    for i, prof in enumerate(("pl", "pl_upgrade", "wrand")):
        ok, lines, impl = diff_and_oracle(prof, count, seed + i)
        allok &= ok
        if prof == "wrand":
            allok &= replay_check(lines, impl)
    print("C20pl:", "OK" if allok else "FAILED")
    sys.exit(0 if allok else 1)
