#!/usr/bin/env python3
"""C12 checker (stdlib only).

  c12_check.py IMPL_LINES [MODEL_LINES] [--expect-clean]
  c12_check.py --sweep SEED COUNT --out IMPL_LINES [--specs SPECS_OUT]     (just runs `vh_c12 sweep`)

IMPL_LINES  : output of `vh_c12 sweep <seed> <count>` (lines `spec=<spec> run <i> persist=.. kind=.. raised=..
              emitted=stderr:n,file:n replay=.. len=n`)
MODEL_LINES : the Lean model's prediction for the same specs (`ShuttleModel.Failure.predictSweep spec`,
              one call per spec, in the same order)

1. MODEL-DIFF: impl and model lines must be identical (the model describes the CURRENT code, defects included).
2. ORACLE: the property text evaluated directly on the impl lines, independent of the model:
     raised   : taskPanic -> payload (the task's own typed payload), deadlock -> deadlock message,
                stepBoundFail -> step-bound message, stepBoundContinue / pass -> nothing raised
     emitted  : failing run: persist=print -> exactly one stderr schedule, persist=file -> exactly one fresh
                file, persist=none -> nothing; non-failing run -> nothing
     replay   : every emitted schedule replays to the same failure class (`same`; `last` = only the last one does)
   Each violation is listed as `VIOLATION-CANDIDATE spec=<spec> run=<i> what=<...> class=<F5|F6|UNWIND|UNCLASSIFIED>`.
   Known signatures:
     F5   panic hook keeps the FIRST run's config: (a) a persist=none run emits, (b) a task-panic run with
          persist!=none emits nothing because the first run of the process had persist=none, (c) a task-panic
          run emits on the first run's channel instead of its own
     F6   thread-local SCHEDULE_PERSISTED_AT never reset: a failing run with persist!=none emits nothing because
          the previous failing run on the same OS thread had the same schedule length
     UNWIND (new candidate, found by this harness) a task panics while holding MutexGuards (body `panic_lock`):
          the hook emits a schedule that stops at the panic, the execution then takes one more step per guard
          dropped during unwinding, and `Execution::run` emits a second, longer schedule; replaying the first one
          raises "schedule ended early" instead of the task's payload
exit status: 0 = no model diff and no UNCLASSIFIED violation (with --expect-clean: no violation at all), 1 otherwise.
"""
import re
import subprocess
import sys

LINE = re.compile(
    r"^spec=(?P<spec>\S+) run (?P<i>\d+) persist=(?P<persist>\w+) kind=(?P<kind>\w+) raised=(?P<raised>\S+) "
    r"emitted=stderr:(?P<se>\S+),file:(?P<fi>\S+) replay=(?P<replay>\S+) len=(?P<len>\S+)$"
)
FAILING = {"taskPanic", "deadlock", "stepBoundFail"}
# portfolio bodies of vh_c12: number of failing members (each failing member is a task panic on a fresh OS thread)
PORTFOLIO_FAILING_MEMBERS = {"pf_pass": 0, "pf_fail1": 1, "pf_fail2": 2, "pfn_fail1": 1}


def item_body(item):
    b = item.split(":", 1)[1] if ":" in item else item
    return b.split("@", 1)[0].split("+", 1)[0]


def parse(path):
    """-> list of (spec, [rows]) in file order; rows are dicts"""
    groups = []
    bad = []
    with open(path) as f:
        for ln in f:
            ln = ln.rstrip("\n")
            if not ln.strip():
                continue
            m = LINE.match(ln)
            if not m:
                bad.append(ln)
                continue
            d = m.groupdict()
            if not groups or groups[-1][0] != d["spec"] or int(d["i"]) == 0:
                groups.append((d["spec"], []))
            groups[-1][1].append(d)
    return groups, bad


def item_thread(item):
    return int(item.split("@", 1)[1]) if "@" in item else 0


def num(s):
    try:
        return int(s)
    except ValueError:
        return None


def expected_raised_ok(kind, raised, nfail=0):
    if kind == "portfolio":
        # "a portfolio run fails exactly when one of its members does"; with stop_on_first_failure the
        # member's own payload is re-raised
        return (raised == "payload") if nfail > 0 else (raised == "none")
    if kind == "taskPanic":
        return raised == "payload"
    if kind == "deadlock":
        return raised == "deadlock"
    if kind == "stepBoundFail":
        return re.fullmatch(r"stepbound-\d+", raised) is not None
    return raised == "none"


def oracle(groups):
    out = []
    for spec, rows in groups:
        items = spec.split(",")
        first_persist = rows[0]["persist"] if rows else None
        last_len = {}  # thread -> len of the last failing run on that thread (what SCHEDULE_PERSISTED_AT would hold)
        for r in rows:
            i = int(r["i"])
            t = item_thread(items[i]) if i < len(items) else 0
            kind, persist = r["kind"], r["persist"]
            se, fi, ln = num(r["se"]), num(r["fi"]), num(r["len"])
            failing = kind in FAILING
            nfail = 0
            if kind == "portfolio":
                nfail = PORTFOLIO_FAILING_MEMBERS.get(item_body(items[i]) if i < len(items) else "", 0)
                failing = nfail > 0
                kind_for_f5 = "taskPanic"
            else:
                kind_for_f5 = kind
            mult = nfail if kind == "portfolio" else 1
            v = []
            if not expected_raised_ok(kind, r["raised"], nfail):
                v.append(("raised=%s-for-%s" % (r["raised"], kind), "UNCLASSIFIED"))
            if se is None or fi is None:
                v.append(("emissions-unknown", "UNCLASSIFIED"))
            else:
                want_se = mult if (failing and persist == "print") else 0
                want_fi = mult if (failing and persist == "file") else 0
                if (se, fi) != (want_se, want_fi):
                    got = "stderr:%d,file:%d" % (se, fi)
                    if not failing:
                        v.append(("emitted-by-non-failing-run(%s)" % got, "UNCLASSIFIED"))
                    elif persist == "none":
                        cls = "F5" if (kind_for_f5 == "taskPanic" and i > 0 and first_persist != "none") else "UNCLASSIFIED"
                        v.append(("emitted-although-persistence-disabled(%s)" % got, cls))
                    elif se + fi == 0:
                        if i > 0 and ln is not None and last_len.get(t) == ln:
                            cls = "F6"
                        elif kind_for_f5 == "taskPanic" and i > 0 and first_persist == "none":
                            cls = "F5"
                        else:
                            cls = "UNCLASSIFIED"
                        v.append(("nothing-emitted-although-persist=%s" % persist, cls))
                    elif (se > 0 and want_se == 0) or (fi > 0 and want_fi == 0):
                        cls = (
                            "F5"
                            if (kind_for_f5 == "taskPanic" and i > 0 and first_persist not in (persist, "none"))
                            else "UNCLASSIFIED"
                        )
                        v.append(("emitted-on-wrong-channel(%s)" % got, cls))
                    else:
                        v.append(("emitted-more-than-once(%s)" % got, "UNCLASSIFIED"))
                if se + fi > 0 and r["replay"] != "same":
                    v.append(("replay=%s" % r["replay"], "UNCLASSIFIED"))
            holds_guards = i < len(items) and "panic_lock" in items[i]
            for what, cls in v:
                # (`replay=last`: the hook's schedule is truncated but a complete one follows — the known shape;
                #  `replay=differs`: no emitted schedule, or not the last one, reproduces the failure — never known)
                if cls == "UNCLASSIFIED" and holds_guards and (
                    what.startswith("emitted-more-than-once") or what.startswith("emitted-on-wrong-channel")
                    or what == "replay=last"
                ):
                    cls = "UNWIND"
                out.append((spec, i, what, cls))
            if failing and ln is not None:
                last_len[t] = ln
    return out


def main(argv):
    if len(argv) >= 2 and argv[1] == "--sweep":
        seed, count = argv[2], argv[3]
        outp = argv[argv.index("--out") + 1]
        exe = "/verif/harness/target/release/vh_c12"
        res = subprocess.run([exe, "sweep", seed, count], stdout=subprocess.PIPE, universal_newlines=True)
        with open(outp, "w") as f:
            f.write(res.stdout)
        if "--specs" in argv:
            specs = []
            for ln in res.stdout.splitlines():
                m = LINE.match(ln)
                if m and int(m.group("i")) == 0:
                    specs.append(m.group("spec"))
            with open(argv[argv.index("--specs") + 1], "w") as f:
                f.write("".join(s + "\n" for s in specs))
        print("wrote %d lines to %s" % (len(res.stdout.splitlines()), outp))
        return res.returncode
    args = [a for a in argv[1:] if not a.startswith("--")]
    expect_clean = "--expect-clean" in argv
    if not args:
        print(__doc__)
        return 2
    groups, bad = parse(args[0])
    rc = 0
    for b in bad:
        print("UNPARSED-IMPL-LINE %s" % b)
        rc = 1
    nrows = sum(len(r) for _, r in groups)
    print("impl: %d specs, %d runs" % (len(groups), nrows))
    if len(args) > 1:
        with open(args[0]) as f:
            a = [l.rstrip("\n") for l in f if l.strip()]
        with open(args[1]) as f:
            b = [l.rstrip("\n") for l in f if l.strip()]
        ndiff = 0
        for k in range(max(len(a), len(b))):
            x = a[k] if k < len(a) else "<missing>"
            y = b[k] if k < len(b) else "<missing>"
            if x != y:
                ndiff += 1
                if ndiff <= 50:
                    print("MODEL-DIFF line %d\n  impl : %s\n  model: %s" % (k + 1, x, y))
        print("model-diff: %d differing lines of %d" % (ndiff, max(len(a), len(b))))
        if ndiff:
            rc = 1
    viol = oracle(groups)
    by = {}
    for spec, i, what, cls in viol:
        by.setdefault(cls, []).append((spec, i, what))
    for cls in ("F5", "F6", "UNWIND", "UNCLASSIFIED"):
        for spec, i, what in by.get(cls, []):
            print("VIOLATION-CANDIDATE spec=%s run=%d what=%s class=%s" % (spec, i, what, cls))
    print(
        "oracle: %d violation candidates (F5: %d, F6: %d, UNWIND: %d, UNCLASSIFIED: %d)"
        % (len(viol), len(by.get("F5", [])), len(by.get("F6", [])), len(by.get("UNWIND", [])),
           len(by.get("UNCLASSIFIED", [])))
    )
    if by.get("UNCLASSIFIED") or (expect_clean and viol):
        rc = 1
    return rc


if __name__ == "__main__":
    sys.exit(main(sys.argv))
