"""Shared driver of the kernel-level properties (C03, C08, C13, C01): theorem audit + trace-mode
correspondence on the generator's streams + a log oracle."""
import os
from vlib import *
from propbase import *
import gen

KERNEL_SCAN = ["ShuttleModel/Kernel.lean", "ShuttleModel/Clock.lean", "ShuttleModel/Prim/Base.lean",
               "ShuttleModel/Prim/Sem.lean", "ShuttleModel/Prim/Locks.lean", "ShuttleModel/Lang.lean",
               "ShuttleModel/Runner.lean"]


def available_profiles():
    """the general profiles; the directed shape profiles (exhaustive DFS / replicated runs) are expensive and are run by the
    properties they were written for"""
    return [p for p, v in gen.PROFILES.items() if not (v.get("dfs_iters") or v.get("replicate"))]


def std_streams(rng, tier, pid, kinds=("random", "pct", "rr", "dfs"), per_quick=60, per_thorough=1200, extra_cfg=None, profiles=None):
    """one trace-mode stream per generator profile"""
    res = {}
    per = per_quick if tier == "quick" else per_thorough
    for prof in (profiles or available_profiles()):
        if prof not in gen.PROFILES:
            continue
        lines = gen.batch(rng.next(), prof, per, f"{pid.lower()}_{prof}_", kinds)
        if extra_cfg:
            lines = extra_cfg(lines)
        res[prof] = run_stream(f"{pid.lower()}_{prof}", lines, "trace")
    return res


def apply_oracle(results, oracle):
    bad = []
    for sname, r in results.items():
        for n in r["names"]:
            prog = r["progs"][n]
            for what, sig in oracle(prog, r["impl"].get(n, [])):
                bad.append((what, {"kind": "program", "program": prog, "stream": sname}, sig))
    return bad


def run_kernel_prop(pid, tier, seed, lean_targets, audit, prefixes, proofs_scan, oracle, explanation, extra=None, kinds=("random", "pct", "rr", "dfs"), profiles=None, per_quick=60, lemma_prefixes=("Kernel",)):
    c = Check(pid, tier, seed)
    c.assumptions = ["Lean 4.33.0 kernel; axioms per theorem via #print axioms (⊆ propext, Classical.choice, Quot.sound)",
                     "modelled, not verified: corosensei coroutines (a resumed task continues where it yielded), Rust unwinding, the RefCell discipline",
                     "the kernel theorems hold for every Program over the kernel API; that the real runtime behaves as the model is checked step-exactly on the generated programs only",
                     "harness (vh), generators and this script are unverified"]
    ok_build, ok_audit = build_and_audit(c, lean_targets, audit, KERNEL_SCAN + proofs_scan + lemma_files(list(lemma_prefixes)), prefixes)
    if not c.cargo_build(("vh",)):
        c.violation_noinput("harness does not build: " + getattr(c, "cargo_error", "")[-300:], "cargo build vh")
        return c.finish()
    rng = Rng(seed)
    results = {}
    corpus = corpus_programs(pid)
    if corpus:
        results["corpus"] = run_stream(f"{pid.lower()}_corpus", corpus, "trace")
    results.update(std_streams(rng, tier, pid, kinds, per_quick=per_quick, profiles=profiles))
    bad = apply_oracle(results, oracle) if oracle else []
    if extra:
        more_results, more_bad = extra(c, rng, tier, results)
        results.update(more_results)
        bad += more_bad
    c.cov["samples"] = sample_of(results, 2)
    c.cov["explanation"] = explanation
    return report(c, results, bad, ok_build, ok_audit, lean_targets[0], audit)
