"""Model-independent oracles: the property texts evaluated on the implementation's own logs.
Each oracle takes (program_lines, impl_log_lines) and returns a list of (what, signature)."""
import re
from propbase import executions, decode_schedule


def parse_program(prog_lines):
    """returns dict(bodies={k:[ops]}, steps=('none'|'fail'|'cont', n), run=str, objs={name:kind})"""
    bodies, cur, steps, run, objs = {}, None, ("none", 0), "", {}
    futures = set()
    for l in prog_lines:
        t = l.split("#")[0].split()
        if not t:
            continue
        if cur is not None:
            if t[0] == "end":
                cur = None
            else:
                bodies[cur].append(t)
            continue
        if t[0] == "task":
            cur = int(t[1]); bodies[cur] = []
            if len(t) > 2 and t[2] == "future":
                futures.add(cur)
        elif t[0] == "config":
            for kv in t[1:]:
                if kv.startswith("steps="):
                    v = kv[6:]
                    if v.startswith("fail:"):
                        steps = ("fail", int(v[5:]))
                    elif v.startswith("cont:"):
                        steps = ("cont", int(v[5:]))
        elif t[0] == "obj":
            objs[t[1]] = t[2]
        elif t[0] == "run":
            run = t[1]
    return {"bodies": bodies, "steps": steps, "run": run, "objs": objs, "futures": futures}


def op_name(P, k, pc):
    try:
        t = P["bodies"][int(k)][int(pc)]
        while t[0] == "block_on" and len(t) > 1:      # `block_on <async op>`: the op that is run
            t = t[1:]
        if t[0] == "pend_then" and len(t) > 2:          # a leaf future that runs a synchronous op inside its poll
            return t[2]
        return t[0]
    except Exception:
        return "?"


YIELDING_OPS = {"yield", "park", "fyield"}
# the tokio replacements call thread::yield_now() internally (every oneshot operation starts with one, Notify and
# watch are built on oneshot / the tokio RwLock): their operations are explicit yield requests as well
MAY_YIELD_PREFIXES = ("os_", "n_", "w_", "t", "select")


def requests_yield(name):
    return name in YIELDING_OPS or name.startswith(MAY_YIELD_PREFIXES)


def o_contract(prog, lines):
    """C08: the Scheduler interface contract, from the recorder's D lines and the tasks' O lines"""
    P = parse_program(prog)
    bad = []
    for l in lines:
        if l.startswith("V "):
            bad.append(("recorder saw a contract violation: " + l[2:], "C08:recorder"))
    for e in executions(lines):
        last_choice = None          # choice of the previous decision
        first = True
        stopped = False
        pending_y = {}              # tid -> a yielding decision with cur == tid awaits its op line
        for l in e["lines"]:
            if l.startswith("D "):
                t = l.split()
                off = [int(x) for x in t[1].split(",")] if t[1] else []
                cur = None if t[2] == "-" else int(t[2])
                y = t[3] == "y"
                ch = None if t[5] == "-" else int(t[5])
                if stopped:
                    bad.append(("a decision was requested after the scheduler returned None", "C08:after-none"))
                if not off:
                    bad.append(("empty offer", "C08:empty-offer"))
                if any(a >= b for a, b in zip(off, off[1:])):
                    bad.append((f"offer not strictly ascending: {off}", "C08:order"))
                if first and cur is not None:
                    bad.append(("current task reported before the first step", "C08:current-first"))
                if not first and cur != last_choice:
                    bad.append((f"current={cur} but the previous decision chose {last_choice}", "C08:current"))
                if ch is not None and ch not in off:
                    bad.append((f"chosen task {ch} was not offered {off}", "C08:choice"))
                if y:
                    if cur is None:
                        bad.append(("yielding flag set before any task ran", "C08:yield-flag"))
                    else:
                        pending_y[cur] = True
                if ch is None:
                    stopped = True
                last_choice = ch
                first = False
            elif l.startswith("O "):
                t = l.split()
                tid = int(t[1])
                if last_choice is not None and tid != last_choice:
                    bad.append((f"task {tid} ran user code although the last decision chose {last_choice}", "C08:chosen-runs"))
                if len(t) >= 4 and not t[3].isdigit():
                    # `dtor` / `dropped` / `end` …: the operation that requested the yield never completed (its future was
                    # aborted while suspended in it), so no op line will ever follow that decision
                    pending_y.pop(tid, None)
                elif len(t) >= 5:
                    name = op_name(P, t[2], t[3])
                    if pending_y.pop(tid, None) and not requests_yield(name):
                        bad.append((f"yielding flag was set for task {tid} whose operation was `{name}`, not a yield request", "C08:yield-flag"))
                    if name in ("yield", "fyield") and False:
                        pass
    return bad


def count_steps_exec(P, e):
    """replay the step counter of one execution from its log: returns list of events
    ('D'|'R', count_before) and the final count; resets at reset_steps ops"""
    count = 0
    ev = []
    for l in e["lines"]:
        if l.startswith("D "):
            ch = l.split()[5]
            ev.append(("D", count))
            if ch != "-":
                count += 1
        elif l.startswith("R "):
            ev.append(("R", count))
            count += 1
        elif l.startswith("O "):
            t = l.split()
            if len(t) >= 5 and op_name(P, t[2], t[3]) == "reset_steps":
                count = 0
    return ev, count


def o_bounds(prog, lines):
    """C13: step bounds, from the log alone"""
    P = parse_program(prog)
    kind, n = P["steps"]
    bad = []
    ex = executions(lines)
    if kind != "none":
        for e in ex:
            ev, final = count_steps_exec(P, e)
            for k, c in ev:
                if k == "D" and c >= n:
                    bad.append((f"the scheduler was consulted with {c} steps already performed under a bound of {n}", "C13:decision-beyond-bound"))
                if k == "R" and c >= n:
                    bad.append((f"a random draw was served as step {c + 1} under a step bound of {n} (draws are not checked against the bound)", "C13:draw-overshoot"))
            end = e["end"] or ""
            if end.startswith("E fail exceeded max_steps bound"):
                if kind != "fail":
                    bad.append(("max-steps failure raised although the bound is not a failing one", "C13:fail-kind"))
                if final < n:
                    bad.append((f"max-steps failure after only {final} steps (bound {n})", "C13:early-fail"))
                if str(n) not in end:
                    bad.append(("max-steps message names a different bound: " + end, "C13:message"))
    # iteration budget: N == number of executions; == budget unless failure
    nline = [l for l in lines if l.startswith("N ")]
    if nline and nline[-1] != "N fail":
        nn = int(nline[-1].split()[1])
        if nn != len(ex):
            bad.append((f"Runner::run returned {nn} but the body was invoked {len(ex)} times", "C13:count"))
        parts = P["run"].split(":")
        want = None
        if parts[0] == "random" and len(parts) > 2:
            want = int(parts[2])
        elif parts[0] == "pct" and len(parts) > 3:
            want = int(parts[3])
        elif parts[0] == "rr":
            want = int(parts[1]) if len(parts) > 1 else 1
        elif parts[0] == "urw" and len(parts) > 2:
            want = int(parts[2])
        if want is not None and nn != max(want, 1):
            bad.append((f"scheduler budget {want} iterations but the run performed {nn}", "C13:budget"))
    return bad


def o_verdict(prog, lines):
    """C03: deadlock / termination verdicts from the log alone (std threads only: nothing is detached)"""
    P = parse_program(prog)
    blocking_dtor = any(l.split()[:1] == ["obj"] and len(l.split()) > 3 and l.split()[2] == "tls" and l.split()[3].startswith("lock:") for l in prog)
    bad = []
    for e in executions(lines):
        created, ended = {0}, set()
        thread_tids = {0}           # tasks seen running a thread body (futures may be detached: see oracle_c17)
        decisions = 0
        last_none = False
        for l in e["lines"]:
            if l.startswith("D "):
                t = l.split()
                for x in t[1].split(","):
                    if x:
                        created.add(int(x))
                decisions += 1
                last_none = t[5] == "-"
            elif l.startswith("O "):
                t = l.split()
                created.add(int(t[1]))
                if t[2].isdigit() and int(t[2]) not in P["futures"]:
                    thread_tids.add(int(t[1]))
                if len(t) == 4 and t[3] in ("end", "dropped"):      # a cancelled future is finished too
                    ended.add(int(t[1]))
        end = e["end"] or ""
        if end.startswith("E fail deadlock! blocked tasks: ["):
            ids = set(int(m) for m in re.findall(r"\(task [^()]*\((\d+)\)", end))
            want = created - ended
            # a thread-local whose destructor takes a lock runs after the body's `end` line and may block there: such a
            # task is unfinished although its body is over
            if blocking_dtor and want <= ids <= created:
                want = ids
            if ids != want:
                bad.append((f"deadlock report names tasks {sorted(ids)} but the unfinished tasks are {sorted(want)}", "C03:deadlock-list"))
            if not want:
                bad.append(("deadlock reported although every task finished", "C03:false-deadlock"))
        elif end == "E end":
            kind, n = P["steps"]
            if kind == "cont" or last_none:
                continue
            left = (created - ended) if not P["futures"] else ((created - ended) & thread_tids)
            if left:
                bad.append((f"execution ended normally although tasks {sorted(left)} never finished", "C03:early-end"))
    return bad
