"""C19 oracle: tokio's documented behaviour evaluated on the implementation's own log (no model involved).

    o_tokio(prog_lines, impl_log_lines) -> [(what, signature)]

Log facts used: `O tid body pc result` is written when an operation RETURNS; the operation started
after the previous `O` line of the same task (or after the `spawn` that created the task); `D offered …`
lists the runnable tasks at every scheduling decision.  Because most tokio operations contain scheduling
points, every check below is phrased so that it is sound for any interleaving compatible with those
facts ("may be in flight" = the task's next `O` line, looked up ahead in the log, belongs to such an op).
"""
import re
from propbase import executions
from oracles import parse_program

SEND_OPS = {"tsend", "ttry_send", "tblocking_send"}
RECV_OPS = {"trecv", "ttry_recv", "tblocking_recv"}
ACQ_OPS = {"ts_acquire", "tm_lock", "tr_read", "tr_write"}


def _op(P, k, pc):
    """(name, args, once) of op pc of body k, unwrapping t_poll_once"""
    try:
        t = P["bodies"][k][pc]
    except Exception:
        return ("?", [], False)
    if t[0] == "t_poll_once":
        return (t[1], t[2:], True)
    return (t[0], t[1:], False)


class Ev:
    __slots__ = ("pos", "tid", "k", "pc", "res", "name", "args", "once", "start")


def _events(P, e):
    """the O lines of one execution as events with their start position; also D offers and task ends"""
    evs, offers, ended, last_pos, spawn_pos, body_of = [], [], {}, {}, {}, {}
    for pos, l in enumerate(e["lines"]):
        if l.startswith("D "):
            t = l.split()
            offers.append((pos, set(int(x) for x in t[1].split(",") if x)))
        elif l.startswith("O "):
            t = l.split()
            tid, k = int(t[1]), int(t[2])
            body_of[tid] = k
            if len(t) == 4 and t[3] == "end":
                ended[k] = pos
                continue
            if len(t) < 5 or not t[3].isdigit():
                continue
            ev = Ev()
            ev.pos, ev.tid, ev.k, ev.pc, ev.res = pos, tid, k, int(t[3]), t[4]
            ev.name, ev.args, ev.once = _op(P, k, ev.pc)
            ev.start = last_pos.get(k, spawn_pos.get(k, -1))
            last_pos[k] = pos
            if ev.name == "spawn" and ev.args:
                spawn_pos[int(ev.args[0])] = pos
            evs.append(ev)
    return evs, offers, ended, spawn_pos, body_of


def _inflight(P, evs, ended, spawn_pos, pos, me, pred):
    """may some body other than `me` be inside an op satisfying pred(name, args) at log position pos?
    (its next O line after pos is such an op, or it has no further O line and such an op remains in
    its text)"""
    nxt, last = {}, {}
    for ev in evs:
        if ev.pos > pos and ev.k not in nxt:
            nxt[ev.k] = ev
        if ev.pos <= pos:
            last[ev.k] = ev.pc
    for k, ops in P["bodies"].items():
        if k == me:
            continue
        if k != 0 and (k not in spawn_pos or spawn_pos[k] > pos):
            continue                      # not spawned yet
        if k in ended and ended[k] <= pos:
            continue
        if k in nxt:
            if pred(nxt[k].name, nxt[k].args):
                return True
        else:
            for pc in range(last.get(k, -1) + 1, len(ops)):
                n, a, _ = _op(P, k, pc)
                if pred(n, a):
                    return True
    return False


def _busy(P, evs, ended, spawn_pos, start, end, me, pred):
    """may some body other than `me` have been inside an op satisfying pred at any moment of the log window (start, end]?
    — it completed such an op inside the window, or the next op it completes after the window is one, or it never
    completes another op and one remains in its text.  Bodies spawned inside the window count from their spawn."""
    for k, ops in P["bodies"].items():
        if k == me:
            continue
        if k != 0 and (k not in spawn_pos or spawn_pos[k] > end):
            continue                      # not spawned before the window closed
        if k in ended and ended[k] <= start:
            continue
        mine = [ev for ev in evs if ev.k == k]
        if any(start < ev.pos <= end and pred(ev.name, ev.args) for ev in mine):
            return True
        after = [ev for ev in mine if ev.pos > end]
        if after:
            if pred(after[0].name, after[0].args):
                return True
        else:
            last = max([ev.pc for ev in mine], default=-1)
            for pc in range(last + 1, len(ops)):
                n, a, _ = _op(P, k, pc)
                if pred(n, a):
                    return True
    return False


def _blocked_op(P, evs, ended, spawn_pos, k):
    """the op body k was inside when the execution ended (None if it ended or never started)"""
    if k in ended or (k != 0 and k not in spawn_pos):
        return None
    last = -1
    for ev in evs:
        if ev.k == k:
            last = ev.pc
    ops = P["bodies"].get(k, [])
    pc = last + 1
    while pc < len(ops) and ops[pc][0] == "if":
        pc += 1                            # approximate: the op after the conditional
    if pc < len(ops):
        n, a, once = _op(P, k, pc)
        return (n, a, pc)
    return None


def _objs(prog_lines):
    out = {}
    for l in prog_lines:
        t = l.split("#")[0].split()
        if len(t) >= 3 and t[0] == "obj":
            out[t[1]] = (t[2], t[3:])
    return out


# ------------------------------------------------------------------------------------------------ mpsc
def _mpsc(P, objs, e, evs, offers, ended, spawn_pos, bad):
    for c, (kind, oargs) in objs.items():
        if kind != "tmpsc":
            continue
        cap = int(oargs[0][4:]) if oargs and oargs[0].startswith("cap:") else None
        mine = [ev for ev in evs if ev.args and ev.args[0] == c]
        # per-sender FIFO / exactly once
        sends = {}                          # body -> list of [value, pos_or_None, used]
        for ev in mine:
            if ev.name in SEND_OPS and ev.res == "ok":
                sends.setdefault(ev.k, []).append([int(ev.args[1]), ev.pos, False])
        for k in P["bodies"]:
            b = _blocked_op(P, evs, ended, spawn_pos, k)
            if b and b[0] in SEND_OPS and b[1] and b[1][0] == c:
                sends.setdefault(k, []).append([int(b[1][1]), None, False])
        n_sent = n_recv = 0
        closing_started = None
        for ev in mine:
            if ev.name in ("tclose", "tdrop_rx", "tdrop_tx") and ev.res == "ok" and closing_started is None:
                closing_started = ev.start
        any_close_text = any(_op(P, k, pc)[0] in ("tclose", "tdrop_rx", "tdrop_tx") and _op(P, k, pc)[1][:1] == [c]
                             for k, ops in P["bodies"].items() for pc in range(len(ops)))
        recv_seen = False
        for ev in mine:
            if ev.name in SEND_OPS and ev.res == "ok":
                n_sent += 1
            if ev.name in RECV_OPS and ev.res.startswith("v:"):
                v = int(ev.res[2:])
                n_recv += 1
                recv_seen = True
                # the next unconsumed successful send of some sender must carry v
                cands = [s for s in sends.values() for x in [next((y for y in s if not y[2]), None)] if x and x[0] == v]
                if not cands:
                    bad.append((f"channel {c}: received {v}, which is not the next undelivered value of any sender "
                                f"(duplicate, reordered or never sent)", "C19:mpsc-fifo"))
                else:
                    cands.sort(key=lambda s: (next(y for y in s if not y[2])[1] is None,
                                              next(y for y in s if not y[2])[1] or 0))
                    next(y for y in cands[0] if not y[2])[2] = True
            if ev.name in RECV_OPS and ev.res in ("none", "err:disconnected") and not any_close_text:
                bad.append((f"channel {c}: {ev.name} reported the channel closed although no close/drop "
                            f"operation exists in the program", "C19:mpsc-false-close"))
            if ev.name in SEND_OPS and ev.res == "ok":
                for cl in mine:
                    if cl.name in ("tclose", "tdrop_rx") and cl.res == "ok" and cl.pos < ev.start:
                        bad.append((f"channel {c}: a send that started after the receiver closed the channel "
                                    f"succeeded", "C19:send-after-close"))
                        break
            if cap is not None:
                if n_sent - n_recv - 1 > cap:
                    bad.append((f"channel {c}: {n_sent} values sent, {n_recv} received: more than capacity "
                                f"{cap} buffered", "C19:mpsc-capacity"))
                if ev.name == "tcapacity" and ev.res.startswith("v:"):
                    v = int(ev.res[2:])
                    if v > cap:
                        bad.append((f"channel {c}: capacity() = {v} exceeds the bound {cap}", "C19:mpsc-capacity"))
                    quiet = not _busy(P, evs, ended, spawn_pos, ev.start, ev.pos, ev.k,
                                      lambda n, a: a[:1] == [c] and (n in SEND_OPS or n in RECV_OPS or
                                                                          n in ("tclose", "tdrop_rx", "tdrop_tx")))
                    closed = closing_started is not None and closing_started < ev.pos
                    failed_send = any(x.name in SEND_OPS and x.res in ("err:closed", "pending-dropped") and x.pos < ev.pos
                                      for x in mine)
                    if quiet and not closed and not failed_send:
                        want = cap - (n_sent - n_recv)
                        if v != want:
                            if v < want and recv_seen:
                                bad.append((f"channel {c} (bound {cap}): {n_sent} sent, {n_recv} received, nothing in "
                                            f"flight, but capacity() = {v} instead of {want}: a received value's slot "
                                            f"was not given back", "C19:slot-not-returned"))
                            else:
                                bad.append((f"channel {c} (bound {cap}): capacity() = {v}, expected {want}",
                                            "C19:mpsc-capacity"))


        # at a deadlock everything is quiescent: a sender must not hang while the buffer has room
        if cap is not None and (e["end"] or "").startswith("E fail deadlock") and closing_started is None:
            for k in P["bodies"]:
                b = _blocked_op(P, evs, ended, spawn_pos, k)
                if b and b[0] in ("tsend", "tblocking_send") and b[1][:1] == [c] and n_sent - n_recv < cap \
                        and not any(x.name in SEND_OPS and x.res == "pending-dropped" for x in mine):
                    bad.append((f"channel {c} (bound {cap}): body {k} hangs in {b[0]} although only "
                                f"{n_sent - n_recv} of {cap} slots are occupied ({n_sent} sent, {n_recv} received): "
                                f"a received value's slot was not given back", "C19:slot-not-returned"))
                    break


# --------------------------------------------------------------------------------------------- oneshot
def _oneshot(P, objs, evs, bad):
    for o, (kind, _) in objs.items():
        if kind != "toneshot":
            continue
        mine = [ev for ev in evs if ev.args and ev.args[0] == o]
        sent = [int(ev.args[1]) for ev in mine if ev.name == "os_send" and ev.res == "ok"]
        sending = [int(_op(P, k, pc)[1][1]) for k, ops in P["bodies"].items() for pc in range(len(ops))
                   if _op(P, k, pc)[0] == "os_send" and _op(P, k, pc)[1][:1] == [o]]
        got = [int(ev.res[2:]) for ev in mine if ev.name in ("os_recv", "os_try_recv", "os_poll") and ev.res.startswith("v:")]
        if len(got) > 1:
            bad.append((f"oneshot {o} delivered {len(got)} values", "C19:oneshot-twice"))
        if len(sent) > 1:
            bad.append((f"oneshot {o} accepted {len(sent)} sends", "C19:oneshot-twice"))
        for v in got:
            if v not in sending:
                bad.append((f"oneshot {o} delivered {v}, which nobody sent", "C19:oneshot-phantom"))


# ----------------------------------------------------------------------------------------------- watch
def _watch(P, objs, e, evs, ended, spawn_pos, bad):
    for w, (kind, oargs) in objs.items():
        if kind != "twatch":
            continue
        init = int(oargs[0]) if oargs else 0
        mine = [ev for ev in evs if ev.args and ev.args[0] == w]
        sends = [ev for ev in mine if ev.name == "w_send" and ev.res == "ok"]
        text_vals = {int(_op(P, k, pc)[1][1]) for k, ops in P["bodies"].items() for pc in range(len(ops))
                     if _op(P, k, pc)[0] == "w_send" and _op(P, k, pc)[1][:1] == [w]}
        is_send = lambda n, a: n == "w_send" and a[:1] == [w]
        looks = {}                         # receiver index -> (start, end) of its last version update
        for ev in mine:
            r = int(ev.args[1]) if len(ev.args) > 1 and ev.args[1].isdigit() else 0
            if ev.name in ("w_borrow", "w_borrow_and_update") and ev.res.startswith("v:"):
                v = int(ev.res[2:])
                before = [s for s in sends if s.pos <= ev.start]
                ok_vals = {int(before[-1].args[1]) if before else init}
                ok_vals |= {int(s.args[1]) for s in sends if s.pos > ev.start}
                if _busy(P, evs, ended, spawn_pos, ev.start, ev.pos, ev.k, is_send):
                    ok_vals |= text_vals
                if v not in ok_vals:
                    bad.append((f"watch {w}: borrow returned {v}, not the latest value "
                                f"({sorted(ok_vals)} possible)", "C19:watch-stale"))
            if ev.name == "w_changed":
                ls, le = looks.get(r, (-1, -1))
                upper = len([s for s in sends if s.pos < ev.pos])
                infl = _inflight(P, evs, ended, spawn_pos, ev.pos, ev.k, is_send)
                lower_at_look = len([s for s in sends if s.pos < ls]) if ls >= 0 else 0
                if ev.res == "ok" and not infl and upper == lower_at_look and \
                        not any(s.pos > ls for s in sends if s.pos < ev.pos):
                    bad.append((f"watch {w}: changed() completed for receiver {r} although no value was sent "
                                f"after its last look", "C19:watch-spurious"))
                if ev.res == "pending-dropped":
                    unseen = [s for s in sends if s.start > le and s.pos < ev.start]
                    if unseen:
                        bad.append((f"watch {w}: changed() stayed pending for receiver {r} although a value "
                                    f"sent after its last look was already stored", "C19:watch-missed"))
            if ev.name in ("w_borrow_and_update",) and ev.res.startswith("v:"):
                looks[r] = (ev.start, ev.pos)
            if ev.name == "w_changed" and ev.res == "ok":
                looks[r] = (ev.start, ev.pos)
        if (e["end"] or "").startswith("E fail deadlock"):
            for k in P["bodies"]:
                b = _blocked_op(P, evs, ended, spawn_pos, k)
                if b and b[0] == "w_changed" and b[1][:1] == [w]:
                    r = int(b[1][1]) if len(b[1]) > 1 else 0
                    ls, le = -1, -1
                    for ev in mine:
                        rr = int(ev.args[1]) if len(ev.args) > 1 and ev.args[1].isdigit() else 0
                        if rr == r and ((ev.name == "w_changed" and ev.res == "ok") or ev.name == "w_borrow_and_update"):
                            ls, le = ev.start, ev.pos
                    if any(s.start > le for s in sends):
                        bad.append((f"watch {w}: receiver {r} hangs in changed() although a value was sent after "
                                    f"its last look", "C19:watch-lost"))


# ---------------------------------------------------------------------------------------------- notify
def _notify(P, objs, e, evs, ended, spawn_pos, bad, tid_of, chosen):
    deadlock = (e["end"] or "").startswith("E fail deadlock")
    for n, (kind, _) in objs.items():
        if kind != "tnotify":
            continue
        mine = [ev for ev in evs if ev.args and ev.args[0] == n]
        ones = [ev for ev in mine if ev.name == "n_notify_one"]
        alls = [ev for ev in mine if ev.name == "n_notify_waiters"]
        # completions: first ready/true/ok per handle, every n_notified ok
        done, seen_h = [], set()
        created = [ev for ev in mine if (ev.name == "n_new" and ev.res == "ok") or ev.name == "n_notified"]
        for ev in mine:
            if ev.name == "n_notified" and ev.res == "ok":
                done.append(ev)
            elif ev.name in ("n_await", "n_poll", "n_enable") and ev.res in ("ok", "ready", "true"):
                h = ev.args[1]
                gen = len([c for c in mine if c.name == "n_new" and c.res == "ok" and c.args[1] == h and c.pos < ev.pos])
                if (h, gen) not in seen_h:
                    seen_h.add((h, gen))
                    done.append(ev)
        text_one = sum(1 for k, ops in P["bodies"].items() for pc in range(len(ops))
                       if _op(P, k, pc)[0] == "n_notify_one" and _op(P, k, pc)[1][:1] == [n])
        text_all = sum(1 for k, ops in P["bodies"].items() for pc in range(len(ops))
                       if _op(P, k, pc)[0] == "n_notify_waiters" and _op(P, k, pc)[1][:1] == [n])
        if text_all == 0 and len(done) > text_one:
            bad.append((f"notify {n}: {len(done)} waits completed with only {text_one} notify_one calls",
                        "C19:notify-phantom"))
        # a stored permit never exceeds one: notify_one calls that returned before any Notified existed
        if text_all == 0 and created:
            first = min(c.start for c in created)
            early = [o for o in ones if o.pos < first]
            late = [o for o in ones if o.pos >= first]
            late_possible = len(late) + (text_one - len(ones))
            if len(early) >= 2 and len(done) > 1 + late_possible:
                bad.append((f"notify {n}: {len(early)} notify_one calls before any waiter existed released "
                            f"{len(done) - late_possible} waiters (at most one permit may be stored)",
                            "C19:notify-permits"))
        # lost notification
        if deadlock:
            for k in P["bodies"]:
                b = _blocked_op(P, evs, ended, spawn_pos, k)
                if not b or b[1][:1] != [n] or b[0] not in ("n_await", "n_notified"):
                    continue
                last_k = max([ev.pos for ev in evs if ev.k == k], default=spawn_pos.get(k, -1))
                # registered at the latest when the task was first scheduled after the op's start …
                tid = tid_of.get(k)
                runs = [p for p, ch in chosen if p > last_k and ch == tid]
                if not runs:
                    continue
                te = runs[0]
                if b[0] == "n_await":
                    h = b[1][1]
                    en = [ev for ev in mine if ev.name in ("n_enable", "n_poll") and ev.args[1] == h and
                          ev.res in ("false", "pending")]
                    mk = [ev for ev in mine if ev.name == "n_new" and ev.args[1] == h and ev.res == "ok"]
                    if mk:
                        en = [x for x in en if x.pos > mk[-1].pos]
                    if en:
                        te = min(x.pos for x in en)   # … or when it was enabled / first polled
                N = [o for o in ones if o.start >= te]
                A = [d for d in done if d.pos > te]
                # notified futures that are still alive and not being awaited may legitimately hold one
                live = 0
                for c in mine:
                    if c.name == "n_new" and c.res == "ok":
                        h2 = c.args[1]
                        later = [x for x in mine if x.pos > c.pos and len(x.args) > 1 and x.args[1] == h2]
                        dropped = any(x.name == "n_drop" and x.res == "ok" for x in later)
                        completed = any(x.name in ("n_await", "n_poll", "n_enable") and x.res in ("ok", "ready", "true")
                                        for x in later)
                        blocked_here = any((bb := _blocked_op(P, evs, ended, spawn_pos, kk)) and bb[0] == "n_await"
                                           and bb[1][:2] == [n, h2] for kk in P["bodies"])
                        if not dropped and not completed and not blocked_here:
                            live += 1
                if alls and any(a.start >= te for a in alls):
                    continue
                if len(N) > len(A) + live:
                    bad.append((f"notify {n}: task body {k} hangs in {b[0]} although {len(N)} notify_one call(s) were "
                                f"issued while it was registered and only {len(A)} wait(s) completed: a "
                                f"notification went to a Notified that was dropped and was not passed on",
                                "C19:notify-lost"))


# ----------------------------------------------------------------------------------------------- locks
def _locks(P, objs, e, evs, offers, ended, spawn_pos, bad):
    for m, (kind, oargs) in objs.items():
        mine = [ev for ev in evs if ev.args and ev.args[0] == m]
        if kind == "tmutex":
            holders, val = [], int(oargs[0]) if oargs else 0
            for ev in mine:
                if ev.name in ("tm_lock", "tm_try_lock") and ev.res.startswith("v:"):
                    if holders:
                        bad.append((f"mutex {m} granted to body {ev.k} while held by {holders}", "C19:mutex-exclusion"))
                    if int(ev.res[2:]) != val:
                        bad.append((f"mutex {m}: guard shows {ev.res[2:]}, last written {val}", "C19:mutex-value"))
                    holders.append(ev.k)
                elif ev.name == "tm_unlock" and ev.res == "ok" and ev.k in holders:
                    holders.remove(ev.k)
                elif ev.name == "tm_set" and ev.res == "ok":
                    val = int(ev.args[1])
        elif kind == "trwlock":
            maxr = int(oargs[1]) if len(oargs) > 1 else None
            rd, wr, val = [], [], int(oargs[0]) if oargs else 0
            for ev in mine:
                if ev.name in ("tr_read", "tr_try_read") and ev.res.startswith("v:"):
                    if wr or (maxr is not None and len(rd) >= maxr):
                        bad.append((f"rwlock {m}: read granted with writers {wr} readers {rd}", "C19:rwlock-exclusion"))
                    if int(ev.res[2:]) != val:
                        bad.append((f"rwlock {m}: guard shows {ev.res[2:]}, last written {val}", "C19:rwlock-value"))
                    rd.append(ev.k)
                elif ev.name in ("tr_write", "tr_try_write") and ev.res.startswith("v:"):
                    if wr or rd:
                        bad.append((f"rwlock {m}: write granted with writers {wr} readers {rd}", "C19:rwlock-exclusion"))
                    if int(ev.res[2:]) != val:
                        bad.append((f"rwlock {m}: guard shows {ev.res[2:]}, last written {val}", "C19:rwlock-value"))
                    wr.append(ev.k)
                elif ev.name == "tr_unread" and ev.res == "ok" and ev.k in rd:
                    rd.remove(ev.k)
                elif ev.name == "tr_unwrite" and ev.res == "ok" and ev.k in wr:
                    wr.remove(ev.k)
                elif ev.name == "tr_downgrade" and ev.res == "ok" and ev.k in wr:
                    wr.remove(ev.k); rd.append(ev.k)
                elif ev.name == "tr_set" and ev.res == "ok":
                    val = int(ev.args[1])
        elif kind == "tsem":
            total = int(oargs[0]) if oargs else 0
            held = {}                       # body -> stack of permit counts
            closed = False
            is_sem = lambda n, a: a[:1] == [m] and n.startswith("ts_") and n not in ("ts_avail", "ts_is_closed")
            for ev in mine:
                if ev.name in ("ts_acquire", "ts_try_acquire") and ev.res == "ok":
                    held.setdefault(ev.k, []).append(int(ev.args[1]))
                elif ev.name == "ts_release" and ev.res == "ok" and held.get(ev.k):
                    held[ev.k].pop()
                elif ev.name == "ts_forget" and ev.res == "ok" and held.get(ev.k):
                    total -= held[ev.k].pop()
                elif ev.name == "ts_add" and ev.res == "ok":
                    total += int(ev.args[1])
                elif ev.name == "ts_close":
                    closed = True
                elif ev.name == "ts_avail" and ev.res.startswith("v:"):
                    v = int(ev.res[2:])
                    want = total - sum(sum(s) for s in held.values())
                    if not _busy(P, evs, ended, spawn_pos, ev.start, ev.pos, ev.k, is_sem) and v != want:
                        bad.append((f"semaphore {m}: available_permits() = {v} at a quiescent point, expected "
                                    f"{want} (permits are not conserved)", "C19:sem-conservation"))
        # FIFO fairness: a blocking acquire that started after another task was already seen blocked
        # in its own acquire on the same object must not be granted first
        if kind in ("tmutex", "tsem", "trwlock"):
            acq = [ev for ev in mine if ev.name in ACQ_OPS and not ev.once]
            blocked = list(acq)
            for k in P["bodies"]:
                b = _blocked_op(P, evs, ended, spawn_pos, k)
                if b and b[0] in ACQ_OPS and b[1][:1] == [m]:
                    ev = Ev()
                    ev.k, ev.pc, ev.name, ev.args, ev.res, ev.once = k, b[2], b[0], b[1], None, False
                    ev.start = max([x.pos for x in evs if x.k == k], default=spawn_pos.get(k, -1))
                    ev.pos = 10 ** 9
                    ev.tid = next((x.tid for x in evs if x.k == k), None)
                    blocked.append(ev)
            for y in blocked:
                if y.tid is None:
                    continue
                seen = [p for p, off in offers if y.start < p < y.pos and y.tid not in off]
                if not seen:
                    continue
                p = seen[0]
                for x in acq:
                    granted = x.res == "ok" or (x.res or "").startswith("v:")
                    # y is overtaken only if it is still unoffered (queued) after x's grant was logged
                    still = any(x.pos < q < y.pos and y.tid not in off for q, off in offers)
                    if x.k != y.k and x.start > p and granted and x.pos < y.pos and still:
                        if not any(c.name == "ts_close" for c in mine):
                            bad.append((f"{kind} {m}: body {x.k}'s {x.name} started after body {y.k} was already "
                                        f"waiting in {y.name}, but was granted first", "C19:fifo"))


def o_tokio(prog, lines):
    """C19: tokio's documented behaviour, from the log alone"""
    P = parse_program(prog)
    objs = _objs(prog)
    bad = []
    for e in executions(lines):
        evs, offers, ended, spawn_pos, body_of = _events(P, e)
        _mpsc(P, objs, e, evs, offers, ended, spawn_pos, bad)
        _oneshot(P, objs, evs, bad)
        _watch(P, objs, e, evs, ended, spawn_pos, bad)
        tid_of = {0: 0}
        for i, k in enumerate(sorted(spawn_pos, key=lambda k: spawn_pos[k])):
            tid_of[k] = i + 1
        chosen = [(pos, int(l.split()[5])) for pos, l in enumerate(e["lines"]) if l.startswith("D ") and l.split()[5] != "-"]
        _notify(P, objs, e, evs, ended, spawn_pos, bad, tid_of, chosen)
        _locks(P, objs, e, evs, offers, ended, spawn_pos, bad)
        end = e["end"] or ""
        if end.startswith("E fail") and not end.startswith("E fail deadlock") and "max_steps" not in end and \
                "vp-panic" not in end:
            bad.append(("a tokio operation panicked under Shuttle: " + end[7:], "C19:panic"))
    # one report per signature is enough
    seen, out = set(), []
    for w, s in bad:
        if s not in seen:
            seen.add(s)
            out.append((w, s))
    return out


if __name__ == "__main__":
    import sys
    from corr import split_sections, split_programs
    progs = split_programs(open(sys.argv[1]).read().split("\n"))
    secs, order = split_sections(open(sys.argv[2]).read().split("\n"))
    for name, pl in progs.items():
        r = o_tokio(pl, secs.get(name, []))
        for w, s in r:
            print(f"{name}: {s}: {w}")
