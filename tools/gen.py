"""Type-directed generator of IR programs (DESIGN.md §4.2). Everything derives from one `Rng`."""
from vlib import Rng


class Gen:
    def __init__(self, rng, profile):
        self.r = rng
        self.p = profile

    # ------------------------------------------------------------------ helpers
    def pick_objs(self):
        p, r = self.p, self.r
        objs = []
        for kind, (lo, hi) in p.get("objs", {}).items():
            for i in range(lo + r.below(hi - lo + 1)):
                name = f"{kind[0]}{kind[-1]}{i}" if kind not in ("atomic", "mutex") else f"{kind[0]}{i}"
                if kind == "atomic":
                    objs.append((name, kind, [str(r.choice([0, 1, 5, 2**64 - 1, 2**63]))]))
                elif kind in ("mutex", "rwlock"):
                    objs.append((name, kind, [str(r.below(4))]))
                elif kind == "barrier":
                    objs.append((name, kind, [str(r.choice([0, 1, 2, 2, 3]))]))
                elif kind == "chan":
                    objs.append((name, kind, [r.choice(["unb", "rdv", "cap:1", "cap:2"])]))
                elif kind == "sem":
                    objs.append((name, kind, [str(r.choice([0, 1, 2, 3])), r.choice(["fair", "unfair"])]))
                else:
                    objs.append((name, kind, []))
        return objs

    def names(self, objs, kind):
        return [n for n, k, _ in objs if k == kind]

    def atomic_op(self, objs):
        r = self.r
        a = r.choice(self.names(objs, "atomic"))
        v = r.choice([0, 1, 1, 2, 3, 2**64 - 1, 2**63, 2**64 - 2])
        op = r.choice(["aload", "aload", "astore", "aswap", "aadd", "aadd", "asub", "aand", "aor", "axor", "anand",
                       "amax", "amin", "acas"])
        if op == "aload":
            return [f"aload {a}"]
        if op == "acas":
            return [f"acas {a} {r.choice([0, 1, 2, v])} {r.choice([0, 1, 7, v])}"]
        return [f"{op} {a} {v}"]

    def simple_op(self, objs, ntasks):
        r, w = self.r, self.p.get("weights", {})
        kinds = []
        for k, wt in w.items():
            kinds += [k] * wt
        k = r.choice(kinds) if kinds else "yield"
        if k == "atomic" and self.names(objs, "atomic"):
            return self.atomic_op(objs)
        if k == "yield":
            return ["yield"]
        if k == "sleep":
            return ["sleep"]
        if k == "rand":
            return ["rand"]
        if k == "ctx":
            return ["ctx"]
        if k == "unpark":
            return [f"unpark {r.below(ntasks)}"]
        if k == "park":
            return ["park"]
        if k == "lock" and self.names(objs, "mutex"):
            return self.lock_block(objs, ntasks, 0)
        if k == "rw" and self.names(objs, "rwlock"):
            return self.rw_block(objs, ntasks)
        if k == "reset":
            return ["reset_steps"]
        return ["yield"]

    def inner_ops(self, objs, ntasks, depth):
        r = self.r
        out = []
        for _ in range(r.below(3)):
            c = r.below(10)
            if c < 5 and self.names(objs, "atomic"):
                out += self.atomic_op(objs)
            elif c < 7:
                out.append("yield")
            elif c < 8 and depth < 2 and self.names(objs, "mutex"):
                out += self.lock_block(objs, ntasks, depth + 1)
            else:
                out.append("rand")
        return out

    def lock_block(self, objs, ntasks, depth):
        r = self.r
        m = r.choice(self.names(objs, "mutex"))
        inner = self.inner_ops(objs, ntasks, depth)
        if r.chance(1, 4):
            inner.append(f"setval {m} {r.below(9)}")
        if r.chance(1, 4):
            body = inner + ([] if r.chance(1, 5) else [f"unlock {m}"])
            return [f"trylock {m}", f"if wouldblock skip {len(body)}"] + body
        if r.chance(1, 30):
            return [f"lock {m}", f"lock {m}"]          # re-entrant: diagnosed
        if r.chance(1, 8):
            return [f"lock {m}"] + inner               # guard held until task end
        return [f"lock {m}"] + inner + [f"unlock {m}"]

    def rw_block(self, objs, ntasks):
        r = self.r
        l = r.choice(self.names(objs, "rwlock"))
        inner = self.inner_ops(objs, ntasks, 2)
        c = r.below(12)
        if c < 4:
            return [f"read {l}"] + inner + [f"unread {l}"]
        if c < 7:
            return [f"write {l}"] + inner + [f"setval {l} {r.below(9)}", f"unwrite {l}"]
        if c < 9:
            body = inner + [f"unread {l}"]
            return [f"tryread {l}", f"if wouldblock skip {len(body)}"] + body
        if c < 11:
            body = inner + [f"unwrite {l}"]
            return [f"trywrite {l}", f"if wouldblock skip {len(body)}"] + body
        # read then try_read by the same task (F3 shape), then a writer attempt
        return [f"read {l}", f"tryread {l}", f"if wouldblock skip 1", f"unread {l}", f"unread {l}", f"trywrite {l}",
                "if wouldblock skip 1", f"unwrite {l}"]

    # ------------------------------------------------------------------ program
    def program(self, name, run):
        r, p = self.r, self.p
        objs = self.pick_objs()
        nt = 1 + p.get("min_tasks", 1) + r.below(p.get("extra_tasks", 2) + 1)
        bodies = [[] for _ in range(nt)]
        for k in range(nt):
            for _ in range(p.get("min_ops", 1) + r.below(p.get("extra_ops", 4))):
                bodies[k] += self.simple_op(objs, nt)
        # spawns: each body k>0 is spawned exactly once by a lower-numbered body
        for k in range(1, nt):
            parent = 0 if r.chance(2, 3) else r.below(k)
            pos = r.below(len(bodies[parent]) + 1) if r.chance(1, 2) else 0
            # never insert between an `if … skip` and the ops it guards
            while pos > 0 and pos < len(bodies[parent]) and self._inside_skip(bodies[parent], pos):
                pos -= 1
            bodies[parent].insert(pos, f"spawn {k}")
            if r.chance(7, 10):
                j = r.choice([parent, parent, 0])
                bodies[j].append(f"join {k}")
        lines = [f"=== {name}", f"config steps={p.get('steps', 'none')} clocks={1 if p.get('clocks', True) else 0}"]
        for n, k, a in objs:
            lines.append(" ".join(["obj", n, k] + a))
        for k, b in enumerate(bodies):
            lines.append(f"task {k} thread")
            lines += ["  " + o for o in b]
            lines.append("end")
        lines.append(f"run {run}")
        return lines

    @staticmethod
    def _inside_skip(ops, pos):
        for i, o in enumerate(ops):
            if o.startswith("if "):
                n = int(o.split()[-1])
                if i < pos <= i + n:
                    return True
        return False


PROFILES = {
    "kernel": {"objs": {"atomic": (1, 2)}, "weights": {"atomic": 5, "yield": 3, "sleep": 1, "rand": 2, "ctx": 1, "park": 1, "unpark": 2},
               "min_tasks": 1, "extra_tasks": 2, "min_ops": 1, "extra_ops": 5},
    "locks": {"objs": {"atomic": (1, 2), "mutex": (1, 2), "rwlock": (0, 1)},
              "weights": {"atomic": 3, "yield": 1, "lock": 5, "rw": 3, "rand": 1},
              "min_tasks": 1, "extra_tasks": 2, "min_ops": 1, "extra_ops": 4},
}


def runs_for(rng, kinds=("random", "pct", "rr", "dfs")):
    k = rng.choice(list(kinds))
    if k == "random":
        return f"random:{rng.below(2**32)}:{2 + rng.below(3)}"
    if k == "pct":
        return f"pct:{rng.below(2**32)}:{1 + rng.below(4)}:{3 + rng.below(3)}"
    if k == "rr":
        return "rr:1"
    if k == "urw":
        return f"urw:{rng.below(2**32)}:{2 + rng.below(3)}"
    return f"dfs:{5 + rng.below(20)}"


def batch(seed, profile, count, prefix, kinds=("random", "pct", "rr", "dfs")):
    rng = Rng(seed)
    g = Gen(rng, PROFILES[profile] if isinstance(profile, str) else profile)
    lines = []
    for i in range(count):
        lines += g.program(f"{prefix}{i}", runs_for(rng, kinds))
    return lines
