"""Type-directed generator of IR programs (DESIGN.md §4.2). Everything derives from one `Rng`."""
from vlib import Rng
import gen_tokio


class Gen:
    def __init__(self, rng, profile):
        self.r = rng
        self.p = profile

    # ------------------------------------------------------------------ helpers
    def pick_objs(self):
        p, r = self.p, self.r
        objs = []
        for kind, (lo, hi) in p.get("objs", {}).items():
            for i in range(lo + r.below(hi - lo + 1)):
                name = f"{kind[0]}{kind[-1]}{i}" if kind not in ("atomic", "mutex") else f"{kind[0]}{i}"
                if kind == "atomic":
                    args = [str(r.choice([0, 1, 5, 2**64 - 1, 2**63, 127, 128, 255, 32768, 2**31]))
                            if p.get("atypes") else str(r.choice([0, 1, 5, 2**64 - 1, 2**63]))]
                    if p.get("atypes"):
                        args.append(r.choice(["u8", "u16", "u32", "u64", "usize", "i8", "i16", "i32", "i64", "isize",
                                              "bool", "i8", "u8"]))
                    objs.append((name, kind, args))
                elif kind in ("mutex", "rwlock", "plmutex", "plrwlock"):
                    objs.append((name, kind, [str(r.below(4))]))
                elif kind == "barrier":
                    objs.append((name, kind, [str(r.choice([0, 1, 2, 2, 3]))]))
                elif kind == "chan":
                    objs.append((name, kind, [r.choice(["unb", "rdv", "cap:1", "cap:2"])]))
                elif kind == "sem":
                    objs.append((name, kind, [str(r.choice([0, 1, 1, 2, 3])), r.choice(["fair", "unfair"])] + (["const"] if r.chance(1, 3) else [])))
                elif kind == "tls":
                    objs.append((name, kind, ["none"]))      # destructor kinds are fixed up below
                elif kind in gen_tokio.KINDS:
                    objs.append((name, kind, gen_tokio.obj_args(r, kind, p)))
                else:
                    objs.append((name, kind, []))
        # thread-local destructors: log / touch another key / lock a mutex
        tls = [i for i, o in enumerate(objs) if o[1] == "tls"]
        mx = [o[0] for o in objs if o[1] == "mutex"]
        for i in tls:
            c = r.below(10)
            if c < 1:
                d = "none"
            elif c < 5 or (len(tls) < 2 and not mx):
                d = "log"
            elif c < 8 and len(tls) >= 2:
                d = "touch:" + objs[r.choice([j for j in tls if j != i] if r.chance(5, 6) else tls)][0]
            elif mx:
                d = "lock:" + r.choice(mx)
            else:
                d = "log"
            objs[i] = (objs[i][0], "tls", [d])
        return objs

    def names(self, objs, kind):
        return [n for n, k, _ in objs if k == kind]

    def atomic_op(self, objs):
        r = self.r
        a = r.choice(self.names(objs, "atomic"))
        v = r.choice([0, 1, 1, 2, 3, 2**64 - 1, 2**63, 2**64 - 2])
        ops = ["aload", "aload", "astore", "aswap", "aadd", "aadd", "asub", "aand", "aor", "axor", "anand",
               "amax", "amin", "acas"]
        if self.p.get("atypes"):
            v = r.choice([0, 1, 1, 2, 3, 127, 128, 129, 200, 255, 256, 32767, 32768, 65535, 2**31 - 1, 2**31, 2**32 - 1,
                          2**64 - 1, 2**63, 2**64 - 2, 2**63 - 1])
            if [o for o in objs if o[0] == a][0][2][1:] == ["bool"]:
                ops = ["aload", "astore", "aswap", "aand", "aor", "axor", "anand", "acas"]
        op = r.choice(ops)
        if op == "aload":
            return [f"aload {a}"]
        if op == "acas":
            return [f"acas {a} {r.choice([0, 1, 2, v])} {r.choice([0, 1, 7, v])}"]
        return [f"{op} {a} {v}"]

    def simple_op(self, objs, ntasks, k=0):
        r, w = self.r, self.p.get("weights", {})
        kinds = []
        for k, wt in w.items():
            kinds += [k] * wt
        body = k
        k = r.choice(kinds) if kinds else "yield"
        if k == "atomic" and self.names(objs, "atomic"):
            return self.atomic_op(objs)
        if k in gen_tokio.BLOCKS:
            return gen_tokio.block(self, k, objs, ntasks, body) or ["yield"]
        if k == "yield":
            return ["yield"]
        if k == "sleep":
            return ["sleep"]
        if k == "rand":
            return ["rand"]
        if k == "ctx":
            return ["ctx"]
        if k == "unpark":
            return [f"unpark {r.below(ntasks)}"]
        if k == "park":
            return ["park"]
        if k == "lock" and self.names(objs, "mutex"):
            return self.lock_block(objs, ntasks, 0)
        if k == "rw" and self.names(objs, "rwlock"):
            return self.rw_block(objs, ntasks)
        if k == "reset":
            return ["reset_steps"]
        if k == "panic":
            return ["panic"]
        if k == "sem" and self.names(objs, "sem"):
            return self.sem_block(objs, ntasks)
        if k == "randpanic":
            # a failure that depends on the random data the execution drew
            # (panics for one or two of the four classes of the draw, so the failing execution is rarely the first)
            keep = [v for v in range(4) if v != r.below(4)][: 2 + r.below(2)]
            skips = [f"if v:{v} skip {len(keep) - i}" for i, v in enumerate(keep)]
            return (["rand"] if r.chance(2, 3) else ["rand", "rand"]) + skips + ["panic"]
        if k == "send" and self.names(objs, "chan"):
            return self.send_block(objs)
        if k == "recv" and self.names(objs, "chan"):
            return self.recv_block(objs, body)
        if k == "cvwait" and self.names(objs, "condvar"):
            return self.cv_wait(objs)
        if k == "cvnotify" and self.names(objs, "condvar"):
            return self.cv_notify(objs)
        if k == "barrier" and self.names(objs, "barrier"):
            b = r.choice(self.names(objs, "barrier"))
            return [f"bwait {b}"] * (2 if r.chance(1, 5) else 1)
        if k == "once" and self.names(objs, "once"):
            o = r.choice(self.names(objs, "once"))
            c = r.below(10)
            if c < 6:
                return [f"call_once {o} {1 + r.below(8)}"]
            if c < 8:
                return [f"is_completed {o}"]
            return [f"once_val {o}"]
        if k == "tls" and self.names(objs, "tls"):
            return [f"tls_with {r.choice(self.names(objs, 'tls'))}"]
        if k == "lazy" and self.names(objs, "lazy"):
            return [f"lazy_get {r.choice(self.names(objs, 'lazy'))}"]
        # wrapper crates (C20): parking_lot, rand, lazy_static
        if k == "plm" and self.names(objs, "plmutex"):
            return self.plm_block(objs, ntasks)
        if k == "plrw" and self.names(objs, "plrwlock"):
            return self.plrw_block(objs, ntasks)
        if k == "wrand":
            return [f"wrand {r.choice(WRAND_KINDS)}"]
        if k == "wlazy" and self.names(objs, "wlazy"):
            return [f"wlazy {r.choice(self.names(objs, 'wlazy'))}"]
        return ["yield"]

    # ---- parking_lot replacements
    def fresh(self):
        """every write stores a value no other write of the program stores"""
        self.nfresh = getattr(self, "nfresh", 0) + 1
        return 10 + self.nfresh

    def pl_inner(self, objs):
        r = self.r
        out = []
        for _ in range(r.below(2)):
            c = r.below(6)
            if c < 2:
                out.append("yield")
            elif c < 3:
                out.append("wrand u64")
            elif c < 4 and self.names(objs, "atomic"):
                out += self.atomic_op(objs)
            elif c < 5 and self.names(objs, "plmutex") and not getattr(self, "_in_plm", False):
                self._in_plm = True
                out += self.plm_block(objs, 0)
                self._in_plm = False
            else:
                out.append("rand")
        return out

    def plm_block(self, objs, ntasks):
        r = self.r
        m = r.choice(self.names(objs, "plmutex"))
        inner = self.pl_inner(objs)
        if r.chance(1, 3):
            inner.append(f"setval {m} {self.fresh()}")
        c = r.below(12)
        if c < 4:
            body = inner + ([] if r.chance(1, 6) else [f"pl_unlock {m}"])
            return [f"pl_try_lock {m}", f"if wouldblock skip {len(body)}"] + body
        if c < 5:
            return [f"pl_lock {m}"] + inner               # guard held until task end
        if c < 6:
            return [f"pl_unlock {m}"]                     # no guard
        return [f"pl_lock {m}"] + inner + [f"pl_unlock {m}"]

    def plrw_block(self, objs, ntasks):
        r = self.r
        q = r.choice(self.names(objs, "plrwlock"))
        inner = self.pl_inner(objs)
        sv = lambda: f"setval {q} {self.fresh()}"
        shapes = self.p.get("plshapes") or list(PL_SHAPES)
        sh = r.choice(shapes)
        if sh == "read":
            return [f"pl_read {q}"] + inner + [f"pl_unread {q}"]
        if sh == "write":
            return [f"pl_write {q}", sv()] + inner + [f"pl_unwrite {q}"]
        if sh == "try_read":
            body = inner + [f"pl_unread {q}"]
            return [f"pl_try_read {q}", f"if wouldblock skip {len(body)}"] + body
        if sh == "try_write":
            body = [sv()] + inner + [f"pl_unwrite {q}"]
            return [f"pl_try_write {q}", f"if wouldblock skip {len(body)}"] + body
        if sh == "upread":
            return [f"pl_upread {q}"] + inner + [f"pl_unupread {q}"]
        if sh == "try_upread":
            body = inner + [f"pl_unupread {q}"]
            return [f"pl_try_upread {q}", f"if wouldblock skip {len(body)}"] + body
        if sh == "upgrade":
            return [f"pl_upread {q}"] + inner + [f"pl_upgrade {q}", sv(), f"pl_unwrite {q}"]
        if sh == "try_upgrade":
            # on failure the upgradable guard is still there: `pl_unupread` reports `noguard` otherwise
            return [f"pl_upread {q}"] + inner + [f"pl_try_upgrade {q}", "if wouldblock skip 2", sv(), f"pl_unwrite {q}",
                                                 f"pl_unupread {q}"]
        if sh == "downgrade":
            return [f"pl_write {q}", sv(), f"pl_downgrade {q}"] + inner + [f"pl_unread {q}"]
        if sh == "down_up":
            return [f"pl_write {q}", sv(), f"pl_down_up {q}"] + inner + [f"pl_unupread {q}"]
        if sh == "to_up_read":
            return [f"pl_upread {q}", f"pl_to_up_read {q}"] + inner + [f"pl_unread {q}"]
        if sh == "down_up_upgrade":
            return [f"pl_write {q}", sv(), f"pl_down_up {q}", f"pl_upgrade {q}", sv(), f"pl_unwrite {q}"]
        if sh == "keep":
            # guard(s) held until the task ends (dropped in reverse order)
            return [r.choice([f"pl_read {q}", f"pl_upread {q}", f"pl_write {q}", f"pl_try_upread {q}"])] + inner
        if sh == "noguard":
            return [r.choice([f"pl_upgrade {q}", f"pl_downgrade {q}", f"pl_unread {q}", f"pl_to_up_read {q}",
                              f"pl_unwrite {q}", f"pl_down_up {q}", f"pl_try_upgrade {q}", f"setval {q} 1"])]
        # two guards of one task on the same lock: read + try_write / upread + try_read / read + try_upread
        a, b, ua, ub = r.choice([("pl_read", "pl_try_write", "pl_unread", "pl_unwrite"),
                                 ("pl_upread", "pl_try_read", "pl_unupread", "pl_unread"),
                                 ("pl_read", "pl_try_upread", "pl_unread", "pl_unupread"),
                                 ("pl_upread", "pl_try_upread", "pl_unupread", "pl_unupread")])
        return [f"{a} {q}", f"{b} {q}", "if wouldblock skip 1", f"{ub} {q}", f"{ua} {q}"]

    # ---- BatchSemaphore
    def sem_block(self, objs, ntasks):
        r = self.r
        s = r.choice(self.names(objs, "sem"))
        n = r.choice([1, 1, 1, 2, 2, 3])
        c = r.below(20)
        inner = self.inner_ops(objs, ntasks, 2) if r.chance(1, 2) else []
        if c < 8:
            rel = [] if r.chance(1, 6) else [f"release {s} {n if r.chance(5, 6) else r.choice([1, 2])}"]
            return [f"acquire {s} {n}"] + inner + rel
        if c < 12:
            body = inner + [f"release {s} {n}"]
            return [f"try_acquire {s} {n}", f"if nopermits skip {len(body)}"] + body
        if c < 15:
            return [f"release {s} {n}"]
        if c < 17:
            return [f"avail {s}"]
        if c < 18:
            return [f"close {s}"]
        return [f"acquire {s} {n}", f"avail {s}"]

    # ---- channels
    def send_block(self, objs):
        r = self.r
        c = r.choice(self.names(objs, "chan"))
        out = []
        for _ in range(1 + r.below(2)):
            out.append(f"{'try_send' if r.chance(1, 4) else 'send'} {c} {1 + r.below(9)}")
        if r.chance(1, 5 if not self.p.get("dl") else 12):
            out.insert(len(out) if r.chance(3, 4) else r.below(len(out) + 1), f"drop_tx {c}")
        return out

    def recv_block(self, objs, body):
        r = self.r
        mine = [c for c in self.names(objs, "chan") if self.rx_owner.get(c) == body]
        if not mine:
            if not r.chance(1, 10):
                return self.send_block(objs)
            mine = self.names(objs, "chan")
        c = r.choice(mine)
        out = []
        for _ in range(1 + r.below(3)):
            out.append(f"{'try_recv' if r.chance(1, 4) else 'recv'} {c}")
        if r.chance(1, 8):
            out.insert(r.below(len(out) + 1), f"drop_rx {c}")
        return out

    # ---- condvar
    def cv_wait(self, objs):
        r = self.r
        cv = r.choice(self.names(objs, "condvar"))
        m = r.choice(self.names(objs, "mutex"))
        c = r.below(10)
        if c < 4:
            # predicate "loop" (unrolled twice): wait only while the flag is 0
            out = [f"lock {m}", "if v:1 skip 1", f"wait {cv} {m}"]
            if r.chance(1, 2):
                out += ["if v:1 skip 1", f"wait {cv} {m}"]
            return out + [f"unlock {m}"]
        if c < 8:
            return [f"lock {m}", f"wait {cv} {m}"] + ([] if r.chance(1, 4) else [f"unlock {m}"])
        if c < 9:
            if r.chance(1, 2):
                return [f"lock {m}", f"wait_while {cv} {m} 0"] + ([] if r.chance(1, 5) else [f"unlock {m}"])
            return [f"wait {cv} {m}"]                                  # no guard
        return [f"lock {m}", f"wait {cv} {m}", f"setval {m} 0", f"unlock {m}"]

    def cv_notify(self, objs):
        r = self.r
        cv = r.choice(self.names(objs, "condvar"))
        m = r.choice(self.names(objs, "mutex"))
        n = "notify_all" if r.chance(1, 3) else "notify_one"
        c = r.below(10)
        if c < 4:
            return [f"lock {m}", f"setval {m} 1", f"unlock {m}", f"{n} {cv}"]
        if c < 6:
            return [f"lock {m}", f"setval {m} 1", f"{n} {cv}", f"unlock {m}"]
        if c < 8:
            return [f"{n} {cv}"]
        return [f"{n} {cv}", f"{'notify_all' if r.chance(1, 2) else 'notify_one'} {cv}"]

    def inner_ops(self, objs, ntasks, depth):
        r = self.r
        out = []
        for _ in range(r.below(3)):
            c = r.below(10)
            if c < 5 and self.names(objs, "atomic"):
                out += self.atomic_op(objs)
            elif c < 7:
                out.append("yield")
            elif c < 8 and depth < 2 and self.names(objs, "mutex"):
                out += self.lock_block(objs, ntasks, depth + 1)
            else:
                out.append("rand")
        return out

    def lock_block(self, objs, ntasks, depth):
        r = self.r
        m = r.choice(self.names(objs, "mutex"))
        inner = self.inner_ops(objs, ntasks, depth)
        if r.chance(1, 4):
            inner.append(f"setval {m} {r.below(9)}")
        if r.chance(1, 4):
            body = inner + ([] if r.chance(1, 5) else [f"unlock {m}"])
            return [f"trylock {m}", f"if wouldblock skip {len(body)}"] + body
        if r.chance(1, 30) and not self.p.get("safe"):
            return [f"lock {m}", f"lock {m}"]          # re-entrant: diagnosed
        if r.chance(1, 8):
            return [f"lock {m}"] + inner               # guard held until task end
        return [f"lock {m}"] + inner + [f"unlock {m}"]

    def rw_block(self, objs, ntasks):
        r = self.r
        l = r.choice(self.names(objs, "rwlock"))
        inner = self.inner_ops(objs, ntasks, 2)
        c = r.below(12)
        if c < 4:
            return [f"read {l}"] + inner + [f"unread {l}"]
        if c < 7:
            return [f"write {l}"] + inner + [f"setval {l} {r.below(9)}", f"unwrite {l}"]
        if c < 9:
            body = inner + [f"unread {l}"]
            return [f"tryread {l}", f"if wouldblock skip {len(body)}"] + body
        if c < 11:
            body = inner + [f"unwrite {l}"]
            return [f"trywrite {l}", f"if wouldblock skip {len(body)}"] + body
        # read then try_read by the same task (F3 shape), then a writer attempt
        return [f"read {l}", f"tryread {l}", f"if wouldblock skip 1", f"unread {l}", f"unread {l}", f"trywrite {l}",
                "if wouldblock skip 1", f"unwrite {l}"]

    # ------------------------------------------------------------------ program
    def program(self, name, run):
        r, p = self.r, self.p
        objs = self.pick_objs()
        nt = 1 + p.get("min_tasks", 1) + r.below(p.get("extra_tasks", 2) + 1)
        bodies = [[] for _ in range(nt)]
        # each channel has one designated receiving body (task 0, or a child the receiver moves to)
        self.rx_owner = {c: (0 if r.chance(1, 2) else r.below(nt)) for c in self.names(objs, "chan")}
        for k in range(nt):
            for _ in range(p.get("min_ops", 1) + r.below(p.get("extra_ops", 4))):
                bodies[k] += self.simple_op(objs, nt, k)
        scoped = {}
        if p.get("scope"):
            # some children are spawned as scoped threads: grouped per parent into one `thread::scope`
            for k in range(1, nt):
                if r.chance(p["scope"], 10):
                    parent = 0 if r.chance(2, 3) else r.below(k)
                    scoped.setdefault(parent, []).append(k)
            for parent, kids in scoped.items():
                blk = ["scope_begin"]
                for kid in kids:
                    blk.append(f"scope_spawn {kid}")
                    for _ in range(r.below(2)):
                        blk += self.simple_op(objs, nt, parent)
                blk.append("scope_end")
                pos = r.below(len(bodies[parent]) + 1) if r.chance(1, 2) else 0
                while pos > 0 and pos < len(bodies[parent]) and self._inside_skip(bodies[parent], pos):
                    pos -= 1
                bodies[parent][pos:pos] = blk
        scoped_kids = {kid for kids in scoped.values() for kid in kids}
        # spawns: each body k>0 is spawned exactly once by a lower-numbered body
        for k in range(1, nt):
            if k in scoped_kids:
                continue
            parent = 0 if r.chance(*p.get("parent0", (2, 3))) else r.below(k)
            pos = r.below(len(bodies[parent]) + 1) if r.chance(1, 2) else 0
            # never insert between an `if … skip` and the ops it guards
            while pos > 0 and pos < len(bodies[parent]) and self._inside_skip(bodies[parent], pos):
                pos -= 1
            bodies[parent].insert(pos, f"spawn {k}")
            if r.chance(7, 10):
                j = r.choice([parent, parent, 0])
                bodies[j].append(f"join {k}")
        lines = [f"=== {name}", f"config steps={p.get('steps', 'none')} clocks={1 if p.get('clocks', True) else 0}"]
        for n, k, a in objs:
            lines.append(" ".join(["obj", n, k] + a))
        for k, b in enumerate(bodies):
            lines.append(f"task {k} thread")
            lines += ["  " + o for o in b]
            lines.append("end")
        lines.append(f"run {run}")
        return lines

    # ------------------------------------------------------------------ directed channel shapes (profile flag "chanshape")
    def program_chanshape(self, name, run):
        """one channel, 2–3 sender bodies racing on it, one receiver (task 0 or a child); endpoints dropped at chosen
        points; small enough for the schedule tree to be explored (almost) exhaustively"""
        r = self.r
        kind = r.choice(["rdv", "rdv", "cap:1", "cap:1", "cap:2", "unb", "unb"])
        ns = 2 + (1 if r.chance(1, 3) else 0)
        rx_child = r.chance(1, 4)
        nt = 1 + ns + (1 if rx_child else 0)
        bodies = [[] for _ in range(nt)]
        senders = list(range(1, 1 + ns))
        rxb = nt - 1 if rx_child else 0
        total = 0
        for k in senders:
            c = r.below(10)
            if c < 1:
                ops = ["drop_tx c0"]                       # a clone that is dropped unused
            elif c < 2:
                ops = ["yield"]                            # … dropped implicitly at the end (has to use tx to get one)
                ops.append("drop_tx c0")
            else:
                ops = []
                for _ in range(1 + r.below(2)):
                    ops.append(f"{'try_send' if r.chance(1, 5) else 'send'} c0 {10 * k + len(ops)}")
                    total += 1
                if r.chance(1, 4):
                    ops.insert(r.below(len(ops) + 1), "yield")
                if r.chance(1, 4):
                    ops.append("drop_tx c0")
            bodies[k] = ops
        nrecv = max(0, total - r.below(3)) if not r.chance(1, 6) else total + 1
        rops = [f"{'try_recv' if r.chance(1, 6) else 'recv'} c0" for _ in range(nrecv)]
        if r.chance(1, 3):
            rops.insert(r.below(len(rops) + 1), "drop_rx c0")
        main = []
        for k in senders:
            main.append(f"spawn {k}")
        if r.chance(1, 2):
            main.insert(r.below(len(main) + 1), "drop_tx c0")      # main's own sender handle goes away early
        elif r.chance(1, 3):
            main.append(f"send c0 {1 + r.below(9)}")
        if rx_child:
            bodies[rxb] = rops
            main.insert(r.below(len(main) + 1), f"spawn {rxb}")
        else:
            main += rops
        if r.chance(1, 2):
            for k in range(1, nt):
                if r.chance(2, 3):
                    main.append(f"join {k}")
        bodies[0] = main
        lines = [f"=== {name}", "config steps=none clocks=1", f"obj c0 chan {kind}"]
        for k, b in enumerate(bodies):
            lines.append(f"task {k} thread")
            lines += ["  " + o for o in b]
            lines.append("end")
        lines.append(f"run {run}")
        return lines

    # ------------------------------------------------------------------ directed poisoning shapes (profile flag "poisonshape")
    def program_poisonshape(self, name, run):
        """a task panics while it holds two or three guards: the guards are dropped most recent first and every drop is
        a scheduling point, so the other tasks get to run while the earlier-dropped locks are already released and
        poisoned (or, for a panicking *reader*, not poisoned)"""
        r = self.r
        objs = [("l0", "rwlock", [str(r.below(4))]), ("m0", "mutex", [str(r.below(4))]), ("m1", "mutex", [str(r.below(4))])]
        nb = 2 + (1 if r.chance(1, 2) else 0)
        inner = r.choice([["write l0"], ["write l0", "setval l0 7"], ["read l0"], ["lock m1"], ["lock m1", "setval m1 7"],
                          ["write l0"], ["lock m1", "write l0"], ["trywrite l0"], ["tryread l0"]])
        objs.append(("m2", "mutex", ["0"]))
        # (a waiter that is *queued* when a panicking holder releases is dropped from the queue for good, so the observers
        # must arrive later: they start with a few yields, and the panicker holds two more guards = two windows)
        a = ["lock m0", "lock m2"] + inner + (["yield"] if r.chance(1, 6) else []) + ["panic"]
        if r.chance(1, 6):
            a = inner + ["lock m0", "panic"]                 # the other drop order
        bodies = [[], a]
        for _ in range(nb):
            ops = ["yield"] * r.below(3)
            for _ in range(2 + r.below(3)):
                c = r.below(9)
                if c < 3:
                    ops += ["read l0", "unread l0"]
                elif c < 5:
                    ops += ["write l0", "unwrite l0"]
                elif c < 6:
                    ops += ["tryread l0", "if wouldblock skip 1", "unread l0"]
                elif c < 7:
                    ops += ["trywrite l0", "if wouldblock skip 1", "unwrite l0"]
                elif c < 8:
                    ops += ["lock m1", "unlock m1"]
                else:
                    ops += ["trylock m1", "if wouldblock skip 1", "unlock m1"]
            bodies.append(ops)
        main = [f"spawn {k}" for k in range(1, len(bodies))]
        if r.chance(1, 2):
            main.reverse()
        if r.chance(1, 2):
            main += r.choice([["read l0", "unread l0"], ["write l0", "unwrite l0"], ["lock m1", "unlock m1"]])
        bodies[0] = main
        lines = [f"=== {name}", "config steps=none clocks=1"]
        for n, k, args in objs:
            lines.append(" ".join(["obj", n, k] + args))
        for k, b in enumerate(bodies):
            lines.append(f"task {k} thread")
            lines += ["  " + o for o in b]
            lines.append("end")
        lines.append(f"run {run}")
        return lines

    # ------------------------------------------------------------------ directed semaphore shapes (profile flag "semshape")
    def program_semshape(self, name, run):
        """one BatchSemaphore (fair or unfair, 0–2 permits), two `Acquire` slots shared by all bodies: acquisitions are
        created by one task, polled / awaited / dropped by another, interleaved with release, close, try_acquire and
        availability probes; small enough for (almost) exhaustive exploration"""
        r = self.r
        fair = r.choice(["fair", "unfair"])
        permits = r.choice([0, 1, 1, 2])
        nt = 3 + (1 if r.chance(1, 3) else 0)
        is_fut = [False] + [r.chance(1, 2) for _ in range(1, nt)]
        bodies = [[] for _ in range(nt)]

        def aw(k, x):
            return x if is_fut[k] else "block_on " + x

        def seq(k):
            n = r.choice([1, 1, 2, 2, 3])
            h = r.below(2)
            c = r.below(24)
            if c < 3:
                return [f"acq_new {h} s0 {n}", f"acq_poll {h}"]                       # queued (or granted), left in the table
            if c < 5:
                return [f"acq_new {h} s0 {n}"]
            if c < 9:
                return [f"acq_poll {h}"]                                               # re-poll: maybe someone else's
            if c < 11:
                return [aw(k, f"acq_await {h}")]
            if c < 14:
                return [f"acq_drop {h}"]
            if c < 18:
                return [f"release s0 {r.choice([1, 1, 2])}"]
            if c < 20:
                return ["close s0"]
            if c < 22:
                return [f"try_acquire s0 {n}"]
            if c < 23:
                return [f"acquire s0 {n}"]
            return ["avail s0"]

        # most programs follow one of a few stories (the op lists of up to three bodies), perturbed by random extras
        n1, n2 = r.choice([1, 1, 2, 2, 3]), r.choice([1, 1, 2])
        h = r.below(2)
        stories = [
            # an acquisition is queued, granted by a release, the semaphore is closed, the acquisition is dropped unpolled
            [[f"acq_new {h} s0 {n1}", f"acq_poll {h}"], [f"release s0 {n1}", "close s0"], [f"acq_drop {h}", "avail s0"]],
            [[f"acq_new {h} s0 {n1}", f"acq_poll {h}", f"acq_drop {h}", "avail s0"], [f"release s0 {n1}"], ["close s0", "avail s0"]],
            # an acquisition created and polled by one task is re-polled / awaited by another; the first one ends
            [[f"acq_new {h} s0 {n1}", f"acq_poll {h}"], [f"acq_poll {h}", "AWAIT"], [f"release s0 {n1}", "avail s0"]],
            [[f"acq_new {h} s0 {n1}", f"acq_poll {h}"], ["AWAIT", f"release s0 {n1}"], [f"release s0 {n2}", f"release s0 {n1}"]],
            # fairness: a large request waits at the head; smaller requests and try_acquire arrive
            [[f"acquire s0 {n1 + 1}", "avail s0"], [f"try_acquire s0 {n2}", "avail s0"], [f"release s0 {n2}", f"release s0 {n1}"]],
            [[f"acq_new {h} s0 {n1 + 1}", f"acq_poll {h}", "AWAIT"], [f"acquire s0 {n2}", f"release s0 {n2}"], [f"release s0 {n1}", f"try_acquire s0 {n2}"]],
            # close racing queued and later acquisitions
            [[f"acq_new {h} s0 {n1}", "AWAIT"], ["close s0", f"release s0 {n1}"], [f"try_acquire s0 {n2}", f"acquire s0 {n2}"]],
        ]
        if r.chance(5, 6):
            si = r.below(len(stories))
            st = stories[si]
            # the story's precondition: the first acquisition has to queue (too few permits), mostly
            if r.chance(4, 5):
                permits = r.below(n1) if si != 4 else r.below(n1 + 1)
            if si in (0, 1) and r.chance(2, 3):
                fair = "fair"
            order = [1, 2, 3][:nt - 1]
            if r.chance(1, 2):
                order.reverse()
            for role, k in zip(st, order):
                bodies[k] = [aw(k, f"acq_await {h}") if o == "AWAIT" else o for o in role]
            if nt - 1 < len(st):
                bodies[0] += [aw(0, f"acq_await {h}") if o == "AWAIT" else o for o in st[-1]]
            for k in range(nt):
                if r.chance(1, 3):
                    bodies[k].insert(r.below(len(bodies[k]) + 1), seq(k)[0])
        else:
            for k in range(nt):
                for _ in range(1 + r.below(3)):
                    bodies[k] += seq(k)
                if r.chance(1, 3):
                    bodies[k].append("avail s0")
        main = bodies[0]
        for k in range(1, nt):
            main.insert(r.below(len(main) + 1) if r.chance(1, 3) else 0, f"{'fspawn' if is_fut[k] else 'spawn'} {k}")
        if r.chance(1, 2):
            main.append("avail s0")
        lines = [f"=== {name}", "config steps=none clocks=1", f"obj s0 sem {permits} {fair}" + (" const" if r.chance(1, 3) else "")]
        for k, b in enumerate(bodies):
            lines.append(f"task {k} {'future' if is_fut[k] else 'thread'}")
            lines += ["  " + o for o in b]
            lines.append("end")
        lines.append(f"run {run}")
        return lines

    # ------------------------------------------------------------------ directed condvar shapes (profile flag "cvshape")
    def program_cvshape(self, name, run):
        """2–3 waiters on one condvar and 1–3 notify_one / notify_all calls issued by main and by a notifier task, some
        of them between the arrivals of the waiters (yields stagger them); DFS explores the tree (a run stops at its
        first deadlock, so the same program is also run under random schedulers)"""
        r = self.r
        nw = 2 + (1 if r.chance(2, 3) else 0)
        bodies = [[]]
        for k in range(1, nw + 1):
            b = ["yield"] * r.below(3) + ["lock m0", "wait cv0 m0"]
            if r.chance(1, 4):
                b += ["wait cv0 m0"]
            b += ["unlock m0"]
            bodies.append(b)
        def notifs():
            out = []
            for _ in range(1 + r.below(2)):
                out.append("notify_all cv0" if r.chance(1, 5) else "notify_one cv0")
                if r.chance(1, 2):
                    out.append("yield")
            return out
        nt_body = ["yield"] * r.below(3) + notifs()
        bodies.append(nt_body)
        main = [f"spawn {k}" for k in range(1, len(bodies))]
        if r.chance(1, 2):
            main.reverse()
        main += ["yield"] * r.below(3) + notifs()
        if r.chance(1, 3):
            main += ["notify_all cv0"]
        bodies[0] = main
        lines = [f"=== {name}", "config steps=none clocks=1", "obj m0 mutex 0", "obj cv0 condvar"]
        for k, b in enumerate(bodies):
            lines.append(f"task {k} thread")
            lines += ["  " + o for o in b]
            lines.append("end")
        lines.append(f"run {run}")
        return lines

    # ------------------------------------------------------------------ async layer (profiles with "async")
    def async_leaf(self, objs, k, nt, fut):
        """one awaitable: the tokens of an async op"""
        r, p = self.r, self.p
        ws = self.names(objs, "wslot")
        others = [j for j in range(1, nt) if j != k and self.is_fut[j]]
        c = r.below(10)
        if c < 4 and ws:
            w = r.choice(ws)
            self.pends.append((k, w))
            return f"pend {w}"
        if c < 6:
            return "fyield"
        if c < 8 and others:
            return f"fjoin {k if fut and r.chance(1, 15) else r.choice(others)}"
        if self.names(objs, "sem") and p.get("asem"):
            return f"acq_await {r.below(3)}"
        return "fyield"

    def async_op(self, objs, k, nt, fut):
        """ops for body k of an async program; fut = body k is a future"""
        r, p = self.r, self.p
        w = p.get("aweights", {})
        kinds = []
        for kk, wt in w.items():
            kinds += [kk] * wt
        c = r.choice(kinds)
        ws = self.names(objs, "wslot")
        futs = [j for j in range(1, nt) if self.is_fut[j]]
        others = [j for j in futs if j != k]
        if c == "await":
            leaf = self.async_leaf(objs, k, nt, fut)
            if fut and not r.chance(1, 6):
                return [leaf]
            return ["block_on " + ("block_on " if r.chance(1, 10) else "") + leaf]
        if c == "wake" and ws:
            return [f"{'wake_only' if r.chance(1, 4) else 'wake'} {r.choice(ws)}"]
        if c == "abort" and futs:
            j = r.choice(others if others and not r.chance(1, 8) else futs)
            out = [f"fabort {j}"]
            if r.chance(1, 4):
                out.append(f"fabort {j}")
            if r.chance(1, 3):
                out.append(f"fis_finished {j}")
            return out
        if c == "detach" and others:
            return [f"fdetach {r.choice(others)}"]
        if c == "pendthen" and fut and ws:
            # a leaf future that blocks in a synchronous operation in the middle of its poll, waker already published
            w = r.choice(ws)
            self.pends.append((k, w))
            chans = self.names(objs, "chan")
            # (not `yield`: it wakes its own task, so the poll loop would spin for ever; `park` inside a poll leaves a
            # future task blocked where only an `unpark` / a spurious wake-up resumes it)
            inner = r.choice(["park"] + ([f"recv {chans[0]}", f"recv {chans[0]}", f"try_recv {chans[0]}"] if chans else []))
            return [f"pend_then {w} {inner}"]
        if c == "fpoll" and futs:
            # poll a JoinHandle once without awaiting it (the handle stays usable by any task when Pending)
            return [f"fpoll {r.choice(others if others and not r.chance(1, 10) else futs)}"]
        if c == "isfin" and futs:
            return [f"fis_finished {r.choice(futs)}"]
        if c == "lockawait" and self.names(objs, "mutex"):
            m = r.choice(self.names(objs, "mutex"))
            inner = [self.async_leaf(objs, k, nt, fut)] if fut else ["yield"]
            if r.chance(1, 3) and self.names(objs, "atomic"):
                inner += self.atomic_op(objs)
            return [f"lock {m}"] + inner + ([] if r.chance(1, 6) else [f"unlock {m}"])
        if c == "asem" and self.names(objs, "sem"):
            return self.asem_block(objs, k, nt, fut)
        if c == "sem" and self.names(objs, "sem"):
            return self.sem_block(objs, nt)
        if c == "atomic" and self.names(objs, "atomic"):
            return self.atomic_op(objs)
        if c == "lock" and self.names(objs, "mutex"):
            return self.lock_block(objs, nt, 1)
        if c == "tls" and self.names(objs, "tls"):
            return [f"tls_with {r.choice(self.names(objs, 'tls'))}"]
        if c == "send" and self.names(objs, "chan"):
            return self.send_block(objs)
        if c == "recv" and self.names(objs, "chan"):
            return self.recv_block(objs, k)
        if c == "park":
            return ["park"]
        if c == "unpark":
            return [f"unpark {r.below(nt)}"]
        if c == "yield":
            return ["yield"]
        if c == "rand":
            return ["rand"]
        if c == "panic":
            return ["panic"]
        return ["fyield"] if fut else ["yield"]

    def asem_block(self, objs, k, nt, fut):
        r = self.r
        s = r.choice(self.names(objs, "sem"))
        n = r.choice([1, 1, 1, 2, 2, 3])
        h = r.below(3)
        aw = (lambda x: x) if fut else (lambda x: "block_on " + x)
        c = r.below(20)
        if c < 6:
            rel = [] if r.chance(1, 6) else [f"release {s} {n}"]
            return [f"acq_new {h} {s} {n}", aw(f"acq_await {h}")] + rel
        if c < 9:
            # poll once by hand, await only if still pending
            return [f"acq_new {h} {s} {n}", f"acq_poll {h}", "if ready:ok skip 1", aw(f"acq_await {h}"), f"release {s} {n}"]
        if c < 11:
            return [f"acq_new {h} {s} {n}", f"acq_poll {h}", f"acq_drop {h}"]          # cancel while queued
        if c < 13:
            return [f"acq_new {h} {s} {n}"] + ([f"acq_poll {h}"] if r.chance(1, 2) else [])   # left for another task
        if c < 15:
            return [f"acq_poll {h}"] * (2 if r.chance(1, 4) else 1)                     # someone else's future
        if c < 16:
            return [aw(f"acq_await {h}")]
        if c < 17:
            return [f"acq_drop {h}"]
        if c < 19:
            return [f"release {s} {n}"]
        return [f"close {s}"] if r.chance(1, 2) else [f"try_acquire {s} {n}"]

    def program_async(self, name, run):
        r, p = self.r, self.p
        objs = self.pick_objs()
        nt = 1 + p.get("min_tasks", 1) + r.below(p.get("extra_tasks", 2) + 1)
        self.is_fut = [False] + [r.chance(p.get("fut", 8), 10) for _ in range(1, nt)]
        if not any(self.is_fut):
            self.is_fut[1] = True
        self.rx_owner = {c: (0 if r.chance(1, 2) else r.below(nt)) for c in self.names(objs, "chan")}
        self.pends = []
        bodies = [[] for _ in range(nt)]
        for k in range(nt):
            for _ in range(p.get("min_ops", 1) + r.below(p.get("extra_ops", 3))):
                bodies[k] += self.async_op(objs, k, nt, self.is_fut[k])
        # most `pend w` get a matching `wake w` somewhere else
        for (k, w) in self.pends:
            if r.chance(p.get("wake_pairs", 8), 10):
                j = r.choice([x for x in range(nt) if x != k] or [0])
                pos = r.below(len(bodies[j]) + 1)
                while pos > 0 and pos < len(bodies[j]) and self._inside_skip(bodies[j], pos):
                    pos -= 1
                bodies[j].insert(pos, f"wake {w}")
        for k in range(1, nt):
            parent = 0 if r.chance(*p.get("parent0", (2, 3))) else r.below(k)
            pos = r.below(len(bodies[parent]) + 1) if r.chance(1, 2) else 0
            while pos > 0 and pos < len(bodies[parent]) and self._inside_skip(bodies[parent], pos):
                pos -= 1
            bodies[parent].insert(pos, f"{'fspawn' if self.is_fut[k] else 'spawn'} {k}")
            if r.chance(p.get("joins", 7), 10):
                j = r.choice([parent, parent, 0])
                if not self.is_fut[k]:
                    bodies[j].append(f"join {k}")
                elif self.is_fut[j] and not r.chance(1, 8):
                    bodies[j].append(f"fjoin {k}")
                else:
                    bodies[j].append(f"fjoin_block {k}" if r.chance(1, 2) else f"block_on fjoin {k}")
            elif self.is_fut[k] and r.chance(p.get("detaches", 3), 10):
                bodies[parent].append(f"fdetach {k}")
        lines = [f"=== {name}", f"config steps={p.get('steps', 'none')} clocks={1 if p.get('clocks', True) else 0}"]
        for n, k, a in objs:
            lines.append(" ".join(["obj", n, k] + a))
        for k, b in enumerate(bodies):
            lines.append(f"task {k} {'future' if self.is_fut[k] else 'thread'}")
            lines += ["  " + o for o in b]
            lines.append("end")
        lines.append(f"run {run}")
        return lines

    @staticmethod
    def _inside_skip(ops, pos):
        for i, o in enumerate(ops):
            if o.startswith("if "):
                n = int(o.split()[-1])
                if i < pos <= i + n:
                    return True
        return False


PL_SHAPES = ("read", "read", "write", "write", "try_read", "try_write", "upread", "try_upread", "upgrade", "upgrade",
             "try_upgrade", "downgrade", "down_up", "down_up", "to_up_read", "down_up_upgrade", "keep", "noguard", "two")
WRAND_KINDS = ("u64", "u32", "bool", "range", "random", "std", "entropy", "seed", "default", "fill", "choose")

PROFILES = {
    # C20: parking_lot replacements (mixed), upgradable readers racing writers and readers, rand / lazy_static wrappers
    "pl": {"objs": {"plmutex": (0, 1), "plrwlock": (1, 1), "atomic": (0, 1)},
           "weights": {"plm": 3, "plrw": 7, "yield": 1, "wrand": 1, "panic": 1},
           "min_tasks": 1, "extra_tasks": 1, "min_ops": 1, "extra_ops": 2},
    "pl_upgrade": {"objs": {"plrwlock": (1, 1)},
                   "plshapes": ("upgrade", "upgrade", "write", "down_up", "down_up", "upread", "read", "try_upgrade",
                                "down_up_upgrade", "try_write"),
                   "weights": {"plrw": 9, "yield": 1},
                   "min_tasks": 1, "extra_tasks": 1, "min_ops": 1, "extra_ops": 1},
    "wrand": {"objs": {"wlazy": (0, 2), "atomic": (0, 1), "plmutex": (0, 1)},
              "weights": {"wrand": 7, "wlazy": 2, "rand": 1, "yield": 1, "atomic": 1, "plm": 1},
              "min_tasks": 1, "extra_tasks": 2, "min_ops": 1, "extra_ops": 4},
    "kernel": {"objs": {"atomic": (1, 2)}, "weights": {"atomic": 5, "yield": 3, "sleep": 1, "rand": 2, "ctx": 1, "park": 1, "unpark": 2},
               "min_tasks": 1, "extra_tasks": 2, "min_ops": 1, "extra_ops": 5},
    # park / unpark token semantics (one unpark satisfies exactly one park; spurious wake-ups are the scheduler's choice)
    "park": {"objs": {"atomic": (1, 1)}, "weights": {"park": 5, "unpark": 4, "atomic": 1, "yield": 2},
             "min_tasks": 2, "extra_tasks": 1, "min_ops": 2, "extra_ops": 3},
    "sem": {"objs": {"atomic": (1, 1), "sem": (1, 2)},
            "weights": {"sem": 7, "atomic": 1, "yield": 1, "rand": 1},
            "min_tasks": 1, "extra_tasks": 2, "min_ops": 1, "extra_ops": 3},
    "chan": {"objs": {"atomic": (0, 1), "chan": (1, 2)}, "parent0": (9, 10),
             "weights": {"send": 5, "recv": 4, "atomic": 1, "yield": 1},
             "min_tasks": 1, "extra_tasks": 2, "min_ops": 1, "extra_ops": 3},
    "chan_shape": {"chanshape": True, "dfs_iters": 1500, "objs": {}},
    "cv_shape": {"cvshape": True, "replicate": 5, "replicate_iters": 8, "objs": {}},
    # park / unpark tokens crossing other blocking primitives (a token must survive being blocked and unblocked elsewhere)
    "park_mix": {"objs": {"mutex": (1, 1), "barrier": (0, 1), "chan": (0, 1), "atomic": (0, 1)},
                 "weights": {"park": 4, "unpark": 5, "lock": 4, "barrier": 1, "send": 1, "recv": 1, "yield": 2},
                 "min_tasks": 2, "extra_tasks": 1, "min_ops": 2, "extra_ops": 3},
    "sem_shape": {"semshape": True, "dfs_iters": 1200, "objs": {}},
    "poison_shape": {"poisonshape": True, "replicate": 8, "objs": {}},
    "chan_dl": {"objs": {"chan": (1, 2), "mutex": (0, 1)}, "dl": True, "parent0": (9, 10),
                "weights": {"send": 4, "recv": 5, "lock": 1, "yield": 1, "panic": 1},
                "min_tasks": 1, "extra_tasks": 2, "min_ops": 1, "extra_ops": 3},
    "condvar": {"objs": {"mutex": (1, 2), "condvar": (1, 2), "atomic": (0, 1)},
                "weights": {"cvwait": 5, "cvnotify": 5, "lock": 1, "yield": 1, "atomic": 1},
                "min_tasks": 1, "extra_tasks": 2, "min_ops": 1, "extra_ops": 2},
    "condvar_dl": {"objs": {"mutex": (1, 1), "condvar": (1, 1)},
                   "weights": {"cvwait": 6, "cvnotify": 3, "yield": 1, "panic": 1},
                   "min_tasks": 1, "extra_tasks": 2, "min_ops": 1, "extra_ops": 2},
    "barrier": {"objs": {"barrier": (1, 2), "atomic": (0, 1)},
                "weights": {"barrier": 6, "atomic": 1, "yield": 1, "rand": 1},
                "min_tasks": 1, "extra_tasks": 2, "min_ops": 1, "extra_ops": 3},
    "once": {"objs": {"once": (1, 2), "atomic": (0, 1), "lazy": (0, 2)},
             "weights": {"once": 6, "lazy": 2, "atomic": 1, "yield": 1, "panic": 1},
             "min_tasks": 1, "extra_tasks": 2, "min_ops": 1, "extra_ops": 3},
    "scope": {"objs": {"atomic": (1, 1), "mutex": (1, 1), "chan": (0, 1), "barrier": (0, 1)}, "scope": 7,
              "weights": {"atomic": 2, "lock": 3, "send": 2, "recv": 2, "barrier": 1, "yield": 1, "park": 1, "unpark": 1},
              "min_tasks": 1, "extra_tasks": 2, "min_ops": 1, "extra_ops": 3},
    "tls": {"objs": {"tls": (1, 4), "mutex": (1, 1), "atomic": (0, 1)}, "scope": 2,
            "weights": {"tls": 6, "lock": 2, "atomic": 1, "yield": 1, "panic": 1},
            "min_tasks": 1, "extra_tasks": 2, "min_ops": 1, "extra_ops": 4},
    "stdmix": {"objs": {"atomic": (0, 1), "mutex": (1, 1), "condvar": (0, 1), "chan": (0, 2), "barrier": (0, 1),
                        "once": (0, 1), "sem": (0, 1), "tls": (0, 2), "lazy": (0, 1)}, "scope": 3,
               "weights": {"atomic": 1, "lock": 2, "cvwait": 2, "cvnotify": 2, "send": 2, "recv": 2, "barrier": 1,
                           "once": 1, "sem": 2, "tls": 1, "lazy": 1, "yield": 1, "panic": 1},
               "min_tasks": 1, "extra_tasks": 2, "min_ops": 1, "extra_ops": 3},
    "atomics": {"objs": {"atomic": (1, 3)}, "atypes": True,
                "weights": {"atomic": 8, "yield": 1, "rand": 1},
                "min_tasks": 1, "extra_tasks": 2, "min_ops": 2, "extra_ops": 5},
    # ---- async layer (C17): `program_async`
    "async": {"async": True, "objs": {"atomic": (1, 1), "mutex": (0, 1), "wslot": (1, 2), "tls": (0, 1)},
              "aweights": {"await": 8, "wake": 3, "atomic": 3, "lock": 1, "lockawait": 2, "yield": 1, "rand": 1, "isfin": 1, "fpoll": 2, "pendthen": 2, "tls": 1, "park": 1, "unpark": 1},
              "min_tasks": 1, "extra_tasks": 2, "min_ops": 1, "extra_ops": 3},
    "async_abort": {"async": True, "objs": {"atomic": (1, 1), "mutex": (0, 1), "wslot": (1, 2), "tls": (0, 1), "chan": (0, 1)},
                    "aweights": {"await": 6, "wake": 2, "abort": 6, "detach": 2, "isfin": 2, "fpoll": 3, "pendthen": 3, "atomic": 2, "lockawait": 3, "yield": 1, "tls": 1, "send": 2, "recv": 2},
                    "joins": 8, "min_tasks": 1, "extra_tasks": 2, "min_ops": 1, "extra_ops": 3},
    "async_sem": {"async": True, "asem": True, "objs": {"atomic": (0, 1), "sem": (1, 2), "wslot": (0, 1)},
                  "aweights": {"asem": 10, "sem": 2, "await": 2, "wake": 1, "abort": 2, "atomic": 1, "yield": 1},
                  "min_tasks": 1, "extra_tasks": 2, "min_ops": 1, "extra_ops": 3},
    "async_dl": {"async": True, "objs": {"atomic": (0, 1), "mutex": (0, 1), "wslot": (1, 2)}, "wake_pairs": 3, "joins": 3, "detaches": 7,
                 "aweights": {"await": 9, "wake": 1, "detach": 3, "fpoll": 3, "atomic": 1, "lockawait": 2, "abort": 1, "panic": 1},
                 "min_tasks": 1, "extra_tasks": 2, "min_ops": 1, "extra_ops": 2},
    "locks": {"objs": {"atomic": (1, 2), "mutex": (1, 2), "rwlock": (0, 1)},
              "weights": {"atomic": 3, "yield": 1, "lock": 5, "rw": 3, "rand": 1},
              "min_tasks": 1, "extra_tasks": 2, "min_ops": 1, "extra_ops": 4},
}
PROFILES.update(gen_tokio.PROFILES)


def runs_for(rng, kinds=("random", "pct", "rr", "dfs"), dfs_iters=None):
    k = rng.choice(list(kinds))
    if k == "random":
        # (mostly a few iterations; one run in four explores a program with many schedules)
        return f"random:{rng.below(2**32)}:{2 + rng.below(3) if not rng.chance(1, 4) else 12 + rng.below(20)}"
    if k == "pct":
        return f"pct:{rng.below(2**32)}:{1 + rng.below(4)}:{3 + rng.below(3) if not rng.chance(1, 4) else 10 + rng.below(10)}"
    if k == "rr":
        return "rr:1" if rng.chance(1, 2) else f"rr:{2 + rng.below(2)}"      # same schedule again, fresh data seed
    if k == "urw":
        return f"urw:{rng.below(2**32)}:{2 + rng.below(3)}"
    if dfs_iters:
        return f"dfs:{dfs_iters}"
    return f"dfs:{5 + rng.below(20)}" if not rng.chance(1, 3) else f"dfs:{150 + rng.below(250)}"


def batch(seed, profile, count, prefix, kinds=("random", "pct", "rr", "dfs")):
    rng = Rng(seed)
    g = Gen(rng, PROFILES[profile] if isinstance(profile, str) else profile)
    lines = []
    for i in range(count):
        fn = g.program_cvshape if g.p.get("cvshape") else g.program_semshape if g.p.get("semshape") else g.program_poisonshape if g.p.get("poisonshape") else g.program_chanshape if g.p.get("chanshape") else (g.program_async if g.p.get("async") else g.program)
        # directed shapes are small: explore their schedule trees (almost) exhaustively
        if g.p.get("replicate"):
            # every execution of these programs fails, and a run stops at its first failure: one schedule per run,
            # so the same program is run under several single-iteration schedulers
            one = fn(f"{prefix}{i}", "rr:1")
            for j in range(g.p["replicate"]):
                c = rng.below(8)
                n = g.p.get("replicate_iters", 1)      # (> 1 where most executions do not fail)
                run = ("rr:1" if c == 0 else f"dfs:{40 * n if n > 1 else 1}" if c == 1 else
                       (f"pct:{rng.below(2**32)}:{1 + rng.below(4)}:{n}" if c < 4 else f"random:{rng.below(2**32)}:{n}"))
                lines += [one[0] + f"_{j}"] + one[1:-1] + [f"run {run}"]
            continue
        lines += fn(f"{prefix}{i}", runs_for(rng, ("dfs",) if g.p.get("dfs_iters") else kinds, g.p.get("dfs_iters")))
    return lines
