#!/bin/sh
# Build the framework from files on disk only (offline). Registered as MANIFEST.setup_cmd.
set -e
cd "$(dirname "$0")"
export CARGO_NET_OFFLINE=true
python3 tools/extract_consts.py
(cd lean && lake build shuttle_model ShuttleProofs)
(cd harness && cargo build --release --offline)
lean/.lake/build/bin/shuttle_model selftest
echo "setup ok"
