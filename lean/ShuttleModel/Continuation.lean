/-
  The life-cycle of a `Continuation` and of the `ContinuationPool` — transcription of
  shuttle-engine/src/runtime/thread/continuation.rs as a finite-state machine.  Core Lean only.

  What is a parameter here: the closures (`Box<dyn FnOnce()>`) are opaque values of a type `F`, and what a
  closure does when it is resumed (yield at a `thread::switch()`, return, panic) is an input
  (`StepOutcome`) — the kernel model (`Kernel.lean`) is what decides that.  What is transcribed: the
  `ContinuationState` field, the function cell `Rc<Cell<Option<Box<dyn FnOnce()>>>>`, the coroutine loop of
  `Continuation::new`, `initialize`, `resume`, `reusable`, `Drop for Continuation`,
  `ContinuationPool::acquire`, `Drop for PooledContinuation` with the leak-vs-drop choice of
  `ContinuationFunctionBehavior`.

  `debug_assert!`s are modelled as failures (the harness builds shuttle with debug assertions on); a
  release build skips them.
-/
namespace ShuttleModel
namespace Continuation

/-- `ContinuationState` ("Lifecycle runs from top to bottom") -/
inductive CState where
  /-- has no function in its cell; waiting for input about what to do next -/
  | notReady
  /-- has a function in its cell, but hasn't started running yet -/
  | initialized
  /-- has a suspended function; waiting for input about what to do next -/
  | ready
  /-- currently inside a user-provided function -/
  | running
  /-- has finished the previous function, can be initialized with a new one -/
  | finishedIteration
  /-- the internal coroutine has exited its loop and cannot receive new functions to execute -/
  | exited
deriving DecidableEq, Repr, Inhabited

/-- `Continuation` (the coroutine's stack is summarised by `onStack`) -/
structure Cont (F : Type) where
  state : CState := .notReady
  /-- the cell `function`: `Some(f)` between `initialize(f)` and the first `resume` -/
  function : Option F := none
  /-- the closure the coroutine loop took out of the cell (`function.0.take()`) and is inside of: its frames
  (captures, locals) live on the coroutine stack -/
  onStack : Option F := none
deriving Repr, Inhabited

/-- what happened to a closure that a continuation held -/
inductive Fate (F : Type) where
  /-- ran to completion inside `resume` -/
  | completed (f : F)
  /-- dropped without ever having been called (captures destructed normally) -/
  | droppedUnrun (f : F)
  /-- `mem::forget`: never called, captures never destructed -/
  | forgotten (f : F)
  /-- `Coroutine::force_unwind`: the suspended frames were unwound, destructors of its locals ran -/
  | unwound (f : F)
  /-- `Coroutine::force_reset`: the stack was abandoned, no destructor of the suspended frames ran -/
  | leaked (f : F)
  /-- its own panic unwound it (propagated out of `resume`) -/
  | panicked (f : F)
deriving Repr, DecidableEq

namespace Cont
variable {F : Type}

/-- `Continuation::new`: the coroutine is created and resumed once so that it sits at the top of its loop,
suspended in `yielder.suspend(Finished(..))`; `state: NotReady` -/
def new : Cont F := {}

/-- `Continuation::reusable` -/
def reusable (c : Cont F) : Bool := c.state == .notReady || c.state == .finishedIteration

/-- `Continuation::initialize(fun)` (`initialize` is a Lean keyword) -/
def init (c : Cont F) (f : F) : Except String (Cont F) :=
  if !c.reusable then .error "shouldn't replace a function before it completes"
  else if c.function.isSome then .error "shouldn't replace a function before it runs"
  else .ok { c with function := some f, state := .initialized }

/-- what the user function does after being resumed, until control comes back to `resume` -/
inductive StepOutcome where
  /-- reached `thread::switch()` and the scheduler chose another task: `yielder.suspend(Yielded)` -/
  | yielded
  /-- returned: the loop goes round and suspends with `Finished` -/
  | finished
  /-- panicked: the panic unwinds the coroutine stack and is re-raised in the caller of `resume` -/
  | panicked
deriving DecidableEq, Repr

inductive ResumeRes (F : Type) where
  /-- `resume` returned `finished` -/
  | ok (finished : Bool) (c : Cont F) (fate : Option (Fate F))
  /-- the user function's panic propagates out of `resume` (to `catch_unwind` in `run_to_completion`);
  `self.state` is still `Running`: the assignment after `coroutine.resume` was not reached -/
  | userPanic (c : Cont F) (fate : Fate F)
  | assertFailed (msg : String)
deriving Repr

/-- `Continuation::resume` (= `resume_with_input(Resume)`) -/
def resume (c : Cont F) (o : StepOutcome) : ResumeRes F :=
  match c.state with
  | .initialized =>
    -- the loop: `let f = function.0.take().expect("must have a function to run"); f();`
    match c.function with
    | none => .assertFailed "must have a function to run"
    | some f =>
      match o with
      | .yielded => .ok false { state := .ready, function := none, onStack := some f } none
      | .finished => .ok true { state := .finishedIteration, function := none, onStack := none } (some (.completed f))
      | .panicked => .userPanic { state := .running, function := none, onStack := none } (.panicked f)
  | .ready =>
    match c.onStack with
    | none => .assertFailed "model: Ready continuation without a suspended function"
    | some f =>
      match o with
      | .yielded => .ok false { c with state := .ready } none
      | .finished => .ok true { c with state := .finishedIteration, onStack := none } (some (.completed f))
      | .panicked => .userPanic { c with state := .running, onStack := none } (.panicked f)
  | _ => .assertFailed "assertion failed: self.state == ContinuationState::Ready || self.state == ContinuationState::Initialized"

/-- `Drop for Continuation`, given `std::thread::panicking()`.  Returns the fate of the closure it still
held, if any. -/
def dropCont (c : Cont F) (panicking : Bool) : Option (Fate F) :=
  match c.state with
  | .initialized | .finishedIteration | .notReady =>
    -- `resume_with_input(Exit)`: the loop breaks; the cell (shared `Rc`) dies with the coroutine
    -- and the struct, and with it a function that was never run
    c.function.map .droppedUnrun
  | .running | .ready =>
    -- `if panicking() { force_reset() }  force_unwind()`
    c.onStack.map (fun f => if panicking then .leaked f else .unwound f)
  | .exited => none

end Cont

/-- `ContinuationFunctionBehavior` (`UNGRACEFUL_SHUTDOWN_CONFIG.continuation_function_behavior`) -/
inductive FunctionBehavior where
  | drop
  | leak
deriving DecidableEq, Repr, Inhabited

/-- `ContinuationPool.continuations` (front = head) -/
structure Pool (F : Type) where
  queue : List (Cont F) := []
deriving Repr, Inhabited

namespace Pool
variable {F : Type}

/-- `ContinuationPool::new` — one per `Runner::run`, shared by all its executions -/
def new : Pool F := {}

/-- `ContinuationPool::acquire`: `pop_front().unwrap_or_else(|| Continuation::new(stack_size))` -/
def acquire (p : Pool F) : Cont F × Pool F :=
  match p.queue with
  | [] => (Cont.new, p)
  | c :: rest => (c, { queue := rest })

structure DropRes (F : Type) where
  pool : Pool F
  /-- did the continuation go back to the pool -/
  pooled : Bool
  /-- fate of the closure the continuation still held -/
  fate : Option (Fate F)
deriving Repr

/-- `Drop for PooledContinuation` -/
def dropPooled (p : Pool F) (c : Cont F) (panicking : Bool) (beh : FunctionBehavior) : DropRes F :=
  if c.reusable then
    { pool := { queue := p.queue ++ [c] }, pooled := true, fate := none }
  else if c.state == .initialized then
    -- `let old = c.function.0.replace(None); c.state = NotReady;` then drop or forget `old`
    let fate := c.function.map (fun f =>
      if panicking then (match beh with | .drop => Fate.droppedUnrun f | .leak => Fate.forgotten f)
      else Fate.droppedUnrun f)
    { pool := { queue := p.queue ++ [{ c with function := none, state := .notReady }] }, pooled := true, fate := fate }
  else
    -- not pushed back: `c` goes out of scope, `Drop for Continuation` runs
    { pool := p, pooled := false, fate := c.dropCont panicking }

/-- `Task::from_closure`: `let mut continuation = ContinuationPool::acquire(stack_size);
continuation.initialize(f);` -/
def spawn (p : Pool F) (f : F) : Except String (Cont F × Pool F) :=
  let (c, p') := p.acquire
  match c.init f with
  | .ok c' => .ok (c', p')
  | .error e => .error e

end Pool

end Continuation
end ShuttleModel
