import ShuttleModel.Prim.Locks
import ShuttleModel.Prim.Chan
import ShuttleModel.Prim.Condvar
import ShuttleModel.Prim.Barrier
import ShuttleModel.Prim.Once
import ShuttleModel.Prim.Future
import ShuttleModel.Wrap.PlLocks
import ShuttleModel.Wrap.Tokio
/-
  Layer L — the program IR (shared verbatim with the Rust harness, DESIGN.md Appendix A) and its
  interpretation as a kernel `Program`.  Every case of `execOp` mirrors, call for call, what the
  harness's `exec_op` does with the real primitives.
-/
namespace ShuttleModel

structure Op where
  name : String
  args : List String
deriving Repr, Inhabited

def Op.arg (o : Op) (i : Nat) : String := (o.args[i]?).getD ""
def Op.num (o : Op) (i : Nat) : Nat := ((o.args[i]?).bind String.toNat?).getD 0

structure ObjDecl where
  name : String
  kind : String
  args : List String
deriving Repr, Inhabited

structure TaskDecl where
  future : Bool := false
  ops : List Op := []
deriving Repr, Inhabited

structure IR where
  name : String := ""
  steps : MaxSteps := .none
  clocks : Bool := true
  objs : List ObjDecl := []
  tasks : List TaskDecl := []
  run : String := "rr:1"
deriving Repr, Inhabited

/-! ### Parsing (same grammar as harness/src/ir.rs) -/

def splitWs (s : String) : List String :=
  ((s.replace "\t" " ").splitOn " ").filter (· ≠ "")

def stripComment (s : String) : String := ((s.splitOn "#").headD "").trimAscii.toString

def setTask (ts : List TaskDecl) (k : Nat) (t : TaskDecl) : List TaskDecl :=
  let ts := ts ++ List.replicate (k + 1 - ts.length) ({} : TaskDecl)
  ts.set k t

structure ParseSt where
  done : List IR := []
  cur : Option IR := none
  task : Option (Nat × TaskDecl) := none

def parseLine (st : ParseSt) (raw : String) : ParseSt :=
  let line := stripComment raw
  if line.isEmpty then st
  else if line.startsWith "=== " then
    let st := match st.cur with
      | some p => { st with done := p :: st.done }
      | none => st
    { st with cur := some { name := (line.drop 4).trimAscii.toString }, task := none }
  else match st.cur with
    | none => st
    | some p =>
      let toks := splitWs line
      match st.task with
      | some (k, t) =>
        if toks.headD "" == "end" then
          { st with cur := some { p with tasks := setTask p.tasks k t }, task := none }
        else
          { st with task := some (k, { t with ops := t.ops ++ [{ name := toks.headD "", args := toks.drop 1 }] }) }
      | none =>
        match toks with
        | "config" :: kvs =>
          let p := kvs.foldl (fun (p : IR) kv =>
            if kv.startsWith "steps=" then
              let v := (kv.drop 6).toString
              if v == "none" then { p with steps := .none }
              else if v.startsWith "fail:" then { p with steps := .failAfter (((v.drop 5).toString.toNat?).getD 0) }
              else if v.startsWith "cont:" then { p with steps := .continueAfter (((v.drop 5).toString.toNat?).getD 0) }
              else p
            else if kv.startsWith "clocks=" then { p with clocks := (kv.drop 7).toString != "0" }
            else p) p
          { st with cur := some p }
        | "obj" :: name :: kind :: args =>
          { st with cur := some { p with objs := p.objs ++ [{ name := name, kind := kind, args := args }] } }
        | "task" :: k :: rest =>
          { st with task := some ((k.toNat?).getD 0, { future := rest.headD "" == "future" }) }
        | ["run", r] => { st with cur := some { p with run := r } }
        | _ => st

def parseBatch (text : String) : List IR :=
  let st := (text.splitOn "\n").foldl parseLine {}
  let all := match st.cur with
    | some p => p :: st.done
    | none => st.done
  all.reverse

/-! ### Heap -/

inductive Obj where
  | atomic (a : AtomicState)
  | mutex (m : MutexState)
  | rwlock (l : RwLockState)
  | sem (s : SemState)
  | chan (c : ChanState)
  | condvar (c : CondvarState)
  | barrier (b : BarrierState)
  /-- a `Once` and the plain cell its initializer writes -/
  | once (o : OnceState) (cell : Nat)
  /-- a `thread_local!` key; `dtor` is the destructor behaviour (`none|log|touch:<t>|lock:<m>`) -/
  | tls (dtor : String)
  | lazy (z : LazyState)
  /-- parking_lot replacements (Wrap/PlLocks.lean) -/
  | plmutex (m : PlMutexState)
  | plrwlock (l : PlRwLockState)
  /-- a tokio-wrapper object (Wrap/Tokio.lean) -/
  | tokio (t : Tokio.TObj)
  | bad
deriving Repr, Inhabited

inductive GuardKind where
  | m | r | w
  /-- the `MutexGuard` on the flag of a `Once` (`o`) / of the `Once` inside a `Lazy` (`z`), alive
  inside `call_once` -/
  | o | z
  /-- guards of the parking_lot replacements: mutex, read, write, upgradable read -/
  | pm | pr | pw | pu
deriving Repr, DecidableEq, Inhabited

structure Local where
  last : String := ""
  guards : List (Nat × GuardKind) := []     -- most recent last
  /-- guards owned by library frames above the interpreter (dropped first when unwinding) -/
  inner : List (Nat × GuardKind) := []
  /-- channels (object indices) for which the task holds a `Sender` / the `Receiver` -/
  tx : List Nat := []
  rx : List Nat := []
  /-- open `thread::scope`s, innermost first (indices into `Heap.scopes`) -/
  scopes : List Nat := []
  /-- thread-local storage (`StorageMap`): slots (`true` = alive, `false` = destructed) and the
  insertion order of the alive ones -/
  tlsSlots : List (Nat × Bool) := []
  tlsOrder : List Nat := []
deriving Repr, Inhabited

/-- `Scope`: `num_running_threads`, `main_task` -/
structure ScopeState where
  running : Nat := 0
  mainTask : Nat := 0
  /-- `Scope::main_task_waiting`: the main task is blocked at the end of `scope` (F10 repaired: only then may
  the last scoped thread unblock it) -/
  mainWaiting : Bool := false
deriving Repr, Inhabited

structure Heap where
  objs : List Obj := []
  /-- body index ↦ task id once spawned (`threads[k]` in the harness) -/
  spawned : List (Option Nat) := []
  /-- join handle for body k still present -/
  handles : List Bool := []
  locals : List Local := []
  scopes : List ScopeState := []
  /-- the async layer: join handles, waker slots, the table of `Acquire` futures -/
  fut : FutHeap := {}
deriving Repr, Inhabited

namespace Heap

def futL : Lens Heap FutHeap := { get := (·.fut), set := fun f h => { h with fut := f } }

def objL (i : Nat) : Lens Heap Obj :=
  { get := fun h => (h.objs[i]?).getD .bad, set := fun o h => { h with objs := h.objs.set i o } }

def atomicL (i : Nat) : Lens Heap AtomicState :=
  (objL i).comp { get := fun o => match o with | .atomic a => a | _ => {}, set := fun a _ => .atomic a }
def mutexL (i : Nat) : Lens Heap MutexState :=
  (objL i).comp { get := fun o => match o with | .mutex a => a | _ => {}, set := fun a _ => .mutex a }
def rwlockL (i : Nat) : Lens Heap RwLockState :=
  (objL i).comp { get := fun o => match o with | .rwlock a => a | _ => {}, set := fun a _ => .rwlock a }
def semL (i : Nat) : Lens Heap SemState :=
  (objL i).comp { get := fun o => match o with | .sem a => a | _ => SemState.constNew 0 false, set := fun a _ => .sem a }
def chanL (i : Nat) : Lens Heap ChanState :=
  (objL i).comp { get := fun o => match o with | .chan a => a | _ => {}, set := fun a _ => .chan a }
def condvarL (i : Nat) : Lens Heap CondvarState :=
  (objL i).comp { get := fun o => match o with | .condvar a => a | _ => {}, set := fun a _ => .condvar a }
def barrierL (i : Nat) : Lens Heap BarrierState :=
  (objL i).comp { get := fun o => match o with | .barrier a => a | _ => {}, set := fun a _ => .barrier a }
def onceL (i : Nat) : Lens Heap OnceState :=
  (objL i).comp { get := fun o => match o with | .once a _ => a | _ => {},
                  set := fun a o => match o with | .once _ c => .once a c | _ => .once a 0 }
def lazyL (i : Nat) : Lens Heap LazyState :=
  (objL i).comp { get := fun o => match o with | .lazy a => a | _ => {}, set := fun a _ => .lazy a }

def plmutexL (i : Nat) : Lens Heap PlMutexState :=
  (objL i).comp { get := fun o => match o with | .plmutex a => a | _ => {}, set := fun a _ => .plmutex a }
def plrwlockL (i : Nat) : Lens Heap PlRwLockState :=
  (objL i).comp { get := fun o => match o with | .plrwlock a => a | _ => {}, set := fun a _ => .plrwlock a }

/-- lens to the tokio object at index `i` -/
def tokioL (i : Nat) : Lens Heap Tokio.TObj :=
  (objL i).comp { get := fun o => match o with | .tokio t => t | _ => default, set := fun t _ => .tokio t }

def localL (k : Nat) : Lens Heap Local :=
  { get := fun h => (h.locals[k]?).getD {}, set := fun l h => { h with locals := h.locals.set k l } }

end Heap

def mkObj (d : ObjDecl) : Obj :=
  let a0 := (((d.args[0]?).bind String.toNat?).getD 0)
  match d.kind with
  | "atomic" =>
    -- `obj a atomic <init> [u8|u16|u32|u64|usize|i8|i16|i32|i64|isize|bool]` (`init as T`)
    let ty := (d.args[1]?).getD "u64"
    let (bits, signed, isBool) : Nat × Bool × Bool := match ty with
      | "u8" => (8, false, false) | "u16" => (16, false, false) | "u32" => (32, false, false)
      | "i8" => (8, true, false) | "i16" => (16, true, false) | "i32" => (32, true, false)
      | "i64" | "isize" => (64, true, false)
      | "bool" => (1, false, true)
      | _ => (64, false, false)
    .atomic { value := a0 % 2 ^ bits, bits := bits, signed := signed, isBool := isBool }
  | "mutex" => .mutex { value := a0 }
  | "rwlock" => .rwlock { value := a0 }
  -- `BatchSemaphore::new` runs in task 0 at the start of the test body: the initial batch
  -- carries `current::clock()` of task 0, which is `[0]` then
  | "sem" => .sem (SemState.new a0 ((d.args[1]?).getD "" == "fair") (Clock.new.extend 0))
  | "chan" =>
    let spec := (d.args[0]?).getD "unb"
    let bound : Option Nat :=
      if spec == "unb" then none
      else if spec == "rdv" then some 0
      else some ((((spec.drop 4).toString).toNat?).getD 1)
    .chan (ChanState.new bound)
  | "condvar" => .condvar {}
  | "barrier" => .barrier { bound := a0 }
  | "once" => .once {} 0
  | "tls" => .tls ((d.args[0]?).getD "none")
  | "lazy" | "wlazy" => .lazy {}
  | "plmutex" => .plmutex { value := a0 }
  | "plrwlock" => .plrwlock { value := a0 }
  | k => if Tokio.isKind k then .tokio (Tokio.mkObj k d.args) else .bad

def IR.objIndex (ir : IR) (name : String) : Nat := (ir.objs.findIdx? (·.name == name)).getD ir.objs.length

/-- `(name, index)` of the channels, in declaration order -/
def IR.chans (ir : IR) : List (String × Nat) :=
  (ir.objs.zipIdx.filter (fun p => p.1.kind == "chan")).map (fun p => (p.1.name, p.2))

def IR.initHeap (ir : IR) : Heap :=
  let n := ir.tasks.length
  let cs := ir.chans.map (·.2)
  { objs := ir.objs.map mkObj
    spawned := (some 0) :: List.replicate (n - 1) none
    handles := List.replicate n false
    fut := FutHeap.init n ir.objs.length 8
    -- task 0 starts with one `Sender` and the `Receiver` of every channel
    locals := ({ tx := cs, rx := cs } : Local) :: List.replicate (n - 1) {} }

/-! ### Operations -/

def lockResStr : LockRes → String
  | .ok v => s!"v:{v}"
  | .poisoned v => s!"poisoned:{v}"
  | .wouldBlock => "wouldblock"

def clockStr (c : Clock) : String := ",".intercalate (c.strip.map toString)

abbrev P := Prog Heap

def wrap64 (v : Int) : Nat := (v % (2 ^ 64 : Int)).toNat

def isTxOp (n : String) : Bool := n == "send" || n == "try_send" || n == "drop_tx"
def isRxOp (n : String) : Bool := n == "recv" || n == "try_recv" || n == "drop_rx"
def opsUse (ops : List Op) (pred : String → Bool) (cname : String) : Bool :=
  -- (`pend_then w <op> <chan> …` uses the channel of its inner operation)
  ops.any fun o => (pred o.name && o.arg 0 == cname) || (o.name == "pend_then" && pred (o.arg 1) && o.arg 2 == cname)

def pushInner (k : Nat) (g : Nat × GuardKind) : P Unit := do
  let l ← K.getL (Heap.localL k)
  K.setL (Heap.localL k) { l with inner := g :: l.inner }

def popInner (k : Nat) : P Unit := do
  let l ← K.getL (Heap.localL k)
  K.setL (Heap.localL k) { l with inner := l.inner.drop 1 }

/-- the handle ownership rule applied when body `k` (at op index `pc`) spawns body `b`, before
the spawn call: for each channel in declaration order, the parent clones its `Sender` for the
child if the child's text has a sender op on it, and moves its `Receiver` to the child if the
child's text has a receiver op on it and the parent's own remaining ops have none -/
def transferHandlesGo (ir : IR) (k pc b : Nat) : List (String × Nat) → P Unit
  | [] => pure ()
  | (cname, ci) :: rest => do
    let myOps := (((ir.tasks[k]?).getD {}).ops).drop (pc + 1)
    let childOps := ((ir.tasks[b]?).getD {}).ops
    let l ← K.getL (Heap.localL k)
    if l.tx.contains ci && opsUse childOps isTxOp cname then do
      Chan.cloneSender (Heap.chanL ci)
      let c ← K.getL (Heap.localL b)
      K.setL (Heap.localL b) { c with tx := c.tx ++ [ci] }
    else pure ()
    let l ← K.getL (Heap.localL k)
    if l.rx.contains ci && opsUse childOps isRxOp cname && !opsUse myOps isRxOp cname then do
      K.setL (Heap.localL k) { l with rx := l.rx.erase ci }
      let c ← K.getL (Heap.localL b)
      K.setL (Heap.localL b) { c with rx := c.rx ++ [ci] }
    else pure ()
    transferHandlesGo ir k pc b rest

def transferHandles (ir : IR) (k pc b : Nat) : P Unit := transferHandlesGo ir k pc b ir.chans

/-- `LocalKey::try_with` on key `oi` by body `k`: `init` (slot created, appended to the
destruction order) | `seen` | `destroyed` (tombstone: `AccessError`) — no scheduling point -/
def tlsTryWith (k : Nat) (oi : Nat) : P String := do
  let l ← K.getL (Heap.localL k)
  match l.tlsSlots.find? (·.1 == oi) with
  | some (_, true) => pure "seen"
  | some (_, false) => pure "destroyed"
  | none =>
    K.setL (Heap.localL k) { l with tlsSlots := l.tlsSlots ++ [(oi, true)], tlsOrder := l.tlsOrder ++ [oi] }
    pure "init"

/-- the end of `thread::scope`: `if num_running_threads != 0 { block; switch }` -/
def scopeClose (sid : Nat) : P Unit := do
  let h ← K.getU
  let sc := (h.scopes[sid]?).getD {}
  if sc.running != 0 then do
    K.setU { h with scopes := h.scopes.modify sid (fun sc => { sc with mainWaiting := true }) }
    K.block false
    K.switch
  else pure ()

def isAsyncOp (n : String) : Bool := n == "fjoin" || n == "fyield" || n == "pend" || n == "acq_await"

/-- the leaf future of an async op, from its tokens -/
def parseAOp (ir : IR) : List String → AOp
  | "fjoin" :: b :: _ => .join ((b.toNat?).getD 0)
  | "fyield" :: _ => .yieldNow
  | "pend" :: w :: _ => .pend (ir.objIndex w)
  | "acq_await" :: h :: _ => .acqAwait ((h.toNat?).getD 0)
  | "block_on" :: rest => .blockOn (parseAOp ir rest)
  | n :: _ => .bad n
  | [] => .bad ""

/-- the `pl_*` operations (harness/src/pl.rs `exec`): parking_lot `Mutex` / `RwLock` through the
generic `lock_api` guards; conversions replace the guard in place -/
def execPl (k : Nat) (oi : Nat) (name : String) : P String := do
  let mL := Heap.plmutexL oi
  let rL := Heap.plrwlockL oi
  let push (g : GuardKind) : P Unit := do
    let l ← K.getL (Heap.localL k)
    K.setL (Heap.localL k) { l with guards := l.guards ++ [(oi, g)] }
  let find (g : GuardKind) : P (Option Nat) := do
    let l ← K.getL (Heap.localL k)
    pure ((l.guards.zipIdx.reverse.find? (fun p => p.1.1 == oi && p.1.2 == g)).map (·.2))
  let setKind (i : Nat) (g : GuardKind) : P Unit := do
    let l ← K.getL (Heap.localL k)
    K.setL (Heap.localL k) { l with guards := l.guards.set i (oi, g) }
  let mval : P String := do let m ← K.getL mL; pure s!"v:{m.value}"
  let rval : P String := do let m ← K.getL rL; pure s!"v:{m.value}"
  /- drop the most recent guard of kind `g`: the guard leaves the list, then its `Drop` runs -/
  let dropKind (g : GuardKind) (d : P Unit) : P String := do
    match (← find g) with
    | none => pure "noguard"
    | some i =>
      let l ← K.getL (Heap.localL k)
      K.setL (Heap.localL k) { l with guards := l.guards.eraseIdx i }
      d
      pure "ok"
  match name with
  | "pl_lock" => do PlMutex.lock mL; let v ← mval; push .pm; pure v
  | "pl_try_lock" => do
    if (← PlMutex.tryLock mL) then do let v ← mval; push .pm; pure v else pure "wouldblock"
  | "pl_unlock" => dropKind .pm (PlMutex.unlock mL)
  | "pl_read" => do PlRwLock.lockShared rL; let v ← rval; push .pr; pure v
  | "pl_try_read" => do
    if (← PlRwLock.tryLockShared rL) then do let v ← rval; push .pr; pure v else pure "wouldblock"
  | "pl_write" => do PlRwLock.lockExclusive rL; let v ← rval; push .pw; pure v
  | "pl_try_write" => do
    if (← PlRwLock.tryLockExclusive rL) then do let v ← rval; push .pw; pure v else pure "wouldblock"
  | "pl_upread" => do PlRwLock.lockUpgradable rL; let v ← rval; push .pu; pure v
  | "pl_try_upread" => do
    if (← PlRwLock.tryLockUpgradable rL) then do let v ← rval; push .pu; pure v else pure "wouldblock"
  | "pl_upgrade" => do
    match (← find .pu) with
    | none => pure "noguard"
    | some i => do PlRwLock.upgrade rL; setKind i .pw; rval
  | "pl_try_upgrade" => do
    match (← find .pu) with
    | none => pure "noguard"
    | some i => do
      if (← PlRwLock.tryUpgrade rL) then do setKind i .pw; rval else pure "wouldblock"
  | "pl_downgrade" => do
    match (← find .pw) with
    | none => pure "noguard"
    | some i => do PlRwLock.downgrade rL; setKind i .pr; rval
  | "pl_down_up" => do
    match (← find .pw) with
    | none => pure "noguard"
    | some i => do PlRwLock.downgradeToUpgradable rL; setKind i .pu; rval
  | "pl_to_up_read" => do
    match (← find .pu) with
    | none => pure "noguard"
    | some i => do PlRwLock.downgradeUpgradable rL; setKind i .pr; rval
  | "pl_unread" => dropKind .pr (PlRwLock.unlockShared rL)
  | "pl_unwrite" => dropKind .pw (PlRwLock.unlockExclusive rL)
  | "pl_unupread" => dropKind .pu (PlRwLock.unlockUpgradable rL)
  | other => K.panic s!"model: unknown op {other}"

/-- the wait loop of `thread::JoinHandle::join` (F29 repaired in /repo c6d7a0a):
`loop { if !target.set_waiter(me) { break }; me.block(false); thread::switch() }` — the target is looked at again after
every wake-up, so an `unblock(me)` issued by anything else (a semaphore grant to an `Acquire` this task polled) sends
the joiner back to sleep instead of letting `join` return early -/
def joinWait (tid : Nat) : Nat → P Unit
  | 0 => K.panic "model: join loop fuel exhausted"
  | fuel + 1 => do
    let shouldBlock ← K.setWaiter tid
    if shouldBlock then do
      K.block false
      K.switch
      joinWait tid fuel
    else pure ()

def joinFuel : Nat := 100000

/-- one IR operation of body `k`; the result string is what the harness logs -/
def execOp (ir : IR) (k : Nat) (pc : Nat) (op : Op) : P String := do
  let oi := ir.objIndex (op.arg 0)
  match op.name with
  | "spawn" =>
    let b := op.num 0
    transferHandles ir k pc b
    K.switch
    let tid ← K.spawn false b
    let h ← K.getU
    K.setU { h with spawned := h.spawned.set b (some tid), handles := h.handles.set b true }
    pure "ok"
  | "join" =>
    let b := op.num 0
    let h ← K.getU
    if (h.handles[b]?).getD false then
      match (h.spawned[b]?).getD none with
      | none => pure "nohandle"
      | some tid =>
        K.setU { h with handles := h.handles.set b false }
        let fin ← K.isFinished tid
        if fin then K.switch else pure ()
        joinWait tid joinFuel
        let c ← K.clockOf tid
        K.updateClock c
        pure "ok"
    else pure "nohandle"
  | "yield" =>
    let me ← K.me
    K.wake me
    K.requestYield
    K.switch
    pure "ok"
  | "sleep" => do K.switch; pure "ok"
  | "rand" => do let v ← K.rand; pure s!"v:{v % 4}"
  | "park" =>
    let sw ← K.park
    if sw then do K.requestYield; K.switch else pure ()
    pure "ok"
  | "unpark" =>
    let b := op.num 0
    let h ← K.getU
    match (h.spawned[b]?).getD none with
    | none => pure "nohandle"
    | some tid => do K.switch; K.unpark tid; pure "ok"
  | "ctx" => do let n ← K.ctxSwitches; pure s!"v:{n}"
  | "reset_steps" => do K.resetSteps; pure "ok"
  | "panic" => do
    let me ← K.me
    K.emit s!"O {me} {k} panicking"
    K.panic "vp-panic"
  | "obs" => pure "ok"
  | "spin" => pure "ok"      -- wall-clock time passes: no effect on the runtime
  -- atomics
  | "aload" | "astore" | "aswap" | "aadd" | "asub" | "aand" | "aor" | "axor" | "anand" | "amax" | "amin" | "acas" => do
    -- the operands are `u64` literals cast to the atomic's type; results print as that type does
    let a0 ← K.getL (Heap.atomicL oi)
    let L := Heap.atomicL oi
    let v := a0.norm (op.num 1)
    let w := a0.norm (op.num 2)
    let top := 2 ^ a0.bits
    let sh := a0.render
    match op.name with
    | "aload" => do let x ← Atomic.load L; pure s!"v:{sh x}"
    | "astore" => do Atomic.store L v; pure "ok"
    | "aswap" => do let x ← Atomic.swap L v; pure s!"v:{sh x}"
    | "aadd" => do let r ← Atomic.fetchUpdate L (fun o => some (o + v)); pure s!"v:{sh r.2}"
    | "asub" => do let r ← Atomic.fetchUpdate L (fun o => some (o + top - v)); pure s!"v:{sh r.2}"
    | "aand" => do let r ← Atomic.fetchUpdate L (fun o => some (o &&& v)); pure s!"v:{sh r.2}"
    | "aor" => do let r ← Atomic.fetchUpdate L (fun o => some (o ||| v)); pure s!"v:{sh r.2}"
    | "axor" => do let r ← Atomic.fetchUpdate L (fun o => some (o ^^^ v)); pure s!"v:{sh r.2}"
    | "anand" => do let r ← Atomic.fetchUpdate L (fun o => some ((top - 1) - (o &&& v))); pure s!"v:{sh r.2}"
    | "amax" => do let r ← Atomic.fetchUpdate L (fun o => some (if a0.le o v then v else o)); pure s!"v:{sh r.2}"
    | "amin" => do let r ← Atomic.fetchUpdate L (fun o => some (if a0.le o v then o else v)); pure s!"v:{sh r.2}"
    | _ => do
      let r ← Atomic.fetchUpdate L (fun o => if o == v then some w else none)
      pure (if r.1 then s!"ok:{sh r.2}" else s!"err:{sh r.2}")
  -- mutex
  | "lock" =>
    let r ← Mutex.lock (Heap.mutexL oi)
    let l ← K.getL (Heap.localL k)
    K.setL (Heap.localL k) { l with guards := l.guards ++ [(oi, .m)] }
    pure (lockResStr r)
  | "trylock" =>
    let r ← Mutex.tryLock (Heap.mutexL oi)
    if r != .wouldBlock then do
      let l ← K.getL (Heap.localL k)
      K.setL (Heap.localL k) { l with guards := l.guards ++ [(oi, .m)] }
    else pure ()
    pure (lockResStr r)
  | "read" | "write" =>
    let w := op.name == "write"
    let r ← RwLock.lock (Heap.rwlockL oi) w
    let l ← K.getL (Heap.localL k)
    K.setL (Heap.localL k) { l with guards := l.guards ++ [(oi, if w then .w else .r)] }
    pure (lockResStr r)
  | "tryread" | "trywrite" =>
    let w := op.name == "trywrite"
    let r ← RwLock.tryLock (Heap.rwlockL oi) w
    if r != .wouldBlock then do
      let l ← K.getL (Heap.localL k)
      K.setL (Heap.localL k) { l with guards := l.guards ++ [(oi, if w then .w else .r)] }
    else pure ()
    pure (lockResStr r)
  | "setval" =>
    let l ← K.getL (Heap.localL k)
    match l.guards.reverse.find? (fun g => g.1 == oi && g.2 != .r && g.2 != .pr && g.2 != .pu) with
    | none => pure "noguard"
    | some g =>
      if g.2 == .pm then do
        let m ← K.getL (Heap.plmutexL oi); K.setL (Heap.plmutexL oi) { m with value := op.num 1 }; pure "ok"
      else if g.2 == .pw then do
        let m ← K.getL (Heap.plrwlockL oi); K.setL (Heap.plrwlockL oi) { m with value := op.num 1 }; pure "ok"
      else if g.2 == .m then do
        let m ← K.getL (Heap.mutexL oi); K.setL (Heap.mutexL oi) { m with value := op.num 1 }; pure "ok"
      else do
        let m ← K.getL (Heap.rwlockL oi); K.setL (Heap.rwlockL oi) { m with value := op.num 1 }; pure "ok"
  | "unlock" | "unread" | "unwrite" =>
    let kind : GuardKind := if op.name == "unlock" then .m else if op.name == "unread" then .r else .w
    let l ← K.getL (Heap.localL k)
    -- most recent guard of that kind on that object
    let idx := (l.guards.zipIdx.reverse.find? (fun p => p.1.1 == oi && p.1.2 == kind)).map (·.2)
    match idx with
    | none => pure "noguard"
    | some i =>
      K.setL (Heap.localL k) { l with guards := l.guards.eraseIdx i }
      match kind with
      | .m => Mutex.unlock (Heap.mutexL oi)
      | .r => RwLock.unlock (Heap.rwlockL oi) false
      | .w => RwLock.unlock (Heap.rwlockL oi) true
      | _ => pure ()
      pure "ok"
  -- BatchSemaphore used directly
  | "acquire" => do
    let ok ← Sem.acquireBlocking (Heap.semL oi) (op.num 1)
    pure (if ok then "ok" else "closed")
  | "try_acquire" => do
    let r ← Sem.tryAcquire (Heap.semL oi) (op.num 1)
    pure (match r with | .ok () => "ok" | .error .noPermits => "nopermits" | .error .closed => "closed")
  | "release" => do Sem.release (Heap.semL oi) (op.num 1); pure "ok"
  | "close" => do Sem.close (Heap.semL oi); pure "ok"
  | "avail" => do let s ← K.getL (Heap.semL oi); pure s!"v:{s.avail}"
  -- mpsc channels (handles are per task)
  | "send" | "try_send" =>
    let l ← K.getL (Heap.localL k)
    if !l.tx.contains oi then pure "nosender" else do
      let r ← Chan.sendInternal (Heap.chanL oi) (op.num 1) (op.name == "send")
      pure (match r with | .ok => "ok" | .full => "err:full" | .disconnected => "err:disconnected")
  | "recv" | "try_recv" =>
    let l ← K.getL (Heap.localL k)
    if !l.rx.contains oi then pure "norecv" else do
      let r ← Chan.recvInternal (Heap.chanL oi) (op.name == "recv")
      pure (match r with | .ok v => s!"v:{v}" | .empty => "err:empty" | .disconnected => "err:disconnected")
  | "drop_tx" =>
    let l ← K.getL (Heap.localL k)
    if !l.tx.contains oi then pure "nosender" else do
      K.setL (Heap.localL k) { l with tx := l.tx.erase oi }
      Chan.dropSender (Heap.chanL oi)
      pure "ok"
  | "drop_rx" =>
    let l ← K.getL (Heap.localL k)
    if !l.rx.contains oi then pure "norecv" else do
      K.setL (Heap.localL k) { l with rx := l.rx.erase oi }
      Chan.dropReceiver (Heap.chanL oi)
      pure "ok"
  -- condvar
  | "wait" =>
    let mi := ir.objIndex (op.arg 1)
    let l ← K.getL (Heap.localL k)
    match (l.guards.zipIdx.reverse.find? (fun p => p.1.1 == mi && p.1.2 == .m)).map (·.2) with
    | none => pure "noguard"
    | some i =>
      -- the guard moves into `Condvar::wait`; the one it returns is pushed back as the most recent
      K.setL (Heap.localL k) { l with guards := l.guards.eraseIdx i }
      let r ← Condvar.wait (Heap.condvarL oi) (Heap.mutexL mi)
      let l ← K.getL (Heap.localL k)
      K.setL (Heap.localL k) { l with guards := l.guards ++ [(mi, .m)] }
      pure (lockResStr r)
  | "wait_while" =>
    -- `wait_while cv m v`: `cv.wait_while(guard, |x| *x == v)`
    let mi := ir.objIndex (op.arg 1)
    let l ← K.getL (Heap.localL k)
    match (l.guards.zipIdx.reverse.find? (fun p => p.1.1 == mi && p.1.2 == .m)).map (·.2) with
    | none => pure "noguard"
    | some i =>
      K.setL (Heap.localL k) { l with guards := l.guards.eraseIdx i }
      let r ← Condvar.waitWhile (Heap.condvarL oi) (Heap.mutexL mi) (fun x => x == op.num 2) Sem.loopFuel
      let l ← K.getL (Heap.localL k)
      K.setL (Heap.localL k) { l with guards := l.guards ++ [(mi, .m)] }
      pure (lockResStr r)
  | "notify_one" => do Condvar.notifyOne (Heap.condvarL oi); pure "ok"
  | "notify_all" => do Condvar.notifyAll (Heap.condvarL oi); pure "ok"
  -- barrier
  | "bwait" => do
    let leader ← Barrier.wait (Heap.barrierL oi)
    pure (if leader then "leader" else "follower")
  -- once
  | "call_once" => do
    let me ← K.me
    let ran ← Once.callOnce (Heap.onceL oi)
      (do K.emit s!"O {me} {k} init {op.arg 0}"
          let o ← K.getL (Heap.objL oi)
          match o with
          | .once st _ => K.setL (Heap.objL oi) (.once st (op.num 1))
          | _ => pure ())
      (pushInner k (oi, .o)) (popInner k)
    pure (if ran then "ran" else "skipped")
  | "is_completed" => do
    let b ← Once.isCompleted (Heap.onceL oi)
    pure (if b then "true" else "false")
  | "once_val" => do
    let o ← K.getL (Heap.objL oi)
    pure (match o with | .once _ c => s!"v:{c}" | _ => "v:0")
  -- lazy_static
  | "lazy_get" | "wlazy" => do
    let me ← K.me
    let ran ← Lazy.get (Heap.lazyL oi) (K.emit s!"O {me} {k} lazyinit {op.arg 0}")
      (pushInner k (oi, .z)) (popInner k)
    pure (if ran then "init" else "seen")
  -- thread-locals
  | "tls_with" => tlsTryWith k oi
  -- thread::scope
  | "scope_begin" => do
    let me ← K.me
    let h ← K.getU
    let sid := h.scopes.length
    K.setU { h with scopes := h.scopes ++ [{ running := 0, mainTask := me }] }
    let l ← K.getL (Heap.localL k)
    K.setL (Heap.localL k) { l with scopes := sid :: l.scopes }
    pure "ok"
  | "scope_spawn" =>
    let b := op.num 0
    let l ← K.getL (Heap.localL k)
    match l.scopes with
    | [] => pure "noscope"
    | sid :: _ => do
      transferHandles ir k pc b
      -- `Scope::spawn`: `num_running_threads.fetch_add(1)`, then `spawn_named_unchecked`
      let h ← K.getU
      K.setU { h with scopes := h.scopes.modify sid (fun sc => { sc with running := sc.running + 1 }) }
      K.switch
      let tid ← K.spawn false (b + (sid + 1) * ir.tasks.length)
      let h ← K.getU
      K.setU { h with spawned := h.spawned.set b (some tid) }
      pure "ok"
  | "scope_end" =>
    let l ← K.getL (Heap.localL k)
    match l.scopes with
    | [] => pure "noscope"
    | sid :: rest => do
      K.setL (Heap.localL k) { l with scopes := rest }
      scopeClose sid
      pure "ok"
  -- the async layer (Prim/Future.lean); ops usable from threads and from future bodies
  | "fspawn" =>
    let b := op.num 0
    if !((ir.tasks[b]?).getD {}).future then K.panic s!"vh: fspawn of a thread body {b}" else do
    let j ← K.getL (Fut.joinL Heap.futL b)
    if j.tid.isSome then pure "already" else do
      transferHandles ir k pc b
      -- `future::spawn` → `ExecutionState::spawn_future`: `thread::switch()`, then the task is created
      K.switch
      let tid ← K.spawn true b
      Fut.register Heap.futL b tid
      pure "ok"
  | "fabort" => Fut.abort Heap.futL (op.num 0)
  | "fdetach" => Fut.detach Heap.futL (op.num 0)
  | "fis_finished" => Fut.isFinished Heap.futL (op.num 0)
  | "fpoll" => Fut.pollOnce Heap.futL (op.num 0)
  | "wake" => do Fut.signal Heap.futL oi; pure "ok"
  | "wake_only" => do Fut.wakeOnly Heap.futL oi; pure "ok"
  | "acq_new" => Fut.acqNew Heap.futL Heap.semL (op.num 0) (ir.objIndex (op.arg 1)) (op.num 2)
  | "acq_poll" => Fut.acqPoll Heap.futL Heap.semL (op.num 0)
  | "acq_drop" => Fut.acqDrop Heap.futL Heap.semL (op.num 0)
  | "block_on" => Fut.blockOn Heap.futL Heap.semL (parseAOp ir op.args)
  | "fjoin_block" => Fut.blockOn Heap.futL Heap.semL (.join (op.num 0))
  | "fjoin" | "fyield" | "pend" | "acq_await" =>
    -- awaited ops of a future body are run by `pollOps`; a thread has nothing to await with
    K.panic s!"vh: async op {op.name} outside a future (task {k})"
  -- wrapper crates (Wrap/PlLocks.lean)
  | "wrand" => do let v ← WRand.op (op.arg 0); pure s!"v:{v % 4}"
  | other =>
    if other.startsWith "pl_" then execPl k oi other
    else if Tokio.isOp other then
      Tokio.exec (fun n => match ir.objs.findIdx? (·.name == n) with
        | some i => (match (ir.objs[i]?).map (·.kind) with
          | some kd => if Tokio.isKind kd then some (Heap.tokioL i) else none
          | none => none)
        | none => none) k other op.args
    else K.panic s!"model: unknown op {other}"

def dropGuard (g : Nat × GuardKind) : P Unit :=
  match g.2 with
  | .m => Mutex.unlock (Heap.mutexL g.1)
  | .r => RwLock.unlock (Heap.rwlockL g.1) false
  | .w => RwLock.unlock (Heap.rwlockL g.1) true
  | .o => Mutex.unlock (Once.mutexL (Heap.onceL g.1))
  | .z => Mutex.unlock (Once.mutexL (Lazy.cellL (Heap.lazyL g.1)))
  | .pm => PlMutex.unlock (Heap.plmutexL g.1)
  | .pr => PlRwLock.unlockShared (Heap.plrwlockL g.1)
  | .pw => PlRwLock.unlockExclusive (Heap.plrwlockL g.1)
  | .pu => PlRwLock.unlockUpgradable (Heap.plrwlockL g.1)

/-- drop the remaining guards, most recent first -/
def dropGuards (k : Nat) : Nat → P Unit
  | 0 => pure ()
  | fuel + 1 => do
    let l ← K.getL (Heap.localL k)
    match l.guards.getLast? with
    | none => pure ()
    | some g =>
      K.setL (Heap.localL k) { l with guards := l.guards.dropLast }
      dropGuard g
      let me ← K.me
      K.emit s!"O {me} {k} drop {g.1}"
      dropGuards k fuel

/-- end of `run_task`: the task's remaining channel handles are dropped, for each channel in
declaration order the sender, then the receiver -/
def dropHandles (k : Nat) : List (String × Nat) → P Unit
  | [] => pure ()
  | (_, ci) :: rest => do
    let l ← K.getL (Heap.localL k)
    if l.tx.contains ci then do
      K.setL (Heap.localL k) { l with tx := l.tx.erase ci }
      Chan.dropSender (Heap.chanL ci)
    else pure ()
    let l ← K.getL (Heap.localL k)
    if l.rx.contains ci then do
      K.setL (Heap.localL k) { l with rx := l.rx.erase ci }
      Chan.dropReceiver (Heap.chanL ci)
    else pure ()
    dropHandles k rest

/-- `run_task` of the harness: the ops of body `k`, `if … skip`, logging.  A `scope_begin` runs
the following ops inside the closure given to `thread::scope`; reaching the end of the body inside
a scope closes the scope(s) first (the closure returns). -/
def runOps (ir : IR) (k : Nat) (ops : List Op) : Nat → Nat → P Unit
  | 0, _ => pure ()
  | fuel + 1, pc =>
    match ops[pc]? with
    | none => do
      let l ← K.getL (Heap.localL k)
      match l.scopes with
      | sid :: rest => do
        K.setL (Heap.localL k) { l with scopes := rest }
        scopeClose sid
        runOps ir k ops fuel pc
      | [] => do
        dropGuards k (l.guards.length + 1)
        dropHandles k ir.chans
        let me ← K.me
        K.emit s!"O {me} {k} end"
    | some op =>
      if op.name == "if" then do
        let l ← K.getL (Heap.localL k)
        if l.last == op.arg 0 then runOps ir k ops fuel (pc + op.num 2 + 1)
        else runOps ir k ops fuel (pc + 1)
      else do
        let res ← execOp ir k pc op
        let me ← K.me
        K.emit s!"O {me} {k} {pc} {res}"
        if ir.clocks then do
          let c ← K.clock
          K.emit s!"C {me} {pc} {clockStr c}"
        else pure ()
        let l ← K.getL (Heap.localL k)
        K.setL (Heap.localL k) { l with last := res }
        runOps ir k ops fuel (pc + 1)

/-- the destructor of the harness's thread-local value for key `oi` (`Drop for TlsVal`) -/
def tlsDtor (ir : IR) (k : Nat) (oi : Nat) : P Unit := do
  let me ← K.me
  let name := ((ir.objs[oi]?).map (·.name)).getD "?"
  let o ← K.getL (Heap.objL oi)
  let kind := match o with | .tls d => d | _ => "none"
  if kind == "none" then pure ()
  else do
    K.emit s!"O {me} {k} dtor {name}"
    if kind.startsWith "touch:" then do
      let u := (kind.drop 6).toString
      let r ← tlsTryWith k (ir.objIndex u)
      K.emit s!"O {me} {k} touch {u} {r}"
    else if kind.startsWith "lock:" then do
      let mi := ir.objIndex (kind.drop 5).toString
      let _ ← Mutex.lock (Heap.mutexL mi)
      Mutex.unlock (Heap.mutexL mi)
    else pure ()

/-- `while let Some(local) = current_mut().pop_local() { drop(local) }` — `StorageMap::pop`
takes the oldest still-alive slot and leaves a tombstone -/
def tlsPopLoop (ir : IR) (k : Nat) : Nat → P Unit
  | 0 => pure ()
  | fuel + 1 => do
    let l ← K.getL (Heap.localL k)
    match l.tlsOrder with
    | [] => pure ()
    | key :: rest =>
      K.setL (Heap.localL k) { l with tlsOrder := rest,
                                      tlsSlots := l.tlsSlots.map (fun p => if p.1 == key then (key, false) else p) }
      tlsDtor ir k key
      tlsPopLoop ir k fuel

/-- `thread_fn(f, switch_before_exit, result)` (shuttle-engine/src/thread_support.rs) -/
def threadFn (ir : IR) (k : Nat) (f : P Unit) (switchBeforeExit : Bool) : P Unit := do
  f
  if switchBeforeExit then do
    let t ← K.exitTruncates
    if t then K.switch else pure ()
  else pure ()
  tlsPopLoop ir k (ir.objs.length + 1)
  let w ← K.takeWaiter
  match w with
  | some t => K.unblock t
  | none => pure ()

def IR.body (ir : IR) (k : Nat) : P Unit :=
  let ops := ((ir.tasks[k]?).getD {}).ops
  threadFn ir k (runOps ir k ops (2 * ops.length + 4) 0) true

/-- the closure `Scope::spawn` wraps around a scoped thread's function (shuttle-std/src/thread.rs):
its own pre-exit switch, `finished := true`, and — when it is the last running thread of the
scope — `unblock(main_task)` only when the main task waits at the end of `scope` (F10 repaired); `thread_fn` is told not to switch again -/
def IR.scopedBody (ir : IR) (k sid : Nat) : P Unit :=
  let ops := ((ir.tasks[k]?).getD {}).ops
  threadFn ir k (do
    runOps ir k ops (2 * ops.length + 4) 0
    let t ← K.exitTruncates
    if t then K.switch else pure ()
    let h ← K.getU
    let sc := (h.scopes[sid]?).getD {}
    K.setU { h with scopes := h.scopes.modify sid (fun sc => { sc with running := sc.running - 1 }) }
    if sc.running == 1 && sc.mainWaiting then K.unblock sc.mainTask else pure ()) false

/-- body indices `≥ tasks.length` denote scoped threads: `b + (sid + 1) * tasks.length` -/
def IR.bodies (ir : IR) (n : Nat) : P Unit :=
  let nt := ir.tasks.length
  if nt == 0 || n < nt then ir.body n else ir.scopedBody (n % nt) (n / nt - 1)

/-- unwinding of a panicking task: `st.guards` (a `Vec`) is dropped front to back -/
def dropGuardsFront (k : Nat) : Nat → P Unit
  | 0 => pure ()
  | fuel + 1 => do
    let l ← K.getL (Heap.localL k)
    match l.guards with
    | [] => pure ()
    | g :: rest =>
      K.setL (Heap.localL k) { l with guards := rest }
      dropGuard g
      dropGuardsFront k fuel

/-- guards owned by library frames (`call_once`): innermost frame first -/
def dropInner (k : Nat) : Nat → P Unit
  | 0 => pure ()
  | fuel + 1 => do
    let l ← K.getL (Heap.localL k)
    match l.inner with
    | [] => pure ()
    | g :: rest =>
      K.setL (Heap.localL k) { l with inner := rest }
      dropGuard g
      dropInner k fuel

/-- what a panicking task's unwinding runs: the guards of library frames, then the fields of the
harness's `TaskSt` in declaration order — `guards` (front to back), then the channel handles,
whose `Drop` impls return at once because `should_stop()` holds while a panic is in flight -/
def IR.unwind (ir : IR) (tid : Nat) : P Unit := do
  let h ← K.getU
  -- thread bodies are in `spawned`, future bodies in the join table
  match (h.spawned.findIdx? (· == some tid)).orElse (fun _ => h.fut.joins.findIdx? (·.tid == some tid)) with
  | none => pure ()
  | some k =>
    let l ← K.getL (Heap.localL k)
    let _ := ir
    dropInner k (l.inner.length + 1)
    dropGuardsFront k (l.guards.length + 1)

/-! ### Future bodies: the async block the harness hands to `future::spawn` -/

/-- resumable state of the async block of a future body: the op it is at and the state of the
leaf future it awaits there -/
structure FutSt where
  pc : Nat := 0
  stage : Stage := .init
deriving Repr, Inhabited

def logOp (ir : IR) (k pc : Nat) (res : String) : P Unit := do
  let me ← K.me
  K.emit s!"O {me} {k} {pc} {res}"
  if ir.clocks then do
    let c ← K.clock
    K.emit s!"C {me} {pc} {clockStr c}"
  else pure ()
  let l ← K.getL (Heap.localL k)
  K.setL (Heap.localL k) { l with last := res }

/-- one `poll` of the async block of body `k` resumed in state `s`: sync ops run to completion
(they block the whole task), an async op polls its leaf future and returns `Pending` (`some`)
when the leaf does; `none` = the block ran to its end (`Ready`) -/
def pollOps (ir : IR) (k : Nat) (ops : List Op) : Nat → FutSt → P (Option FutSt)
  | 0, _ => K.panic "model: future body fuel exhausted"
  | fuel + 1, s =>
    match ops[s.pc]? with
    | none => do
      let l ← K.getL (Heap.localL k)
      dropGuards k (l.guards.length + 1)
      dropHandles k ir.chans
      let me ← K.me
      K.emit s!"O {me} {k} end"
      pure none
    | some op =>
      if op.name == "if" then do
        let l ← K.getL (Heap.localL k)
        if l.last == op.arg 0 then pollOps ir k ops fuel { pc := s.pc + op.num 2 + 1 }
        else pollOps ir k ops fuel { pc := s.pc + 1 }
      else if op.name == "pend_then" then do
        -- `pend_then w <sync op…>`: a leaf future whose `poll`, when the slot is not ready, stores the waker and then
        -- performs a (possibly blocking) synchronous operation before returning `Pending`: the task is `Blocked` in
        -- the middle of a poll with its waker already published — a wake arriving then must still cause a re-poll
        let r ← Fut.pollLeaf Heap.futL Heap.semL (.pend (ir.objIndex (op.arg 0))) s.stage
        match r with
        | .ready res => do
          logOp ir k s.pc res
          pollOps ir k ops fuel { pc := s.pc + 1 }
        | .pending st => do
          let _ ← execOp ir k s.pc { name := op.arg 1, args := op.args.drop 2 }
          pure (some { s with stage := st })
      else if isAsyncOp op.name then do
        let r ← Fut.pollLeaf Heap.futL Heap.semL (parseAOp ir (op.name :: op.args)) s.stage
        match r with
        | .ready res => do
          logOp ir k s.pc res
          pollOps ir k ops fuel { pc := s.pc + 1 }
        | .pending st => pure (some { s with stage := st })
      else do
        let res ← execOp ir k s.pc op
        logOp ir k s.pc res
        pollOps ir k ops fuel { pc := s.pc + 1 }

/-- the fields `tx`, then `rx` of the harness's task state, each front to back -/
def dropHandlesFields (k : Nat) (chans : List (String × Nat)) : P Unit := do
  K.forM_ chans fun (_, ci) => do
    let l ← K.getL (Heap.localL k)
    if l.tx.contains ci then do
      K.setL (Heap.localL k) { l with tx := l.tx.erase ci }
      Chan.dropSender (Heap.chanL ci)
    else pure ()
  K.forM_ chans fun (_, ci) => do
    let l ← K.getL (Heap.localL k)
    if l.rx.contains ci then do
      K.setL (Heap.localL k) { l with rx := l.rx.erase ci }
      Chan.dropReceiver (Heap.chanL ci)
    else pure ()

/-- dropping the (cancelled) async block suspended in state `s`: the awaited leaf future, then the
drop guard (which logs), then the harness's task state in field order -/
def dropFuture (ir : IR) (k : Nat) (ops : List Op) (s : FutSt) : P Unit := do
  match ops[s.pc]? with
  | some op =>
    if isAsyncOp op.name then Fut.dropLeaf Heap.futL Heap.semL (parseAOp ir (op.name :: op.args)) s.stage
    else pure ()
  | none => pure ()
  let me ← K.me
  K.emit s!"O {me} {k} dropped"
  let l ← K.getL (Heap.localL k)
  dropGuardsFront k (l.guards.length + 1)
  dropHandlesFields k ir.chans

/-- `Task::from_future(Wrapper::new(async { … }))`: no `thread_fn` — no pre-exit switch and no
waiter to unblock; the thread-local destructors are run by `Wrapper::finish` -/
def IR.futureBody (ir : IR) (k : Nat) : P Unit :=
  let ops := ((ir.tasks[k]?).getD {}).ops
  do
    Fut.markStarted Heap.futL k
    Fut.taskLoop Heap.futL k (pollOps ir k ops (2 * ops.length + 4)) (dropFuture ir k ops)
      (tlsPopLoop ir k (ir.objs.length + 1)) Fut.loopFuel {}

/-- body `n` of the program: future bodies are what `fspawn` creates -/
def IR.bodiesA (ir : IR) (n : Nat) : P Unit :=
  if n < ir.tasks.length && ((ir.tasks[n]?).getD {}).future then ir.futureBody n else ir.bodies n

/-- `ExecutionState::cleanup()` after an execution that ended `Finished`: the tasks are dropped in
id order.  A detached future task that was never polled (continuation still `Initialized`) is
dropped as a plain closure, outside any unwinding; it still owns what `fspawn` moved into its
async block, and dropping a channel endpoint there calls `ExecutionState::should_stop()`, whose
`assert_ne!(current_task, Finished)` failed (execution.rs:760) in the pinned tree — the execution that had ended
normally was reported as a panic (finding F28). (A future that was polled at least once is force-unwound:
`std::thread::panicking()` holds and `should_stop()` returns before the assertion.) -/
def IR.finalOutcome (_ir : IR) (o : Outcome) (_k : Kernel) (_h : Heap) : Outcome :=
  -- F28 repaired in /repo: `should_stop()` answers `true` for a `Finished` execution instead of asserting, so the
  -- endpoint drops of such a task are skipped like those of every other task dropped by `cleanup()`
  o

def IR.program (ir : IR) : Program :=
  { U := Heap, init := ir.initHeap, bodies := ir.bodiesA, unwind := ir.unwind }

end ShuttleModel
