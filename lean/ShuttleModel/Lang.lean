import ShuttleModel.Prim.Locks
/-
  Layer L — the program IR (shared verbatim with the Rust harness, DESIGN.md Appendix A) and its
  interpretation as a kernel `Program`.  Every case of `execOp` mirrors, call for call, what the
  harness's `exec_op` does with the real primitives.
-/
namespace ShuttleModel

structure Op where
  name : String
  args : List String
deriving Repr, Inhabited

def Op.arg (o : Op) (i : Nat) : String := (o.args[i]?).getD ""
def Op.num (o : Op) (i : Nat) : Nat := ((o.args[i]?).bind String.toNat?).getD 0

structure ObjDecl where
  name : String
  kind : String
  args : List String
deriving Repr, Inhabited

structure TaskDecl where
  future : Bool := false
  ops : List Op := []
deriving Repr, Inhabited

structure IR where
  name : String := ""
  steps : MaxSteps := .none
  clocks : Bool := true
  objs : List ObjDecl := []
  tasks : List TaskDecl := []
  run : String := "rr:1"
deriving Repr, Inhabited

/-! ### Parsing (same grammar as harness/src/ir.rs) -/

def splitWs (s : String) : List String :=
  ((s.replace "\t" " ").splitOn " ").filter (· ≠ "")

def stripComment (s : String) : String := ((s.splitOn "#").headD "").trimAscii.toString

def setTask (ts : List TaskDecl) (k : Nat) (t : TaskDecl) : List TaskDecl :=
  let ts := ts ++ List.replicate (k + 1 - ts.length) ({} : TaskDecl)
  ts.set k t

structure ParseSt where
  done : List IR := []
  cur : Option IR := none
  task : Option (Nat × TaskDecl) := none

def parseLine (st : ParseSt) (raw : String) : ParseSt :=
  let line := stripComment raw
  if line.isEmpty then st
  else if line.startsWith "=== " then
    let st := match st.cur with
      | some p => { st with done := p :: st.done }
      | none => st
    { st with cur := some { name := (line.drop 4).trimAscii.toString }, task := none }
  else match st.cur with
    | none => st
    | some p =>
      let toks := splitWs line
      match st.task with
      | some (k, t) =>
        if toks.headD "" == "end" then
          { st with cur := some { p with tasks := setTask p.tasks k t }, task := none }
        else
          { st with task := some (k, { t with ops := t.ops ++ [{ name := toks.headD "", args := toks.drop 1 }] }) }
      | none =>
        match toks with
        | "config" :: kvs =>
          let p := kvs.foldl (fun (p : IR) kv =>
            if kv.startsWith "steps=" then
              let v := (kv.drop 6).toString
              if v == "none" then { p with steps := .none }
              else if v.startsWith "fail:" then { p with steps := .failAfter (((v.drop 5).toString.toNat?).getD 0) }
              else if v.startsWith "cont:" then { p with steps := .continueAfter (((v.drop 5).toString.toNat?).getD 0) }
              else p
            else if kv.startsWith "clocks=" then { p with clocks := (kv.drop 7).toString != "0" }
            else p) p
          { st with cur := some p }
        | "obj" :: name :: kind :: args =>
          { st with cur := some { p with objs := p.objs ++ [{ name := name, kind := kind, args := args }] } }
        | "task" :: k :: rest =>
          { st with task := some ((k.toNat?).getD 0, { future := rest.headD "" == "future" }) }
        | ["run", r] => { st with cur := some { p with run := r } }
        | _ => st

def parseBatch (text : String) : List IR :=
  let st := (text.splitOn "\n").foldl parseLine {}
  let all := match st.cur with
    | some p => p :: st.done
    | none => st.done
  all.reverse

/-! ### Heap -/

inductive Obj where
  | atomic (a : AtomicState)
  | mutex (m : MutexState)
  | rwlock (l : RwLockState)
  | bad
deriving Repr, Inhabited

inductive GuardKind where
  | m | r | w
deriving Repr, DecidableEq, Inhabited

structure Local where
  last : String := ""
  guards : List (Nat × GuardKind) := []     -- most recent last
deriving Repr, Inhabited

structure Heap where
  objs : List Obj := []
  /-- body index ↦ task id once spawned (`threads[k]` in the harness) -/
  spawned : List (Option Nat) := []
  /-- join handle for body k still present -/
  handles : List Bool := []
  locals : List Local := []
deriving Repr, Inhabited

namespace Heap

def objL (i : Nat) : Lens Heap Obj :=
  { get := fun h => (h.objs[i]?).getD .bad, set := fun o h => { h with objs := h.objs.set i o } }

def atomicL (i : Nat) : Lens Heap AtomicState :=
  (objL i).comp { get := fun o => match o with | .atomic a => a | _ => {}, set := fun a _ => .atomic a }
def mutexL (i : Nat) : Lens Heap MutexState :=
  (objL i).comp { get := fun o => match o with | .mutex a => a | _ => {}, set := fun a _ => .mutex a }
def rwlockL (i : Nat) : Lens Heap RwLockState :=
  (objL i).comp { get := fun o => match o with | .rwlock a => a | _ => {}, set := fun a _ => .rwlock a }

def localL (k : Nat) : Lens Heap Local :=
  { get := fun h => (h.locals[k]?).getD {}, set := fun l h => { h with locals := h.locals.set k l } }

end Heap

def mkObj (d : ObjDecl) : Obj :=
  let a0 := (((d.args[0]?).bind String.toNat?).getD 0)
  match d.kind with
  | "atomic" => .atomic { value := a0 }
  | "mutex" => .mutex { value := a0 }
  | "rwlock" => .rwlock { value := a0 }
  | _ => .bad

def IR.objIndex (ir : IR) (name : String) : Nat := (ir.objs.findIdx? (·.name == name)).getD ir.objs.length

def IR.initHeap (ir : IR) : Heap :=
  let n := ir.tasks.length
  { objs := ir.objs.map mkObj
    spawned := (some 0) :: List.replicate (n - 1) none
    handles := List.replicate n false
    locals := List.replicate n {} }

/-! ### Operations -/

def lockResStr : LockRes → String
  | .ok v => s!"v:{v}"
  | .poisoned v => s!"poisoned:{v}"
  | .wouldBlock => "wouldblock"

def clockStr (c : Clock) : String := ",".intercalate (c.strip.map toString)

abbrev P := Prog Heap

def wrap64 (v : Int) : Nat := (v % (2 ^ 64 : Int)).toNat

/-- one IR operation of body `k`; the result string is what the harness logs -/
def execOp (ir : IR) (k : Nat) (op : Op) : P String := do
  let oi := ir.objIndex (op.arg 0)
  match op.name with
  | "spawn" =>
    let b := op.num 0
    K.switch
    let tid ← K.spawn false b
    let h ← K.getU
    K.setU { h with spawned := h.spawned.set b (some tid), handles := h.handles.set b true }
    pure "ok"
  | "join" =>
    let b := op.num 0
    let h ← K.getU
    if (h.handles[b]?).getD false then
      match (h.spawned[b]?).getD none with
      | none => pure "nohandle"
      | some tid =>
        K.setU { h with handles := h.handles.set b false }
        let fin ← K.isFinished tid
        if fin then K.switch else pure ()
        let shouldBlock ← K.setWaiter tid
        if shouldBlock then do K.block false; K.switch else pure ()
        let c ← K.clockOf tid
        K.updateClock c
        pure "ok"
    else pure "nohandle"
  | "yield" =>
    let me ← K.me
    K.wake me
    K.requestYield
    K.switch
    pure "ok"
  | "sleep" => do K.switch; pure "ok"
  | "rand" => do let v ← K.rand; pure s!"v:{v % 4}"
  | "park" =>
    let sw ← K.park
    if sw then do K.requestYield; K.switch else pure ()
    pure "ok"
  | "unpark" =>
    let b := op.num 0
    let h ← K.getU
    match (h.spawned[b]?).getD none with
    | none => pure "nohandle"
    | some tid => do K.switch; K.unpark tid; pure "ok"
  | "ctx" => do let n ← K.ctxSwitches; pure s!"v:{n}"
  | "reset_steps" => do K.resetSteps; pure "ok"
  | "panic" => K.panic "vp-panic"
  | "obs" => pure "ok"
  -- atomics
  | "aload" => do let v ← Atomic.load (Heap.atomicL oi); pure s!"v:{v}"
  | "astore" => do Atomic.store (Heap.atomicL oi) (op.num 1); pure "ok"
  | "aswap" => do let v ← Atomic.swap (Heap.atomicL oi) (op.num 1); pure s!"v:{v}"
  | "aadd" => do let r ← Atomic.fetchUpdate (Heap.atomicL oi) (fun o => some (o + op.num 1)); pure s!"v:{r.2}"
  | "asub" => do let r ← Atomic.fetchUpdate (Heap.atomicL oi) (fun o => some (wrap64 ((o : Int) - (op.num 1 : Int)))); pure s!"v:{r.2}"
  | "aand" => do let r ← Atomic.fetchUpdate (Heap.atomicL oi) (fun o => some (o &&& op.num 1)); pure s!"v:{r.2}"
  | "aor" => do let r ← Atomic.fetchUpdate (Heap.atomicL oi) (fun o => some (o ||| op.num 1)); pure s!"v:{r.2}"
  | "axor" => do let r ← Atomic.fetchUpdate (Heap.atomicL oi) (fun o => some (o ^^^ op.num 1)); pure s!"v:{r.2}"
  | "anand" => do let r ← Atomic.fetchUpdate (Heap.atomicL oi) (fun o => some ((2 ^ 64 - 1) - (o &&& op.num 1))); pure s!"v:{r.2}"
  | "amax" => do let r ← Atomic.fetchUpdate (Heap.atomicL oi) (fun o => some (max o (op.num 1))); pure s!"v:{r.2}"
  | "amin" => do let r ← Atomic.fetchUpdate (Heap.atomicL oi) (fun o => some (min o (op.num 1))); pure s!"v:{r.2}"
  | "acas" =>
    let r ← Atomic.fetchUpdate (Heap.atomicL oi) (fun o => if o == op.num 1 then some (op.num 2) else none)
    pure (if r.1 then s!"ok:{r.2}" else s!"err:{r.2}")
  -- mutex
  | "lock" =>
    let r ← Mutex.lock (Heap.mutexL oi)
    let l ← K.getL (Heap.localL k)
    K.setL (Heap.localL k) { l with guards := l.guards ++ [(oi, .m)] }
    pure (lockResStr r)
  | "trylock" =>
    let r ← Mutex.tryLock (Heap.mutexL oi)
    if r != .wouldBlock then do
      let l ← K.getL (Heap.localL k)
      K.setL (Heap.localL k) { l with guards := l.guards ++ [(oi, .m)] }
    else pure ()
    pure (lockResStr r)
  | "read" | "write" =>
    let w := op.name == "write"
    let r ← RwLock.lock (Heap.rwlockL oi) w
    let l ← K.getL (Heap.localL k)
    K.setL (Heap.localL k) { l with guards := l.guards ++ [(oi, if w then .w else .r)] }
    pure (lockResStr r)
  | "tryread" | "trywrite" =>
    let w := op.name == "trywrite"
    let r ← RwLock.tryLock (Heap.rwlockL oi) w
    if r != .wouldBlock then do
      let l ← K.getL (Heap.localL k)
      K.setL (Heap.localL k) { l with guards := l.guards ++ [(oi, if w then .w else .r)] }
    else pure ()
    pure (lockResStr r)
  | "setval" =>
    let l ← K.getL (Heap.localL k)
    match l.guards.reverse.find? (fun g => g.1 == oi && g.2 != .r) with
    | none => pure "noguard"
    | some g =>
      if g.2 == .m then do
        let m ← K.getL (Heap.mutexL oi); K.setL (Heap.mutexL oi) { m with value := op.num 1 }; pure "ok"
      else do
        let m ← K.getL (Heap.rwlockL oi); K.setL (Heap.rwlockL oi) { m with value := op.num 1 }; pure "ok"
  | "unlock" | "unread" | "unwrite" =>
    let kind : GuardKind := if op.name == "unlock" then .m else if op.name == "unread" then .r else .w
    let l ← K.getL (Heap.localL k)
    -- most recent guard of that kind on that object
    let idx := (l.guards.zipIdx.reverse.find? (fun p => p.1.1 == oi && p.1.2 == kind)).map (·.2)
    match idx with
    | none => pure "noguard"
    | some i =>
      K.setL (Heap.localL k) { l with guards := l.guards.eraseIdx i }
      match kind with
      | .m => Mutex.unlock (Heap.mutexL oi)
      | .r => RwLock.unlock (Heap.rwlockL oi) false
      | .w => RwLock.unlock (Heap.rwlockL oi) true
      pure "ok"
  | other => K.panic s!"model: unknown op {other}"

def dropGuard (g : Nat × GuardKind) : P Unit :=
  match g.2 with
  | .m => Mutex.unlock (Heap.mutexL g.1)
  | .r => RwLock.unlock (Heap.rwlockL g.1) false
  | .w => RwLock.unlock (Heap.rwlockL g.1) true

/-- drop the remaining guards, most recent first -/
def dropGuards (k : Nat) : Nat → P Unit
  | 0 => pure ()
  | fuel + 1 => do
    let l ← K.getL (Heap.localL k)
    match l.guards.getLast? with
    | none => pure ()
    | some g =>
      K.setL (Heap.localL k) { l with guards := l.guards.dropLast }
      dropGuard g
      dropGuards k fuel

/-- `run_task` of the harness: the ops of body `k`, `if … skip`, logging -/
def runOps (ir : IR) (k : Nat) (ops : List Op) : Nat → Nat → P Unit
  | 0, _ => pure ()
  | fuel + 1, pc =>
    match ops[pc]? with
    | none => do
      let l ← K.getL (Heap.localL k)
      dropGuards k (l.guards.length + 1)
      let me ← K.me
      K.emit s!"O {me} {k} end"
    | some op =>
      if op.name == "if" then do
        let l ← K.getL (Heap.localL k)
        if l.last == op.arg 0 then runOps ir k ops fuel (pc + op.num 2 + 1)
        else runOps ir k ops fuel (pc + 1)
      else do
        let res ← execOp ir k op
        let me ← K.me
        K.emit s!"O {me} {k} {pc} {res}"
        if ir.clocks then do
          let c ← K.clock
          K.emit s!"C {me} {pc} {clockStr c}"
        else pure ()
        let l ← K.getL (Heap.localL k)
        K.setL (Heap.localL k) { l with last := res }
        runOps ir k ops fuel (pc + 1)

/-- `thread_fn(f, switch_before_exit, result)` (thread-local destructors: see Prim/Thread) -/
def threadFn (f : P Unit) (switchBeforeExit : Bool) : P Unit := do
  f
  if switchBeforeExit then do
    let t ← K.exitTruncates
    if t then K.switch else pure ()
  else pure ()
  let w ← K.takeWaiter
  match w with
  | some t => K.unblock t
  | none => pure ()

def IR.body (ir : IR) (k : Nat) : P Unit :=
  let ops := ((ir.tasks[k]?).getD {}).ops
  threadFn (runOps ir k ops (ops.length + 1) 0) true

/-- unwinding of a panicking task: `st.guards` (a `Vec`) is dropped front to back -/
def dropGuardsFront (k : Nat) : Nat → P Unit
  | 0 => pure ()
  | fuel + 1 => do
    let l ← K.getL (Heap.localL k)
    match l.guards with
    | [] => pure ()
    | g :: rest =>
      K.setL (Heap.localL k) { l with guards := rest }
      dropGuard g
      dropGuardsFront k fuel

def IR.unwind (ir : IR) (tid : Nat) : P Unit := do
  let h ← K.getU
  match h.spawned.findIdx? (· == some tid) with
  | none => pure ()
  | some k =>
    let l ← K.getL (Heap.localL k)
    let _ := ir
    dropGuardsFront k (l.guards.length + 1)

def IR.program (ir : IR) : Program :=
  { U := Heap, init := ir.initHeap, bodies := ir.body, unwind := ir.unwind }

end ShuttleModel
