import ShuttleModel.Runner
import ShuttleModel.Serialize
/-
  `ReplayScheduler` — transcription of shuttle-schedulers/src/replay.rs as a `FullScheduler`.

  The schedule being replayed is a `ShuttleModel.Schedule` (Serialize.lean: `seed` + `ScheduleStep`s, the type
  `deserialize_schedule` produces).  The kernel records its schedule with its own copy `SStep` of the step type;
  `ofSStep` / `recorded` convert.

  Not modelled: `new_from_file` (file I/O around `new_from_encoded`), the `trace!` line, the `Debug` rendering of
  the task list inside the "scheduled task is not runnable" message (the model's message is the fixed prefix).
-/
namespace ShuttleModel.Replay
open ShuttleModel

/-- the kernel's `SStep` and the serializer's `ScheduleStep` are the same Rust type `ScheduleStep` -/
def ofSStep : SStep → ScheduleStep
  | .task t => .task t
  | .random => .random

/-- `CURRENT_SCHEDULE` of a kernel as a `Schedule` value (what a failing test prints / `Runner` reports) -/
def recorded (k : Kernel) : Schedule := { seed := k.seed, steps := k.schedule_.map ofSStep }

/-- `ReplayScheduler` -/
structure ReplayState where
  schedule : Schedule
  steps : Nat := 0
  stepsSkipped : Nat := 0
  started : Bool := false
  allowIncomplete : Bool := false
  data : Rng.RandomDataSource
  targetClock : Option Clock := none
deriving Repr

/-- `ReplayScheduler::new_from_schedule` -/
def newFromSchedule (schedule : Schedule) : ReplayState :=
  { schedule := schedule, steps := 0, stepsSkipped := 0, started := false, allowIncomplete := false,
    data := Rng.RandomDataSource.initialize schedule.seed, targetClock := none }

/-- `ReplayScheduler::new_from_encoded`; `none` = the `expect("invalid schedule")` panic -/
def newFromEncoded (encoded : String) : Option ReplayState :=
  match deserializeSchedule encoded with
  | some schedule => some (newFromSchedule schedule)
  | none => none

/-- `set_allow_incomplete` -/
def setAllowIncomplete (s : ReplayState) : ReplayState := { s with allowIncomplete := true }

/-- `set_target_clock` -/
def setTargetClock (s : ReplayState) (c : Clock) : ReplayState := { s with targetClock := some c }

/-- `new_execution` -/
def newExec (s : ReplayState) : NewExec ReplayState :=
  if s.started then .none
  else
    let (seed, d) := s.data.reinitialize
    .some seed { s with started := true, data := d }

/-- `while let Some(ScheduleStep::Random) = self.schedule.steps.get(self.steps)
      { skipped += 1; self.steps += 1; self.data_source.next_u64(); }`
The first argument is the not yet consumed part of the schedule, `schedule.steps[self.steps..]` (so that
`steps.get(self.steps)` is its head and the loop is structurally recursive). Returns `skipped`. -/
def skipRandoms : List ScheduleStep → Nat → ReplayState → Nat × ReplayState
  | .random :: rest, skipped, s =>
    skipRandoms rest (skipped + 1) { s with steps := s.steps + 1, data := s.data.nextU64.2 }
  | _, skipped, s => (skipped, s)

def msgEndedEarly : String := "schedule ended early"
def msgExpectedSwitch : String := "expected context switch but next schedule step is random choice"
def msgNotRunnable : String := "scheduled task is not runnable"
def msgExpectedRandom : String := "expected random choice but next schedule step is context switch"
def msgIndex : String := "index out of bounds"
def msgFuel : String := "model: replay loop fuel exhausted"

/-- the `loop { … }` of `next_task`. One unit of `fuel` per iteration; every iteration that `continue`s has
consumed at least one step, so `schedule.steps.len() + 1 - self.steps` iterations always suffice
(`ShuttleProofs.Replay.nextTaskLoop_fuel`, given `self.steps <= schedule.steps.len()`). -/
def nextTaskLoop : Nat → ReplayState → List TaskView → SchedAns × ReplayState
  | 0, s, _ => (.panic msgFuel, s)
  | fuel + 1, s, runnable =>
    match s.schedule.steps[s.steps]? with
    | none =>
      -- `self.steps >= self.schedule.steps.len()`: `assert!(self.allow_incomplete, …); return None`
      if s.allowIncomplete then (.choose none, s) else (.panic msgEndedEarly, s)
    | some .random => (.panic msgExpectedSwitch, s)
    | some (.task next) =>
      match runnable.find? (fun t => t.id == next) with
      | some task =>
        let s := { s with steps := s.steps + 1 }
        match s.targetClock with
        | some target =>
          if task.clock.le target then
            -- the target event causally depends on this event, so we schedule it
            (.choose (some next), s)
          else
            -- concurrent with the target: skip it and the random steps made by that thread
            let (skipped, s) := skipRandoms (s.schedule.steps.drop s.steps) 1 s
            nextTaskLoop fuel { s with stepsSkipped := s.stepsSkipped + skipped } runnable
        | none => (.choose (some next), s)
      | none =>
        -- `assert!(self.allow_incomplete, "scheduled task is not runnable, …"); return None`
        if s.allowIncomplete then (.choose none, s) else (.panic msgNotRunnable, s)

/-- `next_task` (`_current` and `_is_yielding` are ignored) -/
def nextTask (s : ReplayState) (runnable : List TaskView) (_current : Option Nat) (_isYielding : Bool) :
    SchedAns × ReplayState :=
  nextTaskLoop (s.schedule.steps.length + 1 - s.steps) s runnable

/-- `next_u64`: `match self.schedule.steps[self.steps]` — the index expression panics when the schedule is
exhausted -/
def nextU64 (s : ReplayState) : Except String Nat × ReplayState :=
  match s.schedule.steps[s.steps]? with
  | none => (.error msgIndex, s)
  | some .random =>
    let (v, d) := s.data.nextU64
    (.ok v, { s with steps := s.steps + 1, data := d })
  | some (.task _) => (.error msgExpectedRandom, s)

def replayScheduler : FullScheduler ReplayState where
  newExec := newExec
  sched := { nextTask := nextTask, nextU64 := nextU64 }

/-- `shuttle::replay(f, encoded)`: `Runner::new(ReplayScheduler::new_from_encoded(encoded), config).run(f)`.
`none` = "invalid schedule". -/
def replay (P : Program) (encoded : String) (maxSteps : MaxSteps) (fuel segFuel : Nat) :
    Option (RunnerResult P ReplayState) :=
  match newFromEncoded encoded with
  | some s => some (runner P replayScheduler maxSteps fuel segFuel 2 s [])
  | none => none

end ShuttleModel.Replay
