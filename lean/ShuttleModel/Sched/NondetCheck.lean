import ShuttleModel.Runner
/-
  `UncontrolledNondeterminismCheckScheduler<S>` — transcription of
  shuttle-schedulers/src/uncontrolled_nondeterminism.rs as a transformer of `FullScheduler`s.

  Every schedule of the wrapped scheduler is executed twice: a *recording* execution, in which the inner
  scheduler is consulted and every answer is appended to `previous_schedule`, then a *checking* execution, in which
  the inner scheduler is not consulted at all: the answers are read back from `previous_schedule` and what the
  runtime presents (runnable ids, `is_yielding`, kind of step) is compared with the recording.
-/
namespace ShuttleModel.NondetCheck
open ShuttleModel

/-- `ScheduleRecord` -/
inductive Record where
  /-- `Task(choice, runnable_ids, is_yielding)` -/
  | task (choice : Option Nat) (runnables : List Nat) (yielding : Bool)
  /-- `Random(value)` -/
  | random (v : Nat)
deriving DecidableEq, Repr

/-- `UncontrolledNondeterminismCheckScheduler<S>` -/
structure NondetState (σ : Type) where
  scheduler : σ
  recording : Bool := false
  previousSchedule : List Record := []
  currentStep : Nat := 0

/-- `UncontrolledNondeterminismCheckScheduler::new` -/
def new {σ : Type} (s : σ) : NondetState σ :=
  { scheduler := s, recording := false, previousSchedule := [], currentStep := 0 }

def msgEndedEarlier : String := "possible nondeterminism: current execution ended earlier than expected"
def msgShouldHaveEnded : String := "possible nondeterminism: current execution should have ended"
def msgRunnable : String := "possible nondeterminism: set of runnable tasks is different than expected"
def msgYielding : String := "possible nondeterminism: `next_task` was called with a different `is_yielding`"
def msgSwitchButRandom : String :=
  "possible nondeterminism: next step was context switch, but recording expected random number generation"
def msgRandomButSwitch : String :=
  "possible nondeterminism: next step was random number generation, but recording expected context switch"

/-- is `msg` one of the checker's own panics? -/
def isNondetMsg (msg : String) : Bool :=
  msg == msgEndedEarlier || msg == msgShouldHaveEnded || msg == msgRunnable || msg == msgYielding ||
    msg == msgSwitchButRandom || msg == msgRandomButSwitch

variable {σ : Type}

/-- `new_execution`.  When the inner scheduler returns `None` the run is over and the runner drops the scheduler
(`NewExec.none` carries no state). -/
def newExec (F : FullScheduler σ) (s : NondetState σ) : NewExec (NondetState σ) :=
  -- `let mut out = Some(Schedule::new(0));`  (dummy schedule for the checking execution)
  if !s.recording then
    -- start a new recording
    if s.currentStep != s.previousSchedule.length then .panic msgEndedEarlier
    else
      -- `self.previous_schedule.clear(); out = self.scheduler.new_execution();`
      match F.newExec s.scheduler with
      | .none => .none
      | .panic msg => .panic msg
      | .some seed inner =>
        -- `self.recording = !self.recording; self.current_step = 0;`
        .some seed { scheduler := inner, recording := true, previousSchedule := [], currentStep := 0 }
  else
    .some 0 { s with recording := false, currentStep := 0 }

/-- `next_task` -/
def nextTask (F : FullScheduler σ) (s : NondetState σ) (runnable : List TaskView) (current : Option Nat)
    (isYielding : Bool) : SchedAns × NondetState σ :=
  let runnableIds := runnable.map (·.id)
  if s.recording then
    match F.sched.nextTask s.scheduler runnable current isYielding with
    | (.choose choice, inner) =>
      (.choose choice,
        { s with scheduler := inner,
                 previousSchedule := s.previousSchedule ++ [.task choice runnableIds isYielding] })
    | (.panic msg, inner) => (.panic msg, { s with scheduler := inner })
  else
    match s.previousSchedule[s.currentStep]? with
    | none => (.panic msgShouldHaveEnded, s)       -- `self.current_step >= self.previous_schedule.len()`
    | some (.task maybeId runnables wasYielding) =>
      if runnables != runnableIds then (.panic msgRunnable, s)
      else if wasYielding != isYielding then (.panic msgYielding, s)
      else (.choose maybeId, { s with currentStep := s.currentStep + 1 })
    | some (.random _) => (.panic msgSwitchButRandom, s)

/-- `next_u64` -/
def nextU64 (F : FullScheduler σ) (s : NondetState σ) : Except String Nat × NondetState σ :=
  if s.recording then
    match F.sched.nextU64 s.scheduler with
    | (.ok next, inner) =>
      (.ok next, { s with scheduler := inner, previousSchedule := s.previousSchedule ++ [.random next] })
    | (.error msg, inner) => (.error msg, { s with scheduler := inner })
  else
    match s.previousSchedule[s.currentStep]? with
    | none => (.error msgShouldHaveEnded, s)
    | some (.task _ _ _) => (.error msgRandomButSwitch, s)
    | some (.random num) => (.ok num, { s with currentStep := s.currentStep + 1 })

/-- the wrapped scheduler -/
def check (F : FullScheduler σ) : FullScheduler (NondetState σ) where
  newExec := newExec F
  sched := { nextTask := nextTask F, nextU64 := nextU64 F }

end ShuttleModel.NondetCheck
