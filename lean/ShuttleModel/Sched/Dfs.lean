/-
Model of `shuttle-schedulers/src/dfs.rs` (`DfsScheduler`), transcribed line by line.

Rust state (`struct DfsScheduler`):
  max_iterations : Option<usize>      ↦ `maxIterations`
  allow_random_data : bool            ↦ omitted (only read by `next_u64`)
  iterations : usize                  ↦ `iterations`
  levels : Vec<(TaskId, bool)>        ↦ `levels`  (index 0 = first scheduling decision of an execution;
                                                   `(previous choice, was that the last choice at that level)`)
  steps : usize                       ↦ `steps`
  data_source : FixedDataSource       ↦ omitted (fixed seed `DFS_RANDOM_SEED`, re-initialised each execution)

`TaskId` is modelled as `Nat`.  `usize` arithmetic is modelled in `Nat` (no overflow is reachable: every
counter is bounded by the number of scheduling decisions / executions performed).

Core Lean only.  Everything is total and executable; every Rust panic site is an explicit `.panic`.
-/

namespace ShuttleModel.Dfs

structure DfsState where
  maxIterations : Option Nat
  iterations : Nat
  /-- `Vec<(TaskId, was_last)>`, index 0 = first decision. -/
  levels : List (Nat × Bool)
  steps : Nat
deriving Repr, DecidableEq

/-- dfs.rs:28-39 `DfsScheduler::new(max_iterations, _)`. -/
def DfsState.new (maxIterations : Option Nat) : DfsState :=
  { maxIterations := maxIterations, iterations := 0, levels := [], steps := 0 }

/-- dfs.rs:45-47 `has_more_choices(index)`: `self.levels[index..].iter().any(|(_, last)| !*last)`.

The Rust slice expression `levels[index..]` panics when `index > levels.len()`.  Both call sites satisfy
`index ≤ levels.len()` by construction (`new_execution` passes `0`; `next_task` passes `steps + 1` inside the
branch `steps < levels.len()`), and `nextTask` below re-checks that bound explicitly (as a `.panic` branch), so this
function is only ever evaluated where `List.drop` and the Rust slice agree. -/
def hasMoreChoices (s : DfsState) (index : Nat) : Bool :=
  (s.levels.drop index).any (fun l => !l.2)

/-- dfs.rs:51-65 `new_execution`.  `none` = the run ends.  (The Rust returns `Some(Schedule::new(seed))` where the
seed is the fixed, re-initialised data stream; only `Some`/`None` and the state update are modelled.) -/
def newExecution (s : DfsState) : Option DfsState :=
  -- 52: if self.max_iterations.map(|mi| self.iterations >= mi).unwrap_or(false) { return None; }
  if (s.maxIterations.map (fun mi => decide (s.iterations ≥ mi))).getD false then
    none
  -- 57: if self.iterations > 0 && !self.has_more_choices(0) { return None; }
  else if decide (s.iterations > 0) && !hasMoreChoices s 0 then
    none
  else
    -- 61-62: self.iterations += 1; self.steps = 0;
    some { s with iterations := s.iterations + 1, steps := 0 }

inductive NextResult where
  | ok (choice : Nat) (s : DfsState)
  | panic (msg : String)
deriving Repr, DecidableEq

/-- dfs.rs:69-98 `next_task(runnable, _current, _is_yielding)`.  `runnable` = the ids offered, in the order given.
Always returns `Some(next)` in Rust unless it panics; `.ok next s'` carries the updated state. -/
def nextTask (s : DfsState) (runnable : List Nat) : NextResult :=
  -- 70: if self.steps >= self.levels.len()
  if s.steps ≥ s.levels.length then
    -- 72: assert_eq!(self.steps, self.levels.len());
    if s.steps ≠ s.levels.length then
      .panic "assertion `left == right` failed (steps == levels.len())"
    else
      -- 73: let to_run = runnable.first().unwrap().id();
      match runnable with
      | [] => .panic "called `Option::unwrap()` on a `None` value (runnable.first())"
      | toRun :: _ =>
        -- 74: self.levels.push((to_run, runnable.len() == 1));   95: self.steps += 1;
        .ok toRun { s with levels := s.levels ++ [(toRun, runnable.length == 1)], steps := s.steps + 1 }
  else
    -- 77: let (last_choice, was_last) = self.levels[self.steps];
    match s.levels[s.steps]? with
    | none => .panic "index out of bounds (levels[steps])"   -- unreachable: steps < levels.len() here
    | some (lastChoice, wasLast) =>
      -- 78: self.has_more_choices(self.steps + 1)   (slice `levels[steps+1..]`, needs steps+1 ≤ len)
      if s.steps + 1 > s.levels.length then
        .panic "range start index out of range for slice (levels[steps+1..])"   -- unreachable, see above
      else if hasMoreChoices s (s.steps + 1) then
        -- 80: keep the same choice.   95: self.steps += 1;
        .ok lastChoice { s with steps := s.steps + 1 }
      else
        -- 83-86: assert!(!was_last, ...)
        if wasLast then
          .panic "if we are making a change, there should be another available option"
        else
          -- 87: let next_idx = runnable.iter().position(|t| t.id() == last_choice).unwrap() + 1;
          match runnable.findIdx? (fun id => id == lastChoice) with
          | none => .panic "called `Option::unwrap()` on a `None` value (position of last_choice)"
          | some pos =>
            let nextIdx := pos + 1
            -- 88: let next = runnable[next_idx].id();
            match runnable[nextIdx]? with
            | none => .panic "index out of bounds (runnable[next_idx])"
            | some next =>
              -- 89: self.levels.drain(self.steps..);
              -- 90: self.levels.push((next, next_idx == runnable.len() - 1));   95: self.steps += 1;
              .ok next { s with
                levels := s.levels.take s.steps ++ [(next, nextIdx == runnable.length - 1)],
                steps := s.steps + 1 }

end ShuttleModel.Dfs
