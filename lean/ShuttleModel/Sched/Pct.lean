import ShuttleModel.Rng

/-
Model of `shuttle-schedulers/src/pct.rs` (`PctScheduler`), transcribed line by line.

Rust state (`struct PctScheduler`):
  max_iterations : usize                 ↦ `maxIterations`
  max_depth : usize                      ↦ `maxDepth`
  iterations : usize                     ↦ `iterations`
  priorities : HashMap<TaskId, usize>    ↦ `priorities`, an association list kept sorted by key
                                           (`mapGet` = `HashMap::get`, `mapInsert` = `HashMap::insert`;
                                           the iteration order of the `HashMap` is never observed by pct.rs
                                           except inside a `debug_assert_eq!` that cannot fail, see below)
  next_priority : usize                  ↦ `nextPriority`
  change_points : Vec<usize>             ↦ `changePoints`
  max_steps, steps : usize               ↦ `maxSteps`, `steps`
  rng : Pcg64Mcg                         ↦ `rng`   (`ShuttleModel.Rng.Pcg`, bit exact)
  data_source : RandomDataSource         ↦ `data`  (`ShuttleModel.Rng.RandomDataSource`, bit exact)

`TaskId` is modelled as `Nat`; `runnable : &[&Task]` as the list of the offered ids in the order given.
`usize` arithmetic is modelled in `Nat`: every counter (`iterations`, `steps`, `max_steps`, `next_priority`)
is incremented by one per call, so no overflow is reachable in any realistic run; the two subtractions
`max_depth - 1`, `max_steps - 1` are guarded by `assert!(max_depth > 0)` (constructor) and
`assert!(max_steps > 0)` (pct.rs:79).

Every `expect()` / `unwrap()` / `assert!` site is an explicit `.panic` with the Rust message.  The three
`debug_assert!(old.is_some()/is_none(), "priority queue invariant")` sites are ALSO modelled as `.panic`s
(message prefixed `debug_assert: `): they fire in debug builds (the default for `cargo test`), and
`ShuttleProofs.C11` proves that under the scheduler invariant none of them is reachable from a call whose
`current` is a known task, so on those inputs the model also describes release builds.
The `debug_assert_eq!` at pct.rs:82-85 compares `priorities.iter().collect::<HashSet<_>>().len()` with
`priorities.len()`; the iterator yields `(&TaskId, &usize)` PAIRS whose keys are pairwise distinct, so that assertion
can never fail whatever the values are (it does not check what its comment says); it is therefore not modelled.

Model-only failure: the rejection loops of the RNG model carry fuel (`Rng.defaultFuel = 1024`, each round rejects
with probability < 1/2); running out of it is reported as `.panic "model: rng …"`.

Not modelled: the `SHUTTLE_RANDOM_SEED` override inside `seed_from_env` (the model takes the effective seed);
`PctScheduler::new` (draws the seed from `OsRng`).

Core Lean only.  Everything is total and executable.
-/

namespace ShuttleModel.Pct
open ShuttleModel

/-- `shuttle-engine/src/runtime/task/mod.rs:51`. -/
def DEFAULT_INLINE_TASKS : Nat := 16

/-! ## The `HashMap<TaskId, usize>` as a key-sorted association list -/

/-- `HashMap::get`. -/
def mapGet : List (Nat × Nat) → Nat → Option Nat
  | [], _ => none
  | (k', v') :: m, k => if k = k' then some v' else mapGet m k

/-- `HashMap::insert` (the map after the call; the returned old value is `mapGet m k` of the map before). -/
def mapInsert : List (Nat × Nat) → Nat → Nat → List (Nat × Nat)
  | [], k, v => [(k, v)]
  | (k', v') :: m, k, v =>
    if k = k' then (k, v) :: m
    else if k < k' then (k, v) :: (k', v') :: m
    else (k', v') :: mapInsert m k v

structure PctState where
  maxIterations : Nat
  maxDepth : Nat
  iterations : Nat
  /-- `HashMap<TaskId, usize>` as an association list sorted by key. -/
  priorities : List (Nat × Nat)
  nextPriority : Nat
  changePoints : List Nat
  maxSteps : Nat
  steps : Nat
  rng : Rng.Pcg
  data : Rng.RandomDataSource
deriving Repr, DecidableEq

/-- pct.rs:45-64 `PctScheduler::new_from_seed(seed, max_depth, max_iterations)` after the
    `assert!(max_depth > 0)` (see `newFromSeed?` for the checked version). -/
def PctState.newFromSeed (seed maxDepth maxIterations : Nat) : PctState :=
  { maxIterations := maxIterations
    maxDepth := maxDepth
    iterations := 0
    -- 56: (0..DEFAULT_INLINE_TASKS).map(|i| (TaskId::from(i), i)).collect()
    priorities := (List.range DEFAULT_INLINE_TASKS).map (fun i => (i, i))
    nextPriority := DEFAULT_INLINE_TASKS
    changePoints := []
    maxSteps := 0
    steps := 0
    rng := Rng.seedFromU64 seed
    data := Rng.RandomDataSource.initialize seed }

/-- pct.rs:45-64 including line 46 `assert!(max_depth > 0)` (`none` = that panic). -/
def PctState.newFromSeed? (seed maxDepth maxIterations : Nat) : Option PctState :=
  if maxDepth > 0 then some (PctState.newFromSeed seed maxDepth maxIterations) else none

inductive NewExec where
  | none
  | some (seed : Nat) (s : PctState)
  | panic (msg : String)
deriving Repr, DecidableEq

/-- pct.rs:90-93: `for (i, priority) in priorities.into_iter().enumerate() { let old = self.priorities.insert(i, priority);
    debug_assert!(old.is_some()) }`, starting at index `i`.  `none` = the `debug_assert!` fails. -/
def reinsertLoop (m : List (Nat × Nat)) : Nat → List Nat → Option (List (Nat × Nat))
  | _, [] => some m
  | i, p :: ps =>
    match mapGet m i with
    | none => none
    | some _ => reinsertLoop (mapInsert m i p) (i + 1) ps

/-- pct.rs:68-111 `new_execution`. `.some seed s'`: Rust returns `Some(Schedule::new(seed))`. -/
def newExecution (s : PctState) : NewExec :=
  -- 69: if self.iterations >= self.max_iterations { return None; }
  if s.iterations ≥ s.maxIterations then .none
  else
    -- 73: self.steps = 0;
    let s := { s with steps := 0 }
    -- 78: if self.iterations > 0 {
    if s.iterations > 0 then
      -- 79: assert!(self.max_steps > 0, "test closure did not exercise any concurrency");
      if ¬ (s.maxSteps > 0) then .panic "test closure did not exercise any concurrency"
      else
        -- 88-89: let mut priorities = (0..self.priorities.len()).collect::<Vec<_>>(); priorities.shuffle(&mut self.rng);
        match Rng.shuffle s.rng (List.range s.priorities.length) with
        | none => .panic "model: rng (shuffle)"
        | some (prios, g) =>
          -- 90-93
          match reinsertLoop s.priorities 0 prios with
          | none => .panic "debug_assert: priority queue invariant"
          | some m =>
            -- 94: self.next_priority = self.priorities.len();
            let nextPriority := m.length
            -- 99: let num_points = std::cmp::min(self.max_depth - 1, self.max_steps - 1);
            let numPoints := min (s.maxDepth - 1) (s.maxSteps - 1)
            -- 102-105: sample(&mut self.rng, self.max_steps - 1, num_points).iter().map(|v| v + 1).collect()
            match Rng.indexSample g (s.maxSteps - 1) numPoints with
            | none => .panic "model: rng (index::sample)"
            | some (cps, g') =>
              let s := { s with priorities := m, nextPriority := nextPriority,
                                changePoints := cps.map (· + 1), rng := g' }
              -- 108-110
              let (seed, ds) := s.data.reinitialize
              .some seed { s with iterations := s.iterations + 1, data := ds }
    else
      -- 108: self.iterations += 1;  110: Some(Schedule::new(self.data_source.reinitialize()))
      let (seed, ds) := s.data.reinitialize
      .some seed { s with iterations := s.iterations + 1, data := ds }

inductive Next where
  | ok (choice : Nat) (s : PctState)
  | panic (msg : String)
deriving Repr, DecidableEq

/-- `Iterator::max` over the offered ids (`none` on an empty slice). -/
def listMax : List Nat → Option Nat
  | [] => none
  | x :: xs => some (xs.foldl max x)

/-- State threaded through the new-task loop (pct.rs:118-132): `(priorities, next_priority, rng)`. -/
structure LoopState where
  priorities : List (Nat × Nat)
  nextPriority : Nat
  rng : Rng.Pcg
deriving Repr, DecidableEq

/-- One iteration of the body pct.rs:119-131 for `new_task_id`. -/
def newTaskStep (st : LoopState) (newTaskId : Nat) : Except String LoopState :=
  -- 121: let target_task_id = TaskId::from(self.rng.gen_range(0..self.priorities.len()) + 1);
  if st.priorities.length = 0 then .error "cannot sample empty range"
  else
    match Rng.genRangeUsize 0 st.priorities.length st.rng with
    | none => .error "model: rng (gen_range)"
    | some (r, g) =>
      let target := r + 1
      -- 122-128
      let stepResult : Except String (Nat × List (Nat × Nat)) :=
        if target = newTaskId then .ok (st.nextPriority, st.priorities)
        else
          match mapGet st.priorities target with
          | none => .error "priority queue invariant"
          | some old => .ok (old, mapInsert st.priorities target st.nextPriority)
      match stepResult with
      | .error e => .error e
      | .ok (newTaskPriority, m) =>
        -- 129-130: let old = self.priorities.insert(new_task_id, new_task_priority); debug_assert!(old.is_none())
        match mapGet m newTaskId with
        | some _ => .error "debug_assert: priority queue invariant"
        | none =>
          -- 131: self.next_priority += 1;
          .ok { priorities := mapInsert m newTaskId newTaskPriority
                nextPriority := st.nextPriority + 1
                rng := g }

/-- pct.rs:118 `for new_task_id in max_known_task..1 + max_new_task`: `count` remaining iterations, the next one
    being for `newTaskId`. -/
def newTaskLoop : Nat → Nat → LoopState → Except String LoopState
  | 0, _, st => .ok st
  | count + 1, newTaskId, st =>
    match newTaskStep st newTaskId with
    | .error e => .error e
    | .ok st' => newTaskLoop count (newTaskId + 1) st'

/-- `Ord` on `Option<&usize>`: `None < Some(_)`; strict "less than". -/
def keyLt : Option Nat → Option Nat → Bool
  | none, none => false
  | none, some _ => true
  | some _, none => false
  | some a, some b => decide (a < b)

/-- `Iterator::min_by_key`: `reduce(|x, y| if key(x) > key(y) { y } else { x })` — the FIRST minimal element. -/
def minByKey (key : Nat → Option Nat) : List Nat → Option Nat
  | [] => none
  | x :: xs => some (xs.foldl (fun best y => if keyLt (key y) (key best) then y else best) x)

/-- pct.rs:141-154: the priority-change / step-counting block (`numRunnable = runnable.len()`). -/
def changeStep (s : PctState) (numRunnable : Nat) (current : Option Nat) (isYielding : Bool) :
    Except String PctState :=
  -- 141: if runnable.len() > 1 {
  if numRunnable > 1 then
    -- 142: if self.change_points.contains(&self.steps) || is_yielding {
    let r1 : Except String PctState :=
      if s.changePoints.contains s.steps || isYielding then
        -- 144: let current = current.expect("self.steps > 0 should mean a task has run");
        match current with
        | none => .error "self.steps > 0 should mean a task has run"
        | some cur =>
          -- 145-147: let old = self.priorities.insert(current, self.next_priority); debug_assert!(old.is_some());
          --          self.next_priority += 1;
          match mapGet s.priorities cur with
          | none => .error "debug_assert: priority queue invariant"
          | some _ =>
            .ok { s with priorities := mapInsert s.priorities cur s.nextPriority
                         nextPriority := s.nextPriority + 1 }
      else .ok s
    match r1 with
    | .error e => .error e
    | .ok s =>
      -- 150-153: self.steps += 1; if self.steps > self.max_steps { self.max_steps = self.steps; }
      let s := { s with steps := s.steps + 1 }
      .ok (if s.steps > s.maxSteps then { s with maxSteps := s.steps } else s)
  else .ok s

/-- pct.rs:113-164 `next_task(runnable, current, is_yielding)`. -/
def nextTask (s : PctState) (runnable : List Nat) (current : Option Nat) (isYielding : Bool) : Next :=
  -- 116: let max_known_task = self.priorities.len();
  let maxKnownTask := s.priorities.length
  -- 117: let max_new_task = usize::from(runnable.iter().map(|t| t.id()).max().unwrap());
  match listMax runnable with
  | none => .panic "called `Option::unwrap()` on a `None` value"
  | some maxNewTask =>
    -- 118-132: for new_task_id in max_known_task..1 + max_new_task { … }
    match newTaskLoop (1 + maxNewTask - maxKnownTask) maxKnownTask
            { priorities := s.priorities, nextPriority := s.nextPriority, rng := s.rng } with
    | .error e => .panic e
    | .ok st =>
      let s := { s with priorities := st.priorities, nextPriority := st.nextPriority, rng := st.rng }
      -- 141-154
      match changeStep s runnable.length current isYielding with
      | .error e => .panic e
      | .ok s =>
        -- 157-163: Some(runnable.iter().min_by_key(|t| self.priorities.get(&t.id())).expect("priority queue invariant").id())
        match minByKey (mapGet s.priorities) runnable with
        | none => .panic "priority queue invariant"
        | some c => .ok c s

/-- pct.rs:166-168 `next_u64`. -/
def nextU64 (s : PctState) : Nat × PctState :=
  let (v, ds) := s.data.nextU64
  (v, { s with data := ds })

end ShuttleModel.Pct
