import ShuttleModel.Lang
import ShuttleModel.Runner
import ShuttleModel.Serialize
/-
  Pure parts of the line-protocol driver: rendering of logs, prediction mode (the model's own
  schedulers drive the model) and the independent enumerator of a program's choice tree.
-/
namespace ShuttleModel.Driver
open ShuttleModel

def idsStr (l : List Nat) : String := ",".intercalate (l.map toString)
def optStr : Option Nat → String
  | some n => toString n
  | none => "-"

def evLine : Ev → String
  | .dec off cur y ch => s!"D {idsStr off} {optStr cur} {if y then "y" else "n"} > {optStr ch}"
  | .draw v => s!"R {v}"
  | .obs s => s

def outcomeLine : Outcome → String
  | .ok | .stopped | .abandoned => "E end"
  | .deadlock l => "E deadlock " ++ ",".intercalate (l.map fun (t, d, p) =>
      toString t ++ (if d then ":d" else "") ++ (if p then ":p" else ""))
  | .panic _ msg => s!"E panic {msg}"
  | .stepBoundFail n => s!"E stepbound {n}"
  | .abort msg => s!"E abort {msg}"
  | .schedulingError => "E schedulingerror"
  | .schedPanic msg => s!"E panic {msg}"
  | .outOfFuel => "E model-out-of-fuel"

def toSched (seed : Nat) (steps : List SStep) : Schedule :=
  { seed := seed, steps := steps.map fun s => match s with | .task t => ScheduleStep.task t | .random => .random }

def schedHex (seed : Nat) (steps : List SStep) : String :=
  (serializeSchedule (toSched seed steps)).replace "\n" ""

def execLines {P : Program} {σ : Type} (i seed : Nat) (r : Result P σ) : List String :=
  [s!"X {i} {seed}"] ++ r.st.log.toList.map evLine ++ [outcomeLine r.outcome, s!"S {schedHex seed r.st.k.schedule_}"]

def fuelLoop : Nat := 400000
def fuelSeg : Nat := 200000

def runnerLines {P : Program} {σ : Type} (res : RunnerResult P σ) : List String :=
  let body := (res.execs.zipIdx.flatMap fun ((seed, r), i) => execLines i seed r)
  match res.count, res.newExecPanic with
  | some n, _ => body ++ ["X end", s!"N {n}"]
  | none, some msg => body ++ [s!"E panic {msg}", "N fail"]
  | none, none => body ++ ["N fail"]

/-- prediction mode: the model's scheduler, from the run spec alone -/
def predictProgram (ir : IR) : List String :=
  let parts := ir.run.splitOn ":"
  let num (i : Nat) : Nat := ((parts[i]?).bind String.toNat?).getD 0
  let P := ir.program
  match parts.headD "" with
  | "rr" =>
    runnerLines (runner P rrScheduler ir.steps fuelLoop fuelSeg 100000 { maxIterations := max (num 1) 1 } [])
  | "random" =>
    runnerLines (runner P randomScheduler ir.steps fuelLoop fuelSeg 100000
      (Rng.RandomScheduler.newFromSeed (num 1) (max (num 2) 1)) [])
  | "dfs" =>
    let mx : Option Nat := (parts[1]?).bind String.toNat?
    runnerLines (runner P dfsScheduler ir.steps fuelLoop fuelSeg 1000000
      { dfs := Dfs.DfsState.new mx, allowRandom := true } [])
  | "pct" =>
    runnerLines (runner P pctScheduler ir.steps fuelLoop fuelSeg 100000
      (Pct.PctState.newFromSeed (num 1) (max (num 2) 1) (max (num 3) 1)) [])
  | other => [s!"E model-unsupported-run {other}"]

/-! ### Independent enumeration of the choice tree (shares no code with `Sched/Dfs.lean`) -/

/-- follow a fixed prefix of choices, then always take the first offered task; remembers what was
offered at every decision -/
structure EnumSt where
  prefix_ : List Nat
  seen : List (List Nat × Nat) := []     -- (offered, chosen), newest first
  data : Rng.FixedDataSource

def enumScheduler : Scheduler EnumSt where
  nextTask s views _ _ :=
    let ids := views.map (·.id)
    match s.prefix_ with
    | c :: rest => (.choose (some c), { s with prefix_ := rest, seen := (ids, c) :: s.seen })
    | [] => match ids.head? with
      | some c => (.choose (some c), { s with seen := (ids, c) :: s.seen })
      | none => (.panic "empty offer", s)
  nextU64 s := let (v, d) := s.data.nextU64; (.ok v, { s with data := d })

/-- explicit-stack enumeration: returns the `S` line (recorded schedule) and `E` line of every
maximal choice sequence, each exactly once, up to `limit` leaves -/
def enumerate (ir : IR) (limit : Nat) : List String × Bool :=
  let P := ir.program
  let rec go (fuel : Nat) (stack : List (List Nat)) (acc : List String) (count : Nat) : List String × Bool :=
    match fuel with
    | 0 => (acc.reverse, false)
    | fuel + 1 =>
      match stack with
      | [] => (acc.reverse, true)
      | p :: rest =>
        if count ≥ limit then (acc.reverse, false) else
        let ds := (Rng.FixedDataSource.initialize Generated.DFS_RANDOM_SEED)
        let (seed, ds) := ds.reinitialize
        let r := execute P enumScheduler ir.steps seed { prefix_ := p, data := ds } fuelLoop fuelSeg
        let decisions := r.st.sch.seen.reverse            -- oldest first
        let choices := decisions.map (·.2)
        -- siblings to the right of every decision at or beyond the prefix, deepest first on the
        -- stack last so that enumeration order is depth-first left-to-right
        let groups := (decisions.zipIdx.filter (fun (_, i) => i ≥ p.length)).map fun ((off, c), i) =>
          (off.dropWhile (· != c)).drop 1 |>.map fun a => choices.take i ++ [a]
        let line := s!"L {schedHex seed r.st.k.schedule_} {outcomeLine r.outcome}"
        go fuel (groups.reverse.flatten ++ rest) (line :: acc) (count + 1)
  go (limit + 1) [[]] [] 0

def enumerateProgram (ir : IR) (limit : Nat) : List String :=
  let (ls, complete) := enumerate ir limit
  ls ++ [if complete then s!"T complete {ls.length}" else s!"T truncated {ls.length}"]

end ShuttleModel.Driver
