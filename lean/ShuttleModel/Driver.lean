import ShuttleModel.Lang
import ShuttleModel.Runner
import ShuttleModel.Serialize
import ShuttleModel.Ref
/-
  Pure parts of the line-protocol driver: rendering of logs, prediction mode (the model's own
  schedulers drive the model) and the independent enumerator of a program's choice tree.
-/
namespace ShuttleModel.Driver
open ShuttleModel

def idsStr (l : List Nat) : String := ",".intercalate (l.map toString)
def optStr : Option Nat → String
  | some n => toString n
  | none => "-"

def evLine : Ev → String
  | .dec off cur y ch => s!"D {idsStr off} {optStr cur} {if y then "y" else "n"} > {optStr ch}"
  | .draw v => s!"R {v}"
  | .obs s => s

def outcomeLine : Outcome → String
  | .ok | .stopped | .abandoned => "E end"
  | .deadlock l => "E deadlock " ++ ",".intercalate (l.map fun (t, d, p) =>
      toString t ++ (if d then ":d" else "") ++ (if p then ":p" else ""))
  | .panic _ msg => s!"E panic {msg}"
  | .stepBoundFail n => s!"E stepbound {n}"
  | .abort msg => s!"E abort {msg}"
  | .schedulingError => "E schedulingerror"
  | .schedPanic msg => s!"E panic {msg}"
  | .outOfFuel => "E model-out-of-fuel"

def toSched (seed : Nat) (steps : List SStep) : Schedule :=
  { seed := seed, steps := steps.map fun s => match s with | .task t => ScheduleStep.task t | .random => .random }

def schedHex (seed : Nat) (steps : List SStep) : String :=
  (serializeSchedule (toSched seed steps)).replace "\n" ""

def execLines {P : Program} {σ : Type} (i seed : Nat) (r : Result P σ)
    (fix : Outcome → Kernel → P.U → Outcome := fun o _ _ => o) : List String :=
  [s!"X {i} {seed}"] ++ r.st.log.toList.map evLine ++
    [outcomeLine (fix r.outcome r.st.k r.st.u), s!"S {schedHex seed r.st.k.schedule_}"]

def fuelLoop : Nat := 400000
def fuelSeg : Nat := 200000

def runnerLines {P : Program} {σ : Type} (res : RunnerResult P σ)
    (fix : Outcome → Kernel → P.U → Outcome := fun o _ _ => o) : List String :=
  let body := (res.execs.zipIdx.flatMap fun ((seed, r), i) => execLines i seed r fix)
  match res.count, res.newExecPanic with
  | some n, _ => body ++ ["X end", s!"N {n}"]
  | none, some msg => body ++ [s!"E panic {msg}", "N fail"]
  | none, none => body ++ ["N fail"]

/-- prediction mode: the model's scheduler, from the run spec alone -/
def predictProgram (ir : IR) : List String :=
  let parts := ir.run.splitOn ":"
  let num (i : Nat) : Nat := ((parts[i]?).bind String.toNat?).getD 0
  let P := ir.program
  match parts.headD "" with
  | "rr" =>
    runnerLines (runner P rrScheduler ir.steps fuelLoop fuelSeg 100000 { maxIterations := max (num 1) 1 } [])
      ir.finalOutcome
  | "random" =>
    runnerLines (runner P randomScheduler ir.steps fuelLoop fuelSeg 100000
      (Rng.RandomScheduler.newFromSeed (num 1) (max (num 2) 1)) []) ir.finalOutcome
  | "dfs" =>
    let mx : Option Nat := (parts[1]?).bind String.toNat?
    runnerLines (runner P dfsScheduler ir.steps fuelLoop fuelSeg 1000000
      { dfs := Dfs.DfsState.new mx, allowRandom := true } []) ir.finalOutcome
  | "pct" =>
    runnerLines (runner P pctScheduler ir.steps fuelLoop fuelSeg 100000
      (Pct.PctState.newFromSeed (num 1) (max (num 2) 1) (max (num 3) 1)) []) ir.finalOutcome
  | other => [s!"E model-unsupported-run {other}"]

/-! ### Independent enumeration of the choice tree (shares no code with `Sched/Dfs.lean`) -/

/-- follow a fixed prefix of choices, then always take the first offered task; remembers what was
offered at every decision -/
structure EnumSt where
  prefix_ : List Nat
  seen : List (List Nat × Nat) := []     -- (offered, chosen), newest first
  data : Rng.FixedDataSource

def enumScheduler : Scheduler EnumSt where
  nextTask s views _ _ :=
    let ids := views.map (·.id)
    match s.prefix_ with
    | c :: rest => (.choose (some c), { s with prefix_ := rest, seen := (ids, c) :: s.seen })
    | [] => match ids.head? with
      | some c => (.choose (some c), { s with seen := (ids, c) :: s.seen })
      | none => (.panic "empty offer", s)
  nextU64 s := let (v, d) := s.data.nextU64; (.ok v, { s with data := d })

/-- explicit-stack enumeration: returns the `S` line (recorded schedule) and `E` line of every
maximal choice sequence, each exactly once, up to `limit` leaves -/
def enumerate (ir : IR) (limit : Nat) : List String × Bool :=
  let P := ir.program
  let rec go (fuel : Nat) (stack : List (List Nat)) (acc : List String) (count : Nat) : List String × Bool :=
    match fuel with
    | 0 => (acc.reverse, false)
    | fuel + 1 =>
      match stack with
      | [] => (acc.reverse, true)
      | p :: rest =>
        if count ≥ limit then (acc.reverse, false) else
        let ds := (Rng.FixedDataSource.initialize Generated.DFS_RANDOM_SEED)
        let (seed, ds) := ds.reinitialize
        let r := execute P enumScheduler ir.steps seed { prefix_ := p, data := ds } fuelLoop fuelSeg
        let decisions := r.st.sch.seen.reverse            -- oldest first
        let choices := decisions.map (·.2)
        -- siblings to the right of every decision at or beyond the prefix, deepest first on the
        -- stack last so that enumeration order is depth-first left-to-right
        let groups := (decisions.zipIdx.filter (fun (_, i) => i ≥ p.length)).map fun ((off, c), i) =>
          (off.dropWhile (· != c)).drop 1 |>.map fun a => choices.take i ++ [a]
        let line := s!"L {schedHex seed r.st.k.schedule_} {outcomeLine r.outcome}"
        go fuel (groups.reverse.flatten ++ rest) (line :: acc) (count + 1)
  go (limit + 1) [[]] [] 0

def enumerateProgram (ir : IR) (limit : Nat) : List String :=
  let (ls, complete) := enumerate ir limit
  ls ++ [if complete then s!"T complete {ls.length}" else s!"T truncated {ls.length}"]

/-! ### C02: outcome sets (reference semantics vs the model kernel's choice tree) -/

def sortStrings (l : List String) : List String := (l.toArray.qsort (· < ·)).toList

def dedupSorted : List String → List String
  | a :: b :: rest => if a == b then dedupSorted (b :: rest) else a :: dedupSorted (b :: rest)
  | l => l

/-- `ref` mode: every outcome the sequentially consistent reference semantics allows -/
def refProgram (ir : IR) (limit : Nat) (cfg : Ref.Cfg := {}) : List String :=
  let (os, complete) := Ref.outcomes ir limit cfg
  let ls := dedupSorted (sortStrings (os.map (·.str)))
  ls.map ("U " ++ ·) ++ [if complete then s!"T complete {ls.length}" else s!"T truncated {ls.length}"]

/-- the outcome of one execution of the model kernel, in the canonical format of
`Ref.Outcome.str`: per body the `pc=result` pairs of its `O` lines, then the termination kind -/
def projectOutcome (ir : IR) (log : List String) (outcome : Outcome) : String :=
  let n := ir.tasks.length
  let opName (k pc : Nat) : String := match (ir.tasks[k]?).bind (·.ops[pc]?) with | some o => o.name | none => ""
  let opNum (k pc : Nat) : Nat := match (ir.tasks[k]?).bind (·.ops[pc]?) with | some o => o.num 0 | none => 0
  -- (body, pc, result) of every logged operation, oldest first; bodies that logged `end`
  let (obs, ended) := log.foldl (fun (acc : List (Nat × Nat × String) × List Nat) l =>
    match l.splitOn " " with
    | ["O", _, k, "end"] => (acc.1, ((k.toNat?).getD 0) :: acc.2)
    | ["O", _, k, pc, res] =>
      match k.toNat?, pc.toNat? with
      | some k, some pc => (acc.1 ++ [(k, pc, res)], acc.2)
      | _, _ => acc
    | _ => acc) ([], [])
  let spawned := 0 :: (obs.filter fun (k, pc, res) =>
      (opName k pc == "spawn" || opName k pc == "scope_spawn") && res == "ok").map fun (k, pc, _) => opNum k pc
  let per := (List.range n).map fun k =>
    toString k ++ ":" ++ ",".intercalate ((obs.filter (·.1 == k)).map fun (_, pc, res) =>
      toString pc ++ "=" ++ (if opName k pc == "rand" then "v:?" else res))
  let unfinished := (List.range n).filter fun k => spawned.contains k && !ended.contains k
  let term := match outcome with
    | .ok | .stopped | .abandoned => "ok"
    | .deadlock _ => "deadlock " ++ ",".intercalate (unfinished.map toString)
    | .panic _ _ | .schedPanic _ => "panic"
    | .stepBoundFail _ => "other:stepbound"
    | .abort _ => "other:abort"
    | .schedulingError => "other:schedulingerror"
    | .outOfFuel => "other:model-out-of-fuel"
  ";".intercalate per ++ ";E:" ++ term

/-- the loop of `enumerate`, keeping for every leaf its schedule, the observation lines of its log
(oldest first) and how it ended (newest leaf first) -/
def enumerateLeaves (ir : IR) (limit : Nat) : List (String × List String × Outcome) × Bool :=
  let P := ir.program
  let rec go (fuel : Nat) (stack : List (List Nat)) (acc : List (String × List String × Outcome)) (count : Nat) :
      List (String × List String × Outcome) × Bool :=
    match fuel with
    | 0 => (acc, false)
    | fuel + 1 =>
      match stack with
      | [] => (acc, true)
      | p :: rest =>
        if count ≥ limit then (acc, false) else
        let ds := (Rng.FixedDataSource.initialize Generated.DFS_RANDOM_SEED)
        let (seed, ds) := ds.reinitialize
        let r := execute P enumScheduler ir.steps seed { prefix_ := p, data := ds } fuelLoop fuelSeg
        let decisions := r.st.sch.seen.reverse
        let choices := decisions.map (·.2)
        let groups := (decisions.zipIdx.filter (fun (_, i) => i ≥ p.length)).map fun ((off, c), i) =>
          (off.dropWhile (· != c)).drop 1 |>.map fun a => choices.take i ++ [a]
        let obsLines := r.st.log.toList.filterMap fun e => match e with | .obs s => some s | _ => none
        go fuel (groups.reverse.flatten ++ rest) ((schedHex seed r.st.k.schedule_, obsLines, r.outcome) :: acc) (count + 1)
  go (limit + 1) [[]] [] 0

/-- every leaf of the model kernel's choice tree projected to (schedule, outcome), newest first -/
def enumerateOutcomes (ir : IR) (limit : Nat) : List (String × String) × Bool :=
  let (leaves, complete) := enumerateLeaves ir limit
  (leaves.map fun (h, obs, o) => (h, projectOutcome ir obs o), complete)

/-- `outcomes` mode: the outcome set of the model kernel's complete choice tree (`U` lines), after
the schedule and outcome of every leaf in enumeration order (`L <schedule-hex> <outcome>`) -/
def outcomesProgram (ir : IR) (limit : Nat) : List String :=
  let (leaves, complete) := enumerateOutcomes ir limit
  let os := leaves.map (·.2)
  let ls := dedupSorted (sortStrings os)
  leaves.reverse.map (fun (h, o) => s!"L {h} {o}") ++ ls.map ("U " ++ ·) ++ [if complete then s!"T complete {os.length} {ls.length}" else s!"T truncated {os.length} {ls.length}"]

/-- `corpus/C02/f1_mpsc_drop_no_switch.vp` (the same program as `ShuttleProofs.C02.Witness.mpscDrop`) -/
def c02WitnessText : String :=
  "=== c02_f1_mpsc_drop\nconfig steps=none clocks=0\nobj c chan unb\n" ++
  "task 0 thread\n  spawn 1\n  drop_tx c\n  recv c\n  try_recv c\nend\n" ++
  "task 1 thread\n  send c 1\n  drop_tx c\nend\nrun dfs:100\n"

def c02WitnessMissing : String := "0:0=ok,1=ok,2=v:1,3=err:empty;1:0=ok,1=ok;E:ok"

/-- `c02witness` mode — the executable half of `incomplete_witness_mpsc_drop`: the missing outcome is
in `Ref.outcomes` (also kernel-checked: `ShuttleProofs.C02.incomplete_witness_mpsc_drop_ref`), the
model kernel's choice tree is enumerated completely and none of its leaves has that outcome.
(The model-kernel half cannot be checked by the Lean kernel: `execute` does not reduce there —
`Op.num` goes through `String.toNat?` — so it is evaluated by the compiled driver.) -/
def c02Witness : List String × Bool :=
  match parseBatch c02WitnessText with
  | [ir] =>
    let (ros, rcomplete) := Ref.outcomes ir 100000 { spuriousPark := false, leaderLast := true }
    let refHas := ros.any (·.str == c02WitnessMissing)
    let (leaves, mcomplete) := enumerateOutcomes ir 1000
    let modelHas := leaves.any (·.2 == c02WitnessMissing)
    let holds := refHas && rcomplete && mcomplete && !modelHas
    ([s!"W ref-complete {rcomplete} outcomes {ros.length}", s!"W ref-has-missing {refHas}",
      s!"W model-complete {mcomplete} leaves {leaves.length}", s!"W model-has-missing {modelHas}",
      s!"W incomplete_witness_mpsc_drop {if holds then "holds" else "does-not-hold"}"], holds)
  | _ => (["W parse-error"], false)

end ShuttleModel.Driver
