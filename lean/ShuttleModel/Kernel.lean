import ShuttleModel.Clock
/-
  Layer K — the runtime kernel.  Transcription of
    shuttle-engine/src/runtime/task/mod.rs      (Task, TaskState, ParkState and their transitions)
    shuttle-engine/src/runtime/execution.rs     (ExecutionState: schedule(), advance_to_next_task,
                                                 spawn_*, next_u64, exit_current_truncates_execution,
                                                 run_to_completion, Execution::run's error mapping)
    shuttle-engine/src/runtime/task/waker.rs    (raw_waker_wake)
  User code (and every synchronisation primitive built on the kernel) is a *parameter*: a program
  in the free monad `Prog U` over the kernel API `KOp`, with an arbitrary shared state type `U`.
-/
namespace ShuttleModel

/-! ### Tasks -/

/-- `TaskState` -/
inductive TState where
  | runnable
  | blocked (spurious : Bool)
  | sleeping
  | finished
deriving DecidableEq, Repr, Inhabited

/-- The fields of `Task` that influence behaviour (`ParkState` flattened). -/
structure Task where
  state : TState := .runnable
  detached : Bool := false
  tokenAvail : Bool := false
  blockedInPark : Bool := false
  woken : Bool := false
  waiter : Option Nat := none
  clock : Clock := Clock.new
  parent : Option Nat := none
deriving Repr, Inhabited

namespace Task

def runnable (t : Task) : Bool := t.state == .runnable
def isBlocked (t : Task) : Bool := match t.state with | .blocked _ => true | _ => false
def canSpuriouslyWakeup (t : Task) : Bool := match t.state with | .blocked sp => sp | _ => false
def sleeping (t : Task) : Bool := t.state == .sleeping
def finished (t : Task) : Bool := t.state == .finished

/-- `Task::block` — `assert!(self.state != Finished)` -/
def block (t : Task) (sp : Bool) : Except String Task :=
  if t.finished then .error "assertion failed: self.state != TaskState::Finished (block)"
  else .ok { t with state := .blocked sp }

/-- `Task::sleep` -/
def sleep (t : Task) : Except String Task :=
  if t.finished then .error "assertion failed: self.state != TaskState::Finished (sleep)"
  else .ok { t with state := .sleeping }

/-- `Task::unblock` — also clears `blocked_in_park`. -/
def unblock (t : Task) : Except String Task :=
  if t.finished then .error "assertion failed: self.state != TaskState::Finished (unblock)"
  else .ok { t with state := .runnable, blockedInPark := false }

/-- `Task::finish` -/
def finish (t : Task) : Except String Task :=
  if t.finished then .error "assertion failed: self.state != TaskState::Finished (finish)"
  else .ok { t with state := .finished }

/-- `Task::sleep_unless_woken` -/
def sleepUnlessWoken (t : Task) : Except String Task :=
  if t.woken then .ok { t with woken := false } else ({ t with woken := false }).sleep

/-- `Task::wake` -/
def wake (t : Task) : Except String Task :=
  let t := { t with woken := true }
  if t.sleeping then t.unblock else .ok t

/-- `Task::set_waiter` -/
def setWaiter (t : Task) (w : Nat) : Except String (Bool × Task) :=
  if !(t.waiter.isNone || t.waiter == some w) then .error "Task cannot have more than one waiter"
  else if t.finished then .ok (false, t)
  else .ok (true, { t with waiter := some w })

/-- `Task::park` -/
def park (t : Task) : Except String (Bool × Task) :=
  if t.blockedInPark then .error "task cannot park while already parked"
  else if t.isBlocked then .error "task cannot park while blocked by something else"
  else if t.tokenAvail then .ok (false, { t with tokenAvail := false })
  else match ({ t with blockedInPark := true }).block true with
    | .ok t' => .ok (true, t')
    | .error e => .error e

/-- `Task::unpark` -/
def unpark (t : Task) : Except String Task :=
  if t.blockedInPark then
    if !(t.isBlocked && t.canSpuriouslyWakeup) then .error "parked tasks should be blocked"
    else if t.tokenAvail then .error "token shouldn't be available for parked task"
    else t.unblock
  else .ok { t with tokenAvail := true }

end Task

/-! ### Kernel state -/

/-- `ScheduledTask` -/
inductive Cur where
  | none
  | some (t : Nat)
  | stopped
  | finished
deriving DecidableEq, Repr, Inhabited

def Cur.id : Cur → Option Nat
  | .some t => Option.some t
  | _ => Option.none

/-- `ScheduleStep` -/
inductive SStep where
  | task (t : Nat)
  | random
deriving DecidableEq, Repr, Inhabited

/-- `MaxSteps` -/
inductive MaxSteps where
  | none
  | failAfter (n : Nat)
  | continueAfter (n : Nat)
deriving DecidableEq, Repr, Inhabited

/-- `ExecutionState` (+ the `CURRENT_SCHEDULE` thread-local). `live_tasks` is derived (ids of the
unfinished entries of `tasks`, ascending), see `Kernel.live`. -/
structure Kernel where
  tasks : List Task := []
  current : Cur := .none
  next : Cur := .none
  hasYielded : Bool := false
  ctxSwitches : Nat := 0
  stepsResetAt : Nat := 0
  /-- `CURRENT_SCHEDULE.steps`, newest first -/
  schedRev : List SStep := []
  seed : Nat := 0
  maxSteps : MaxSteps := .none
  /-- `std::thread::panicking()`: some task is unwinding (the flag is per OS thread, and every
  Shuttle task runs on the same one) — the task and its payload -/
  panicking : Option (Nat × String) := none
  /-- further tasks that started to panic while the first one was suspended in the middle of its
  unwinding (a destructor reached `thread::switch()`): a panic on another coroutine stack does not
  abort — std aborts only when a panic escapes a destructor that runs during unwinding -/
  alsoPanicking : List (Nat × String) := []
deriving Repr, Inhabited

/-- `StepError` (the payload of a task failure is the panic message). -/
inductive StepErr where
  | taskFailure (tid : Nat) (msg : String)
  | schedulingError
  | deadlock
  | stepBoundExceeded
deriving DecidableEq, Repr, Inhabited

namespace Kernel

def schedule_ (k : Kernel) : List SStep := k.schedRev.reverse
def schedLen (k : Kernel) : Nat := k.schedRev.length

def getTask? (k : Kernel) (t : Nat) : Option Task := k.tasks[t]?

def setTask (k : Kernel) (t : Nat) (tk : Task) : Kernel := { k with tasks := k.tasks.set t tk }

/-- apply a fallible `Task` transition to task `t`; an unknown id is the `unwrap()` panic of
`get_mut`. -/
def modTask (k : Kernel) (t : Nat) (f : Task → Except String Task) : Except String Kernel :=
  match k.getTask? t with
  | Option.none => .error "called `Option::unwrap()` on a `None` value (unknown task id)"
  | Option.some tk =>
    match f tk with
    | .ok tk' => .ok (k.setTask t tk')
    | .error e => .error e

/-- ids with their tasks, ascending -/
def indexed (k : Kernel) : List (Nat × Task) := (k.tasks.zipIdx).map (fun p => (p.2, p.1))

/-- `live_tasks` -/
def live (k : Kernel) : List Nat := (k.indexed.filter (fun p => !p.2.finished)).map (·.1)

/-- the list handed to `Scheduler::next_task`: runnable tasks and spuriously wakeable blocked
tasks, in ascending id order (loop over `live_tasks` in `schedule()`). -/
def offered (k : Kernel) : List Nat :=
  (k.indexed.filter (fun p => p.2.runnable || p.2.canSpuriouslyWakeup)).map (·.1)

def anyRunnable (k : Kernel) : Bool := k.tasks.any (·.runnable)
def unfinishedAttached (k : Kernel) : Bool := k.tasks.any (fun t => !t.finished && !t.detached)
def allRunnableDetached (k : Kernel) : Bool := k.tasks.all (fun t => !t.runnable || t.detached)

/-- `is_step_bound_exceeded` -/
def stepBoundExceeded (k : Kernel) (n : Nat) : Bool := k.schedLen - k.stepsResetAt ≥ n

/-- `exit_current_truncates_execution` for current task `me`. -/
def exitTruncates (k : Kernel) (me : Nat) : Bool :=
  if me == 0 then true
  else match k.getTask? me with
    | Option.none => false
    | Option.some tk =>
      if tk.detached then false
      else
        let ua := (k.tasks.filter (fun t => !t.finished && !t.detached)).length
        let ud := k.tasks.any (fun t => !t.finished && t.detached)
        -- the loop returns false as soon as it has seen two unfinished attached tasks
        if ua ≥ 2 then false else ud && ua == 1

end Kernel

/-! ### Scheduler interface -/

/-- What a scheduler may read from the `&Task`s it is offered. -/
structure TaskView where
  id : Nat
  clock : Clock
  parent : Option Nat
deriving Repr, Inhabited

/-- result of `Scheduler::next_task` — `panic` models a scheduler that panics (replay of a
schedule that does not fit, PCT on a body without concurrency, …). -/
inductive SchedAns where
  | choose (t : Option Nat)
  | panic (msg : String)
deriving Repr, Inhabited

structure Scheduler (σ : Type) where
  nextTask : σ → List TaskView → Option Nat → Bool → SchedAns × σ
  nextU64 : σ → Except String Nat × σ

/-! ### The kernel API and programs over it -/

/-- The operations library/user code performs on the runtime (`ExecutionState::with(|s| …)` call
sites in shuttle-engine / shuttle-std), typed by their result. -/
inductive KOp (U : Type) : Type → Type where
  /-- `thread::switch()` -/
  | switch : KOp U Unit
  /-- `ExecutionState::me()` -/
  | me : KOp U Nat
  | getU : KOp U U
  | setU (u : U) : KOp U Unit
  /-- append a line to the observation log (the harness writes through plain `std` containers) -/
  | emit (s : String) : KOp U Unit
  /-- `current_mut().block(sp)` -/
  | block (sp : Bool) : KOp U Unit
  /-- `get_mut(t).block(false)` -/
  | blockTask (t : Nat) : KOp U Unit
  /-- `current_mut().sleep_unless_woken()` -/
  | sleepUnlessWoken : KOp U Unit
  /-- `get_mut(t).unblock()` -/
  | unblock (t : Nat) : KOp U Unit
  /-- `waker(t).wake()` / `wake_by_ref()` (no-op when the execution or the task is finished) -/
  | wake (t : Nat) : KOp U Unit
  /-- `try_get(t).is_some_and(|t| t.finished())` -/
  | isFinished (t : Nat) : KOp U Bool
  /-- `ExecutionState::request_yield()` -/
  | requestYield : KOp U Unit
  /-- `ExecutionState::next_u64()` -/
  | rand : KOp U Nat
  /-- the `ExecutionState::with` part of `spawn_thread` / `spawn_future` (the leading
  `thread::switch()` is issued by the caller); `body` indexes `Program.bodies` -/
  | spawn (future : Bool) (body : Nat) : KOp U Nat
  /-- `current_mut().park()` -/
  | park : KOp U Bool
  /-- `get_mut(t).unpark()` -/
  | unpark (t : Nat) : KOp U Unit
  /-- `get_mut(target).set_waiter(me)` -/
  | setWaiter (target : Nat) : KOp U Bool
  /-- `current_mut().take_waiter()` -/
  | takeWaiter : KOp U (Option Nat)
  /-- `get_mut(t).detach()` -/
  | detach (t : Nat) : KOp U Unit
  /-- `current::clock()` -/
  | clock : KOp U Clock
  /-- `get_clock(t).clone()` -/
  | clockOf (t : Nat) : KOp U Clock
  /-- `update_clock(c)`: increment own component, then join `c` -/
  | updateClock (c : Clock) : KOp U Unit
  /-- `increment_clock()` (returns the new clock) -/
  | incClock : KOp U Clock
  /-- `get_mut(t).clock.update(c)` (no increment) -/
  | joinClockOf (t : Nat) (c : Clock) : KOp U Unit
  /-- `exit_current_truncates_execution()` -/
  | exitTruncates : KOp U Bool
  /-- `current::reset_step_count()` -/
  | resetSteps : KOp U Unit
  /-- `current::context_switches()` -/
  | ctxSwitches : KOp U Nat
  /-- `std::thread::panicking()` -/
  | isPanicking : KOp U Bool

/-- Programs: the freer monad over `KOp`, plus `panic`. -/
inductive Prog (U : Type) : Type → Type 1 where
  | pure {α : Type} (a : α) : Prog U α
  | op {α β : Type} (o : KOp U β) (k : β → Prog U α) : Prog U α
  | panic {α : Type} (msg : String) : Prog U α

namespace Prog

def bind {U : Type} {α β : Type} : Prog U α → (α → Prog U β) → Prog U β
  | .pure a, f => f a
  | .op o k, f => .op o (fun b => bind (k b) f)
  | .panic m, _ => .panic m

instance {U : Type} : Monad (Prog U) where
  pure := Prog.pure
  bind := Prog.bind

def lift {U : Type} {β : Type} (o : KOp U β) : Prog U β := .op o .pure

end Prog

/-- A test: shared state, its initial value, and the task bodies (`0` = the closure given to
`Runner::run`, already wrapped in whatever `thread_fn` does). -/
structure Program where
  U : Type
  init : U
  bodies : Nat → Prog U Unit
  /-- what unwinding task `tid` runs after a panic: the destructors of its live locals -/
  unwind : Nat → Prog U Unit := fun _ => .pure ()

/-! ### Execution -/

inductive Ev where
  /-- one `Scheduler::next_task` consultation -/
  | dec (offered : List Nat) (cur : Option Nat) (yielding : Bool) (choice : Option Nat)
  /-- one `Scheduler::next_u64` -/
  | draw (v : Nat)
  | obs (s : String)
deriving Repr, Inhabited, DecidableEq

/-- How an execution ended. `deadlock` lists `(id, detached, sleeping)` of every unfinished task,
as `format_for_deadlock` prints them. -/
inductive Outcome where
  | ok
  | deadlock (blocked : List (Nat × Bool × Bool))
  | panic (tid : Nat) (msg : String)
  | stepBoundFail (n : Nat)
  | abandoned            -- `ContinueAfter` bound reached: silently stopped
  | stopped              -- the scheduler returned `None`
  | abort (msg : String) -- a second panic while one is being unwound: the process aborts
  | schedulingError
  | schedPanic (msg : String)
  | outOfFuel
deriving Repr, Inhabited, DecidableEq

structure ExecState (P : Program) (σ : Type) where
  k : Kernel
  u : P.U
  conts : List (Prog P.U Unit)
  sch : σ
  log : Array Ev := #[]

namespace Kernel

def views (k : Kernel) (ids : List Nat) : List TaskView :=
  ids.filterMap (fun i => (k.getTask? i).map (fun t => { id := i, clock := t.clock, parent := t.parent }))

inductive SchedStep (σ : Type) where
  | ok (k : Kernel) (s : σ) (ev : Option Ev)
  | err (e : StepErr) (k : Kernel) (s : σ)
  | schedPanic (msg : String) (k : Kernel) (s : σ)

/-- `ExecutionState::schedule()` -/
def schedule {σ : Type} (k : Kernel) (S : Scheduler σ) (s : σ) : SchedStep σ :=
  if k.next != .none then .ok k s Option.none
  else
    let k := { k with ctxSwitches := k.ctxSwitches + 1 }
    let bound : Option (Bool × Nat) := match k.maxSteps with
      | .failAfter n => Option.some (true, n)
      | .continueAfter n => Option.some (false, n)
      | .none => Option.none
    match (match bound with
           | Option.some (fail, n) => if k.stepBoundExceeded n then Option.some fail else Option.none
           | Option.none => Option.none) with
    | Option.some true => .err .stepBoundExceeded k s
    | Option.some false => .ok { k with next := .stopped } s Option.none
    | Option.none =>
      if !k.anyRunnable || (!k.unfinishedAttached && k.allRunnableDetached) then
        .ok { k with next := .finished } s Option.none
      else
        let yielding := k.hasYielded
        let k := { k with hasYielded := false }
        let off := k.offered
        match S.nextTask s (k.views off) k.current.id yielding with
        | (.panic msg, s') => .schedPanic msg k s'
        | (.choose Option.none, s') =>
          .ok { k with next := .stopped } s' (Option.some (.dec off k.current.id yielding Option.none))
        | (.choose (Option.some t), s') =>
          let ev := Ev.dec off k.current.id yielding (Option.some t)
          match k.getTask? t with
          | Option.none => .schedPanic "scheduler chose an unknown task" k s'
          | Option.some tk =>
            if !(tk.runnable || tk.isBlocked) then
              .schedPanic "assertion failed: task.runnable() || task.blocked()" k s'
            else if tk.isBlocked then
              if !tk.canSpuriouslyWakeup then
                .schedPanic "assertion failed: task.can_spuriously_wakeup()" k s'
              else match tk.unblock with
                | .ok tk' => .ok { (k.setTask t tk') with next := .some t } s' (Option.some ev)
                | .error e => .schedPanic e k s'
            else .ok { k with next := .some t } s' (Option.some ev)

/-- `advance_to_next_task` -/
def advance (k : Kernel) : Kernel :=
  let k := { k with current := k.next, next := .none }
  match k.current with
  | .some t => { k with schedRev := .task t :: k.schedRev }
  | _ => k

/-- list printed by the deadlock panic -/
def deadlockList (k : Kernel) : List (Nat × Bool × Bool) :=
  (k.indexed.filter (fun p => !p.2.finished)).map (fun p => (p.1, p.2.detached, p.2.sleeping))

/-- shared by `spawn_thread` / `spawn_future` / `spawn_main_thread` -/
def spawnTask (k : Kernel) (parent : Option Nat) : Nat × Kernel :=
  let tid := k.tasks.length
  match parent with
  | Option.none =>
    let c := Clock.new.extend tid
    (tid, { k with tasks := k.tasks ++ [{ clock := c, parent := Option.none }] })
  | Option.some p =>
    match k.getTask? p with
    | Option.none => (tid, k)
    | Option.some ptk =>
      -- increment the parent's clock, extend it with an entry for the child, child gets a copy
      let pc := (ptk.clock.increment p).extend tid
      let k := k.setTask p { ptk with clock := pc }
      (tid, { k with tasks := k.tasks ++ [{ clock := pc, parent := Option.some p }] })

end Kernel

/-- outcome of running the current task up to its next scheduling point -/
inductive SegEnd (P : Program) (σ : Type) where
  | atSwitch (st : ExecState P σ)          -- reached `thread::switch()`
  | returned (st : ExecState P σ)          -- the task's closure returned
  | panicked (msg : String) (st : ExecState P σ)
  | schedPanic (msg : String) (st : ExecState P σ)
  | aborted (msg : String) (st : ExecState P σ)
  | outOfFuel (st : ExecState P σ)

def kpanic {P : Program} {σ : Type} (st : ExecState P σ) (msg : String) : SegEnd P σ := .panicked msg st

/-- Run task `me` (whose remaining program is `p`) until its next `switch`, its end, or a panic.
Every kernel request is one case; `fuel` bounds the number of requests in one segment. -/
def runSegment {P : Program} {σ : Type} (S : Scheduler σ) (me : Nat) :
    Nat → ExecState P σ → Prog P.U Unit → SegEnd P σ
  | 0, st, p => .outOfFuel { st with conts := st.conts.set me p }
  | _ + 1, st, .pure () =>
    -- the closure returned — or, for the unwinding task, all destructors have run and the panic
    -- reaches `catch_unwind` in the run loop
    match st.k.panicking with
    | some (t, msg) =>
      if t == me then .panicked msg st
      else match st.k.alsoPanicking.find? (·.1 == me) with
        | some (_, msg') => .panicked msg' st
        | none => .returned { st with conts := st.conts.set me (.pure ()) }
    | none => .returned { st with conts := st.conts.set me (.pure ()) }
  | fuel + 1, st, .panic msg =>
    match st.k.panicking with
    | some (t, _) =>
      if t == me || st.k.alsoPanicking.any (·.1 == me) then
        .aborted msg st                             -- panic in a destructor during unwinding
      else
        -- another task is suspended mid-unwind: this panic unwinds its own stack normally
        runSegment S me fuel { st with k := { st.k with alsoPanicking := st.k.alsoPanicking ++ [(me, msg)] } } (P.unwind me)
    | none =>
      -- start unwinding: run the task's destructors (they may reach scheduling points)
      runSegment S me fuel { st with k := { st.k with panicking := some (me, msg) } } (P.unwind me)
  | fuel + 1, st, .op o kont =>
    let k := st.k
    let onTask (t : Nat) (f : Task → Except String Task) (cont : Prog P.U Unit) : SegEnd P σ :=
      match k.modTask t f with
      | .ok k' => runSegment S me fuel { st with k := k' } cont
      | .error e => .panicked e st
    match o with
    | .switch => .atSwitch { st with conts := st.conts.set me (kont ()) }
    | .me => runSegment S me fuel st (kont me)
    | .getU => runSegment S me fuel st (kont st.u)
    | .setU u => runSegment S me fuel { st with u := u } (kont ())
    | .emit s => runSegment S me fuel { st with log := st.log.push (.obs s) } (kont ())
    | .block sp => onTask me (·.block sp) (kont ())
    | .blockTask t => onTask t (·.block false) (kont ())
    | .sleepUnlessWoken => onTask me (·.sleepUnlessWoken) (kont ())
    | .unblock t => onTask t (·.unblock) (kont ())
    | .wake t =>
      -- raw_waker_wake: `if state.is_finished() return; if waiter.finished() return; waiter.wake()`
      if k.current == .stopped || k.current == .finished then runSegment S me fuel st (kont ())
      else match k.getTask? t with
        | none => .panicked "called `Option::unwrap()` on a `None` value (wake: unknown task id)" st
        | some tk => if tk.finished then runSegment S me fuel st (kont ()) else onTask t (·.wake) (kont ())
    | .isFinished t =>
      runSegment S me fuel st (kont (match k.getTask? t with | some tk => tk.finished | none => false))
    | .requestYield => runSegment S me fuel { st with k := { k with hasYielded := true } } (kont ())
    | .rand =>
      -- `CurrentSchedule::push_random(); scheduler.next_u64()`
      let k := { k with schedRev := .random :: k.schedRev }
      match S.nextU64 st.sch with
      | (.ok v, s') => runSegment S me fuel { st with k := k, sch := s', log := st.log.push (.draw v) } (kont v)
      | (.error e, s') => .schedPanic e { st with k := k, sch := s' }
    | .spawn _future body =>
      let (tid, k') := k.spawnTask (some me)
      runSegment S me fuel { st with k := k', conts := st.conts ++ [P.bodies body] } (kont tid)
    | .park =>
      match k.getTask? me with
      | none => .panicked "no current task" st
      | some tk => match tk.park with
        | .ok (b, tk') => runSegment S me fuel { st with k := k.setTask me tk' } (kont b)
        | .error e => .panicked e st
    | .unpark t => onTask t (·.unpark) (kont ())
    | .setWaiter target =>
      match k.getTask? target with
      | none => .panicked "called `Option::unwrap()` on a `None` value (set_waiter)" st
      | some tk => match tk.setWaiter me with
        | .ok (b, tk') => runSegment S me fuel { st with k := k.setTask target tk' } (kont b)
        | .error e => .panicked e st
    | .takeWaiter =>
      match k.getTask? me with
      | none => .panicked "no current task" st
      | some tk => runSegment S me fuel { st with k := k.setTask me { tk with waiter := none } } (kont tk.waiter)
    | .detach t => onTask t (fun tk => .ok { tk with detached := true }) (kont ())
    | .clock => runSegment S me fuel st (kont (match k.getTask? me with | some tk => tk.clock | none => Clock.new))
    | .clockOf t => runSegment S me fuel st (kont (match k.getTask? t with | some tk => tk.clock | none => Clock.new))
    | .updateClock c => onTask me (fun tk => .ok { tk with clock := (tk.clock.increment me).update c }) (kont ())
    | .incClock =>
      match k.getTask? me with
      | none => .panicked "no current task" st
      | some tk =>
        let c := tk.clock.increment me
        runSegment S me fuel { st with k := k.setTask me { tk with clock := c } } (kont c)
    | .joinClockOf t c => onTask t (fun tk => .ok { tk with clock := tk.clock.update c }) (kont ())
    | .exitTruncates => runSegment S me fuel st (kont (k.exitTruncates me))
    | .resetSteps => runSegment S me fuel { st with k := { k with stepsResetAt := k.schedLen } } (kont ())
    | .ctxSwitches => runSegment S me fuel st (kont k.ctxSwitches)
    | .isPanicking => runSegment S me fuel st (kont k.panicking.isSome)

structure Result (P : Program) (σ : Type) where
  outcome : Outcome
  st : ExecState P σ

/-- `run_to_completion` + the error mapping of `Execution::run`. One unit of `fuel` per loop
iteration; each task segment gets `segFuel` kernel requests. -/
def runLoop {P : Program} {σ : Type} (S : Scheduler σ) (segFuel : Nat) :
    Nat → ExecState P σ → Result P σ
  | 0, st => ⟨.outOfFuel, st⟩
  | fuel + 1, st =>
    match st.k.schedule S st.sch with
    | .err .stepBoundExceeded k s =>
      let n := match k.maxSteps with | .failAfter n => n | _ => 0
      ⟨.stepBoundFail n, { st with k := k, sch := s }⟩
    | .err _ k s => ⟨.schedulingError, { st with k := k, sch := s }⟩
    | .schedPanic msg k s => ⟨.schedPanic msg, { st with k := k, sch := s }⟩
    | .ok k s ev =>
      let k := k.advance
      let st := { st with k := k, sch := s, log := match ev with | some e => st.log.push e | none => st.log }
      match k.current with
      | .none => ⟨.schedulingError, st⟩
      | .stopped =>
        -- `Stopped` comes either from the scheduler returning `None` or from a `ContinueAfter` bound
        let byBound := match k.maxSteps with
          | .continueAfter n => k.stepBoundExceeded n && (match ev with | none => true | some _ => false)
          | _ => false
        ⟨if byBound then .abandoned else .stopped, st⟩
      | .finished =>
        if k.unfinishedAttached then ⟨.deadlock k.deadlockList, st⟩ else ⟨.ok, st⟩
      | .some t =>
        match st.conts[t]? with
        | none => ⟨.schedulingError, st⟩
        | some p =>
          match runSegment S t segFuel st p with
          | .atSwitch st' => runLoop S segFuel fuel st'
          | .returned st' =>
            match st'.k.modTask t (·.finish) with
            | .ok k' => runLoop S segFuel fuel { st' with k := k' }
            | .error e => ⟨.panic t e, st'⟩
          | .panicked msg st' => ⟨.panic t msg, st'⟩
          | .schedPanic msg st' => ⟨.schedPanic msg, st'⟩
          | .aborted msg st' => ⟨.abort msg, st'⟩
          | .outOfFuel st' => ⟨.outOfFuel, st'⟩

/-- `Execution::run`: fresh `ExecutionState`, `CurrentSchedule::init(Schedule::new(seed))`,
spawn the main thread, run to completion. -/
def execute (P : Program) {σ : Type} (S : Scheduler σ) (maxSteps : MaxSteps) (seed : Nat) (s : σ)
    (fuel segFuel : Nat) : Result P σ :=
  let k0 : Kernel := { seed := seed, maxSteps := maxSteps }
  let (_, k1) := k0.spawnTask none
  runLoop S segFuel fuel { k := k1, u := P.init, conts := [P.bodies 0], sch := s }

end ShuttleModel
