/-
  ShuttleModel.Serialize — the schedule wire format of
  `shuttle-engine/src/scheduler/serialization.rs` (`serialize_schedule` / `deserialize_schedule`).

  Format of the byte buffer `buf`:
      0x91 (SCHEDULE_MAGIC_V2) · varint(task id bit width) · varint(#steps) · varint(seed) · packed steps
  Steps are packed LSB-first (`bitvec` `Lsb0` over `u8`): a `Task` step is a `0` bit followed by
  `width` bits of the id (least significant first), a `Random` step is a single `1` bit.  The bit
  buffer is allocated with `steps.len() * (1 + width)` zero bits — as if every step were a `Task`
  step — and `as_raw_slice` rounds that up to whole bytes, so schedules with `Random` steps carry
  trailing zero bits/bytes.  `buf` is hex-encoded (lowercase) and wrapped with `'\n'` every
  `LINE_WIDTH = 76` hex characters (`chunks(76)` joined by `"\n"`, no trailing newline).

  The DEcoder models the FIXED Rust behaviour in which every former panic (empty input, truncated
  header/body, declared width `0` or `> 64`, absurd declared length) is a `None`.
-/
import ShuttleModel.Bits
import ShuttleModel.Varint

namespace ShuttleModel

inductive ScheduleStep
  | task (id : Nat)
  | random
  deriving DecidableEq, Repr

structure Schedule where
  seed : Nat
  steps : List ScheduleStep
  deriving DecidableEq, Repr

/-- Representable in Rust: `seed : u64`, every `TaskId` a `usize` (64-bit platform), and
    `steps.len()` a `usize` (it is written with `schedule.len() as u64`). -/
def Schedule.wf (s : Schedule) : Prop :=
  s.seed < 2 ^ 64 ∧ (∀ id, ScheduleStep.task id ∈ s.steps → id < 2 ^ 64) ∧ s.steps.length < 2 ^ 64

/-- Boolean form of the id bound, used for the `Decidable` instance. -/
def stepIdBounded (bound : Nat) : ScheduleStep → Bool
  | .task id => decide (id < bound)
  | .random => true

theorem all_stepIdBounded_iff (bound : Nat) (steps : List ScheduleStep) :
    steps.all (stepIdBounded bound) = true ↔ ∀ id, ScheduleStep.task id ∈ steps → id < bound := by
  induction steps with
  | nil => simp
  | cons st rest ih =>
    cases st with
    | task i => simp [stepIdBounded, ih]
    | random => simp [stepIdBounded, ih]

instance (s : Schedule) : Decidable s.wf :=
  decidable_of_iff
    (s.seed < 2 ^ 64 ∧ s.steps.all (stepIdBounded (2 ^ 64)) = true ∧ s.steps.length < 2 ^ 64)
    (by unfold Schedule.wf; rw [all_stepIdBounded_iff])

/-! ## Encoder -/

def SCHEDULE_MAGIC_V2 : Nat := 0x91
def LINE_WIDTH : Nat := 76

/-- `steps.iter().filter_map(task ids).max().unwrap_or(0)`.  (For `max`, "no task step" and
    "largest id is 0" both give `0`.) -/
def maxTaskId : List ScheduleStep → Nat
  | [] => 0
  | .task id :: rest => max id (maxTaskId rest)
  | .random :: rest => maxTaskId rest

/-- `task_id_bits`: `(64 - max_task_id.leading_zeros()).max(1)`. -/
def taskIdBits (steps : List ScheduleStep) : Nat := max (bitLen (maxTaskId steps)) 1

/-- The bits written by the encoder's `for step in &schedule.steps` loop, in stream order. -/
def stepsBits (width : Nat) : List ScheduleStep → List Bool
  | [] => []
  | .task id :: rest => false :: (natToBits width id ++ stepsBits width rest)
  | .random :: rest => true :: stepsBits width rest

/-- `encoded.as_raw_slice()`: the bit buffer has `steps.len() * (1 + width)` bits (all zero, then
    overwritten from the front by the loop), stored in `ceil(bits / 8)` bytes. -/
def encodeStepBytes (width : Nat) (steps : List ScheduleStep) : List Nat :=
  packBytes ((steps.length * (1 + width) + 7) / 8) (stepsBits width steps)

/-- The byte buffer `buf` of `serialize_schedule`. -/
def encodeBytes (s : Schedule) : List Nat :=
  let width := taskIdBits s.steps
  SCHEDULE_MAGIC_V2 ::
    (writeVarint width ++ (writeVarint s.steps.length ++ (writeVarint s.seed ++
      encodeStepBytes width s.steps)))

/-- `HEX_CHARS_LOWER[n]` for a nibble `n < 16`. -/
def hexDigit (n : Nat) : Char :=
  if n < 10 then Char.ofNat (48 + n) else Char.ofNat (87 + n)

/-- `hex::encode`: two lowercase digits per byte, high nibble first. -/
def encodeHex : List Nat → List Char
  | [] => []
  | b :: bs => hexDigit (b / 16) :: hexDigit (b % 16) :: encodeHex bs

/-- `slice.chunks(n)`; `fuel` bounds the number of chunks (`chunks` uses `l.length`, which always
    suffices for `n ≥ 1`). -/
def chunksAux (n : Nat) : Nat → List Char → List (List Char)
  | 0, _ => []
  | fuel + 1, l => if l.isEmpty then [] else l.take n :: chunksAux n fuel (l.drop n)

def chunks (n : Nat) (l : List Char) : List (List Char) := chunksAux n l.length l

/-- `lines.join(&b'\n')`. -/
def joinLines : List (List Char) → List Char
  | [] => []
  | [c] => c
  | c :: c' :: cs => c ++ '\n' :: joinLines (c' :: cs)

/-- The unwrapped hex text of a schedule. -/
def hexOfSchedule (s : Schedule) : List Char := encodeHex (encodeBytes s)

def serializeChars (s : Schedule) : List Char := joinLines (chunks LINE_WIDTH (hexOfSchedule s))

/-- `serialize_schedule`. -/
def serializeSchedule (s : Schedule) : String := String.ofList (serializeChars s)

/-! ## Decoder -/

/-- Rust's `char::is_whitespace` (Unicode `White_Space`). -/
def isWhitespace (c : Char) : Bool :=
  let n := c.toNat
  (0x09 ≤ n && n ≤ 0x0D) || n == 0x20 || n == 0x85 || n == 0xA0 || n == 0x1680 ||
  (0x2000 ≤ n && n ≤ 0x200A) || n == 0x2028 || n == 0x2029 || n == 0x202F || n == 0x205F ||
  n == 0x3000

/-- `hex::val`: value of one hex digit; upper and lower case accepted, anything else is an error.
    (`hex::decode` works on UTF-8 bytes; every byte of a non-ASCII `char` is `≥ 0x80`, hence an
    error as well, so working on `char`s is equivalent.) -/
def hexVal (c : Char) : Option Nat :=
  let n := c.toNat
  if 48 ≤ n ∧ n ≤ 57 then some (n - 48)          -- '0'..='9'
  else if 97 ≤ n ∧ n ≤ 102 then some (n - 87)    -- 'a'..='f'
  else if 65 ≤ n ∧ n ≤ 70 then some (n - 55)     -- 'A'..='F'
  else none

/-- `hex::decode`: `none` on odd length or on any non-hex character. -/
def decodeHex : List Char → Option (List Nat)
  | [] => some []
  | [_] => none
  | hi :: lo :: rest =>
    match hexVal hi, hexVal lo, decodeHex rest with
    | some h, some l, some bs => some ((h * 16 + l) :: bs)
    | _, _, _ => none

/-- The `while steps.len() < schedule_len` loop, on the not-yet-consumed suffix of the bit stream
    (`bits = encoded[offset..]`).  `none` when the flag bit (`offset ≥ encoded.len()`) or the id
    bits (`offset + 1 + width > encoded.len()`) are not available. -/
def decodeSteps (width : Nat) : Nat → List Bool → Option (List ScheduleStep)
  | 0, _ => some []
  | _ + 1, [] => none
  | n + 1, true :: bits =>
    match decodeSteps width n bits with
    | some steps => some (.random :: steps)
    | none => none
  | n + 1, false :: bits =>
    if bits.length < width then none
    else
      match decodeSteps width n (bits.drop width) with
      | some steps => some (.task (bitsToNat (bits.take width)) :: steps)
      | none => none

/-- `deserialize_schedule` after hex decoding. -/
def decodeBytes : List Nat → Option Schedule
  | [] => none                                           -- (fixed) `bytes[0]` on empty input
  | version :: body =>
    if version ≠ SCHEDULE_MAGIC_V2 then none
    else
      match readVarint body with
      | none => none
      | some (width, body) =>
        match readVarint body with
        | none => none
        | some (len, body) =>
          match readVarint body with
          | none => none
          | some (seed, body) =>
            if width = 0 ∨ 64 < width then none           -- (fixed) bitvec `load` panics
            else
              match decodeSteps width len (bytesToBits body) with
              | none => none
              | some steps => some { seed := seed, steps := steps }

/-- `deserialize_schedule` on the characters of the input. -/
def deserializeChars (cs : List Char) : Option Schedule :=
  match decodeHex (cs.filter fun c => !isWhitespace c) with
  | none => none
  | some bytes => decodeBytes bytes

/-- `deserialize_schedule`. -/
def deserializeSchedule (str : String) : Option Schedule := deserializeChars str.toList

end ShuttleModel
