import ShuttleModel.Lang
import Std.Data.HashSet
/-
  Layer R — an INDEPENDENT sequentially-consistent reference semantics of the program IR (C02).

  Written from the documented std / tokio meaning of every operation, not from the Shuttle sources:
  nothing of `Kernel.lean` / `Prim/*.lean` / `execOp` is used.  The only things reused from
  `Lang.lean` are the parser's data types `IR`, `TaskDecl`, `Op`, `ObjDecl` (fields only).

  * A state is a heap of textbook abstract objects plus, per task (= body of the program; every
    body is spawned at most once), a program counter, the results observed so far and the guards /
    channel endpoints the task owns.
  * Every visible operation is ONE atomic transition.  An operation that blocks is simply not
    enabled.  Operations that by their documented meaning consist of a registration and a later
    return (`Condvar::wait`, `Barrier::wait`, a rendezvous `send`/`recv`, a queued acquire of a FAIR
    semaphore, `join` after taking the handle out of the shared table) are two transitions: the
    registration (always enabled) and the return (enabled when its condition holds).
  * There is no scheduler: any enabled transition of any task may be next.
  * Terminal states: a task panicked (`panic` op or a diagnosed misuse: re-entrant lock) ⇒ `panic`
    (the run ends there); every spawned task finished ⇒ `ok`; no transition enabled and a spawned
    task unfinished ⇒ `deadlock {unfinished bodies}`.
  * An OUTCOME is, per body, the list `(pc, result)` of its operations in program order (exactly
    the result strings the harness logs in its `O` lines) plus the termination kind.

  Decisions (documented semantics chosen where std leaves a choice):
  * `rand`: the result is NOT part of the outcome (rendered `v:?`); a program whose control flow
    tests it (`if` directly after `rand`) is `unsupported`.
  * `park`: returns when the token is set (consuming it); spurious returns are allowed when
    `cfg.spuriousPark` (default, as documented by std) — then `park` is always enabled, but since a
    spurious return is allowed and not guaranteed, a state in which nothing but spurious returns is
    enabled is ALSO a possible end of the run (`deadlock`).  `cfg.spuriousPark = false` is the strict
    reading used for the completeness oracle (outcomes every implementation must be able to show).
  * `Barrier::wait`: one leader per generation; arbitrary (`cfg.leaderLast = false`, default, the
    documented contract) or the last arriver (what std implements).
  * `Once::call_once`: the closures of the IR contain no visible operation, so `running(by)` is not
    observable and not-run → done is one transition.
  * rendezvous channel (`sync_channel(0)`): `send` offers the message and returns only after a
    receiver took it (or with `err:disconnected` when the receiver is dropped first); `try_send`
    succeeds only by handing the message to a receiver that is currently blocked in `recv`;
    `try_recv` takes the message of a sender blocked in `send` (as std's zero-capacity flavour does).
  * bounded channel: `send` is enabled when there is room or the receiver is gone.
  * `RwLock`: `read` is enabled when no writer holds the lock, `write` when nobody holds it; a blocking
    `read`/`write` by a task that already holds the lock (in either mode) is a diagnosed misuse (std:
    "might panic when called if the lock is already held by the current thread").  `try_read` succeeds
    whenever no writer holds the lock — also for a task that already holds a read guard.
  * semaphore, unfair: `acquire n` is enabled when `n ≤ permits` (any fitting pending request may
    win); fair: requests queue FIFO, `release` serves the head while it fits, `try_acquire` fails
    while requests are queued.  `close` makes every pending and future acquire return `closed`.
  * implicit drops at the end of a task are visible operations, one transition each: the guards in
    reverse order of acquisition, then per channel in declaration order the `Sender`, then the
    `Receiver`.  The task counts as finished (joinable) after the last of them.
  * `ctx`, `tls_*`, `lazy_get`, `scope_*`, a body spawned twice, unknown objects: `unsupported`.
-/
namespace ShuttleModel.Ref
open ShuttleModel (IR TaskDecl Op ObjDecl)

/-! ### Results -/

inductive Val where
  | int (i : Int)
  | bool (b : Bool)
deriving DecidableEq, Hashable, Repr, Inhabited

def Val.str : Val → String
  | .int i => toString i
  | .bool b => if b then "true" else "false"

inductive Tag where
  | v | ok | err | poisoned
deriving DecidableEq, Hashable, Repr, Inhabited

def Tag.str : Tag → String
  | .v => "v" | .ok => "ok" | .err => "err" | .poisoned => "poisoned"

inductive Word where
  | ok | wouldblock | leader | follower | errEmpty | errDisconnected | errFull
  | nosender | norecv | nohandle | noguard | closed | nopermits | ran | skipped | tt | ff
deriving DecidableEq, Hashable, Repr, Inhabited

def Word.str : Word → String
  | .ok => "ok" | .wouldblock => "wouldblock" | .leader => "leader" | .follower => "follower"
  | .errEmpty => "err:empty" | .errDisconnected => "err:disconnected" | .errFull => "err:full"
  | .nosender => "nosender" | .norecv => "norecv" | .nohandle => "nohandle" | .noguard => "noguard"
  | .closed => "closed" | .nopermits => "nopermits" | .ran => "ran" | .skipped => "skipped"
  | .tt => "true" | .ff => "false"

inductive Res where
  /-- no operation executed yet -/
  | none
  | word (w : Word)
  | val (t : Tag) (x : Val)
  /-- the result of `rand` -/
  | any
deriving DecidableEq, Hashable, Repr, Inhabited

def Res.str : Res → String
  | .none => ""
  | .word w => w.str
  | .val t x => t.str ++ ":" ++ x.str
  | .any => "v:?"

/-! ### Abstract objects -/

inductive OnceSt where
  | notRun
  | running (by_ : Nat)
  | done
deriving DecidableEq, Hashable, Repr, Inhabited

inductive RObj where
  | atomic (value bits : Nat) (signed isBool : Bool)
  | mutex (owner : Option Nat) (value : Nat) (poisoned : Bool)
  /-- `readers`: sorted multiset of holders of a read guard -/
  | rwlock (readers : List Nat) (writer : Option Nat) (value : Nat) (poisoned : Bool)
  /-- `waiters`: sorted set of tasks inside `wait` that have not been notified -/
  | condvar (waiters : List Nat)
  /-- `arrived`: tasks of the current generation; `released`: tasks of completed generations that
  have not returned yet, with their role -/
  | barrier (n : Nat) (arrived : List Nat) (released : List (Nat × Bool))
  | once (st : OnceSt) (cell : Nat)
  /-- `bound = none` unbounded, `some 0` rendezvous, `some k` bounded.  Rendezvous only:
  `offers` = senders blocked in `send` with their message (FIFO), `rxWaiting` = the receiver is
  blocked in `recv`, `handoff` = message handed to the waiting receiver, `taken` = senders whose
  offer was taken and that have not returned yet -/
  | chan (bound : Option Nat) (queue : List Nat) (senders : Nat) (rxAlive : Bool)
         (offers : List (Nat × Nat)) (rxWaiting : Bool) (handoff : Option Nat) (taken : List Nat)
  /-- fair only: `queue` = pending requests (task, permits) FIFO, `granted` = served, not returned -/
  | sem (permits : Nat) (fair closed : Bool) (queue : List (Nat × Nat)) (granted : List Nat)
  | other
deriving DecidableEq, Hashable, Repr, Inhabited

inductive GK where
  | m | r | w
deriving DecidableEq, Hashable, Repr, Inhabited

inductive Phase where
  /-- about to execute the op at `pc` (or, past the last op, the next implicit drop) -/
  | start
  | joinWait (b : Nat)
  | cvWait (cv m : Nat)
  /-- `wait_while`: waiting / holding the mutex with the predicate still true, about to wait again -/
  | wwWait (cv m v : Nat)
  | wwHold (cv m v : Nat)
  | barWait (b : Nat)
  | rdvSend (c : Nat)
  | rdvRecv (c : Nat)
  | semWait (s : Nat)
deriving DecidableEq, Hashable, Repr, Inhabited

structure TaskSt where
  spawned : Bool := false
  done : Bool := false
  pc : Nat := 0
  phase : Phase := .start
  last : Res := .none
  /-- newest first -/
  results : List (Nat × Res) := []
  /-- most recent last -/
  guards : List (Nat × GK) := []
  tx : List Nat := []
  rx : List Nat := []
  /-- the park token -/
  token : Bool := false
  /-- the `JoinHandle` of this body is in the shared table -/
  handle : Bool := false
deriving DecidableEq, Hashable, Repr, Inhabited

inductive Term where
  | ok
  | deadlock (bodies : List Nat)
  | panic
  | unsupported
deriving DecidableEq, Hashable, Repr, Inhabited

structure State where
  objs : List RObj := []
  tasks : List TaskSt := []
  /-- set when a task panicked / the program left the supported fragment: the run is over -/
  halted : Option Term := none
deriving DecidableEq, Hashable, Repr, Inhabited

structure Cfg where
  spuriousPark : Bool := true
  leaderLast : Bool := false
deriving DecidableEq, Repr, Inhabited

structure Outcome where
  /-- per body, program order -/
  results : List (List (Nat × Res))
  term : Term
deriving DecidableEq, Hashable, Repr, Inhabited

/-! ### Program text helpers (re-implemented; nothing of `Lang.lean` but the record types) -/

def digitsToNat : List Char → Nat → Option Nat
  | [], acc => some acc
  | c :: cs, acc => if '0' ≤ c ∧ c ≤ '9' then digitsToNat cs (acc * 10 + (c.toNat - '0'.toNat)) else none

/-- decimal numerals only (own parser: structural over the characters, so that the kernel can
evaluate it in the witnesses of `ShuttleProofs/C02.lean`) -/
def parseNat (s : String) : Option Nat := match s.toList with | [] => none | cs => digitsToNat cs 0

def argS (o : Op) (i : Nat) : String := match o.args[i]? with | some a => a | none => ""
def argN (o : Op) (i : Nat) : Nat := match o.args[i]? with
  | some a => (match parseNat a with | some n => n | none => 0)
  | none => 0

def findObj (ds : List ObjDecl) (name : String) (i : Nat := 0) : Option Nat :=
  match ds with
  | [] => none
  | d :: rest => if d.name == name then some i else findObj rest name (i + 1)

def opsOf (ir : IR) (k : Nat) : List Op := match ir.tasks[k]? with | some t => t.ops | none => []

/-- the channels of the program: (name, object index), declaration order -/
def chansOf (ds : List ObjDecl) (i : Nat := 0) : List (String × Nat) :=
  match ds with
  | [] => []
  | d :: rest => if d.kind == "chan" then (d.name, i) :: chansOf rest (i + 1) else chansOf rest (i + 1)

def usesTx (ops : List Op) (c : String) : Bool :=
  ops.any fun o => (o.name == "send" || o.name == "try_send" || o.name == "drop_tx") && argS o 0 == c
def usesRx (ops : List Op) (c : String) : Bool :=
  ops.any fun o => (o.name == "recv" || o.name == "try_recv" || o.name == "drop_rx") && argS o 0 == c

def mkObj (d : ObjDecl) : RObj :=
  let a0 : Nat := match d.args[0]? with
    | some a => (match parseNat a with | some n => n | none => 0)
    | none => 0
  match d.kind with
  | "atomic" =>
    let ty := match d.args[1]? with | some t => t | none => "u64"
    match ty with
    | "u8" => .atomic (a0 % 2 ^ 8) 8 false false
    | "u16" => .atomic (a0 % 2 ^ 16) 16 false false
    | "u32" => .atomic (a0 % 2 ^ 32) 32 false false
    | "i8" => .atomic (a0 % 2 ^ 8) 8 true false
    | "i16" => .atomic (a0 % 2 ^ 16) 16 true false
    | "i32" => .atomic (a0 % 2 ^ 32) 32 true false
    | "i64" | "isize" => .atomic (a0 % 2 ^ 64) 64 true false
    | "bool" => .atomic (a0 % 2) 1 false true
    | _ => .atomic (a0 % 2 ^ 64) 64 false false
  | "mutex" => .mutex none a0 false
  | "rwlock" => .rwlock [] none a0 false
  | "condvar" => .condvar []
  | "barrier" => .barrier a0 [] []
  | "once" => .once .notRun 0
  | "chan" =>
    let spec := match d.args[0]? with | some a => a | none => "unb"
    let bound : Option Nat :=
      if spec == "unb" || spec == "" then none
      else if spec == "rdv" then some 0
      else match parseNat (String.ofList (spec.toList.drop 4)) with | some n => some n | none => some 1
    -- task 0 starts with one `Sender` and the `Receiver`
    .chan bound [] 1 true [] false none []
  | "sem" => .sem a0 ((match d.args[1]? with | some a => a | none => "") == "fair") false [] []
  | _ => .other

/-! ### State helpers -/

def insSorted (x : Nat) : List Nat → List Nat
  | [] => [x]
  | y :: ys => if x ≤ y then x :: y :: ys else y :: insSorted x ys

def State.obj (s : State) (i : Nat) : RObj := match s.objs[i]? with | some o => o | none => .other
def State.setObj (s : State) (i : Nat) (o : RObj) : State := { s with objs := s.objs.set i o }
def State.task (s : State) (k : Nat) : TaskSt := match s.tasks[k]? with | some t => t | none => {}
def State.setTask (s : State) (k : Nat) (t : TaskSt) : State := { s with tasks := s.tasks.set k t }
def State.halt (s : State) (t : Term) : State := { s with halted := some t }

/-- past an op at `pc`: skip over the `if <value> skip <n>` lines that follow -/
def skipIfs (ops : List Op) (last : Res) : Nat → Nat → Nat
  | 0, pc => pc
  | fuel + 1, pc =>
    match ops[pc]? with
    | some op =>
      if op.name == "if" then
        if last.str == argS op 0 then skipIfs ops last fuel (pc + argN op 2 + 1)
        else skipIfs ops last fuel (pc + 1)
      else pc
    | none => pc

/-- a task with nothing left to execute and nothing left to drop is finished -/
def settle (ops : List Op) (t : TaskSt) : TaskSt :=
  if t.pc ≥ ops.length && t.phase == .start && t.guards.isEmpty && t.tx.isEmpty && t.rx.isEmpty
  then { t with done := true } else t

/-- the op at `t.pc` of body `k` returns `res` -/
def complete (ir : IR) (s : State) (k : Nat) (t : TaskSt) (res : Res) : State :=
  let ops := opsOf ir k
  let isRand := match ops[t.pc]? with | some op => op.name == "rand" | none => false
  let nextIsIf := match ops[t.pc + 1]? with | some op => op.name == "if" | none => false
  let pc' := skipIfs ops res (ops.length + 1) (t.pc + 1)
  let t' := settle ops { t with pc := pc', phase := .start, last := res, results := (t.pc, res) :: t.results }
  let s' := s.setTask k t'
  if isRand && nextIsIf then s'.halt .unsupported else s'

def word (ir : IR) (s : State) (k : Nat) (t : TaskSt) (w : Word) : List State := [complete ir s k t (.word w)]

/-! ### Atomics -/

def renderAtomic (bits : Nat) (signed isBool : Bool) (x : Nat) : Val :=
  if isBool then .bool (x % 2 == 1)
  else if signed && x ≥ 2 ^ (bits - 1) then .int (Int.ofNat x - Int.ofNat (2 ^ bits))
  else .int (Int.ofNat x)

/-- `a ≤ b` in the atomic's type -/
def leAtomic (bits : Nat) (signed : Bool) (a b : Nat) : Bool :=
  if signed then
    let top := 2 ^ (bits - 1)
    -- flip the sign bit: order of two's complement numbers
    (a + top) % 2 ^ bits ≤ (b + top) % 2 ^ bits
  else a ≤ b

def stepAtomic (ir : IR) (s : State) (k : Nat) (t : TaskSt) (op : Op) (oi : Nat) : List State :=
  match s.obj oi with
  | .atomic x bits signed isBool =>
    let md := 2 ^ bits
    let v := if isBool then argN op 1 % 2 else argN op 1 % md
    let w := if isBool then argN op 2 % 2 else argN op 2 % md
    let show_ := renderAtomic bits signed isBool
    let upd (nv : Nat) (r : Res) : List State :=
      [complete ir (s.setObj oi (.atomic (nv % md) bits signed isBool)) k t r]
    let arithOk := !isBool
    match op.name with
    | "aload" => upd x (.val .v (show_ x))
    | "astore" => upd v (.word .ok)
    | "aswap" => upd v (.val .v (show_ x))
    | "aadd" => if arithOk then upd (x + v) (.val .v (show_ x)) else [s.halt .unsupported]
    | "asub" => if arithOk then upd (x + md - v) (.val .v (show_ x)) else [s.halt .unsupported]
    | "aand" => upd (x &&& v) (.val .v (show_ x))
    | "aor" => upd (x ||| v) (.val .v (show_ x))
    | "axor" => upd (x ^^^ v) (.val .v (show_ x))
    | "anand" => upd ((md - 1) - (x &&& v)) (.val .v (show_ x))
    | "amax" => if arithOk then upd (if leAtomic bits signed x v then v else x) (.val .v (show_ x)) else [s.halt .unsupported]
    | "amin" => if arithOk then upd (if leAtomic bits signed x v then x else v) (.val .v (show_ x)) else [s.halt .unsupported]
    | "acas" => if x == v then upd w (.val .ok (show_ x)) else upd x (.val .err (show_ x))
    | _ => [s.halt .unsupported]
  | _ => [s.halt .unsupported]

/-! ### Guards -/

/-- index of the most recent guard on object `oi` satisfying `p` -/
def lastGuard (gs : List (Nat × GK)) (oi : Nat) (p : GK → Bool) : Option Nat :=
  let rec go (l : List (Nat × GK)) (i : Nat) (best : Option Nat) : Option Nat :=
    match l with
    | [] => best
    | g :: rest => go rest (i + 1) (if g.1 == oi && p g.2 then some i else best)
  go gs 0 none

def eraseOne (x : Nat) : List Nat → List Nat
  | [] => []
  | y :: ys => if x == y then ys else y :: eraseOne x ys

/-- the release of one guard (an explicit `unlock`/`unread`/`unwrite` or an implicit drop) -/
def releaseGuard (s : State) (k : Nat) (g : Nat × GK) : State :=
  match g.2, s.obj g.1 with
  | .m, .mutex _ v p => s.setObj g.1 (.mutex none v p)
  | .r, .rwlock rs w v p => s.setObj g.1 (.rwlock (eraseOne k rs) w v p)
  | .w, .rwlock rs _ v p => s.setObj g.1 (.rwlock rs none v p)
  | _, _ => s

def lockRes (poisoned : Bool) (v : Nat) : Res := .val (if poisoned then .poisoned else .v) (.int (Int.ofNat v))

/-! ### Fair semaphore: serve the head of the queue while it fits -/

def serve : Nat → Nat → List (Nat × Nat) → List Nat → Nat × List (Nat × Nat) × List Nat
  | 0, permits, q, g => (permits, q, g)
  | fuel + 1, permits, q, g =>
    match q with
    | (t, n) :: rest => if n ≤ permits then serve fuel (permits - n) rest (g ++ [t]) else (permits, q, g)
    | [] => (permits, q, g)

/-! ### Spawn: the handle ownership rule -/

/-- for each channel in declaration order: the parent's `Sender` is cloned for the child when the
child's text has a sender op on the channel; the parent's `Receiver` moves to the child when the
child's text has a receiver op on it and the parent's own remaining ops have none -/
def transfer (s : State) (parentRest childOps : List Op) : List (String × Nat) → TaskSt → TaskSt → State × TaskSt × TaskSt
  | [], p, c => (s, p, c)
  | (cname, ci) :: rest, p, c =>
    let (s, c) :=
      if p.tx.contains ci && usesTx childOps cname then
        match s.obj ci with
        | .chan b q n alive o rw h tk => (s.setObj ci (.chan b q (n + 1) alive o rw h tk), { c with tx := c.tx ++ [ci] })
        | _ => (s, c)
      else (s, c)
    let (p, c) :=
      if p.rx.contains ci && usesRx childOps cname && !usesRx parentRest cname then
        ({ p with rx := eraseOne ci p.rx }, { c with rx := c.rx ++ [ci] })
      else (p, c)
    transfer s parentRest childOps rest p c

/-! ### One transition of one task -/

def isAtomicOp (n : String) : Bool :=
  n == "aload" || n == "astore" || n == "aswap" || n == "aadd" || n == "asub" || n == "aand" || n == "aor" ||
  n == "axor" || n == "anand" || n == "amax" || n == "amin" || n == "acas"

/-- the implicit drops at the end of body `k`: one per transition -/
def endStep (ir : IR) (s : State) (k : Nat) (t : TaskSt) : List State :=
  let ops := opsOf ir k
  match t.guards.getLast? with
  | some g =>
    let s := releaseGuard s k g
    [s.setTask k (settle ops { t with guards := t.guards.dropLast })]
  | none =>
    -- first channel (declaration order) with an endpoint left: its sender first
    let rec go (cs : List (String × Nat)) : List State :=
      match cs with
      | [] => [s.setTask k (settle ops t)]
      | (_, ci) :: rest =>
        if t.tx.contains ci then
          match s.obj ci with
          | .chan b q n alive o rw h tk =>
            [(s.setObj ci (.chan b q (n - 1) alive o rw h tk)).setTask k (settle ops { t with tx := eraseOne ci t.tx })]
          | _ => [s.halt .unsupported]
        else if t.rx.contains ci then
          match s.obj ci with
          | .chan b _ n _ o rw h tk =>
            [(s.setObj ci (.chan b [] n false o rw h tk)).setTask k (settle ops { t with rx := eraseOne ci t.rx })]
          | _ => [s.halt .unsupported]
        else go rest
    go (chansOf ir.objs)

def startOp (ir : IR) (cfg : Cfg) (s : State) (k : Nat) (t : TaskSt) (op : Op) : List State :=
  let unsupported : List State := [s.halt .unsupported]
  let done (w : Word) : List State := word ir s k t w
  let oi : Nat := match findObj ir.objs (argS op 0) with | some i => i | none => ir.objs.length
  if isAtomicOp op.name then stepAtomic ir s k t op oi else
  match op.name with
  | "spawn" =>
    let b := argN op 0
    if b == 0 || b ≥ ir.tasks.length || (s.task b).spawned then unsupported else
    let childOps := opsOf ir b
    let parentRest := (opsOf ir k).drop (t.pc + 1)
    let c0 : TaskSt := { spawned := true, handle := true, pc := skipIfs childOps .none (childOps.length + 1) 0 }
    let (s1, p, c) := transfer s parentRest childOps (chansOf ir.objs) t c0
    let s2 := s1.setTask b (settle childOps c)
    [complete ir s2 k p (.word .ok)]
  | "join" =>
    let b := argN op 0
    let tb := s.task b
    if tb.spawned && tb.handle then
      -- the handle leaves the shared table; the wait for the thread is the second transition
      [(s.setTask b { tb with handle := false }).setTask k
        { (if b == k then { t with handle := false } else t) with phase := .joinWait b }]
    else done .nohandle
  | "yield" | "sleep" | "obs" | "reset_steps" => done .ok
  | "rand" => [complete ir s k t .any]
  | "park" =>
    if t.token then [complete ir s k { t with token := false } (.word .ok)]
    else if cfg.spuriousPark then done .ok
    else []
  | "unpark" =>
    let b := argN op 0
    let tb := s.task b
    if b < ir.tasks.length && tb.spawned then
      if b == k then [complete ir s k { t with token := true } (.word .ok)]
      else [complete ir (s.setTask b { tb with token := true }) k t (.word .ok)]
    else done .nohandle
  | "panic" => [s.halt .panic]
  -- mutex
  | "lock" =>
    match s.obj oi with
    | .mutex owner v p =>
      if owner == some k then [s.halt .panic]
      else if owner.isNone then
        [complete ir (s.setObj oi (.mutex (some k) v p)) k { t with guards := t.guards ++ [(oi, .m)] } (lockRes p v)]
      else []
    | _ => unsupported
  | "trylock" =>
    match s.obj oi with
    | .mutex owner v p =>
      if owner.isNone then
        [complete ir (s.setObj oi (.mutex (some k) v p)) k { t with guards := t.guards ++ [(oi, .m)] } (lockRes p v)]
      else done .wouldblock
    | _ => unsupported
  -- rwlock
  | "read" =>
    match s.obj oi with
    | .rwlock rs w v p =>
      if w == some k || rs.contains k then [s.halt .panic]
      else if w.isNone then
        [complete ir (s.setObj oi (.rwlock (insSorted k rs) w v p)) k { t with guards := t.guards ++ [(oi, .r)] } (lockRes p v)]
      else []
    | _ => unsupported
  | "write" =>
    match s.obj oi with
    | .rwlock rs w v p =>
      if w == some k || rs.contains k then [s.halt .panic]
      else if w.isNone && rs.isEmpty then
        [complete ir (s.setObj oi (.rwlock rs (some k) v p)) k { t with guards := t.guards ++ [(oi, .w)] } (lockRes p v)]
      else []
    | _ => unsupported
  | "tryread" =>
    match s.obj oi with
    | .rwlock rs w v p =>
      -- re-entrant attempts "fail or are diagnosed" (property C04; std documents that a recursive read may
      -- deadlock or panic): a try_read by a task that already holds the read lock reports WouldBlock
      if w.isNone && !rs.contains k then
        [complete ir (s.setObj oi (.rwlock (insSorted k rs) w v p)) k { t with guards := t.guards ++ [(oi, .r)] } (lockRes p v)]
      else done .wouldblock
    | _ => unsupported
  | "trywrite" =>
    match s.obj oi with
    | .rwlock rs w v p =>
      if w.isNone && rs.isEmpty then
        [complete ir (s.setObj oi (.rwlock rs (some k) v p)) k { t with guards := t.guards ++ [(oi, .w)] } (lockRes p v)]
      else done .wouldblock
    | _ => unsupported
  | "setval" =>
    match lastGuard t.guards oi (· != .r) with
    | none => done .noguard
    | some _ =>
      match s.obj oi with
      | .mutex o _ p => [complete ir (s.setObj oi (.mutex o (argN op 1) p)) k t (.word .ok)]
      | .rwlock rs w _ p => [complete ir (s.setObj oi (.rwlock rs w (argN op 1) p)) k t (.word .ok)]
      | _ => unsupported
  | "unlock" | "unread" | "unwrite" =>
    let kind : GK := if op.name == "unlock" then .m else if op.name == "unread" then .r else .w
    match lastGuard t.guards oi (· == kind) with
    | none => done .noguard
    | some i => [complete ir (releaseGuard s k (oi, kind)) k { t with guards := t.guards.eraseIdx i } (.word .ok)]
  -- condvar
  | "wait" | "wait_while" =>
    let mi : Nat := match findObj ir.objs (argS op 1) with | some i => i | none => ir.objs.length
    match lastGuard t.guards mi (· == .m) with
    | none => done .noguard
    | some gi =>
      match s.obj oi, s.obj mi with
      | .condvar ws, .mutex _ v p =>
        let stop := argN op 2
        if op.name == "wait_while" && v != stop then
          -- the predicate is false: `wait_while` returns the guard at once (it becomes the most recent)
          [complete ir s k { t with guards := t.guards.eraseIdx gi ++ [(mi, .m)] } (lockRes p v)]
        else
          -- atomically release the mutex and join the waiters
          let s1 := (s.setObj mi (.mutex none v p)).setObj oi (.condvar (insSorted k ws))
          [s1.setTask k { t with guards := t.guards.eraseIdx gi,
                                 phase := if op.name == "wait" then .cvWait oi mi else .wwWait oi mi stop }]
      | _, _ => unsupported
  | "notify_one" =>
    match s.obj oi with
    | .condvar ws =>
      if ws.isEmpty then done .ok
      else ws.map fun w => complete ir (s.setObj oi (.condvar (eraseOne w ws))) k t (.word .ok)
    | _ => unsupported
  | "notify_all" =>
    match s.obj oi with
    | .condvar _ => [complete ir (s.setObj oi (.condvar [])) k t (.word .ok)]
    | _ => unsupported
  -- barrier
  | "bwait" =>
    match s.obj oi with
    | .barrier n arrived released =>
      let arr := insSorted k arrived
      if arr.length ≥ n then
        -- the generation is complete: exactly one leader
        let leaders := if cfg.leaderLast then [k] else arr
        leaders.map fun l =>
          let rel := released ++ ((arr.filter (· != k)).map fun a => (a, a == l))
          complete ir (s.setObj oi (.barrier n [] rel)) k t (.word (if l == k then .leader else .follower))
      else [(s.setObj oi (.barrier n arr released)).setTask k { t with phase := .barWait oi }]
    | _ => unsupported
  -- once
  | "call_once" =>
    match s.obj oi with
    | .once .notRun _ => [complete ir (s.setObj oi (.once .done (argN op 1))) k t (.word .ran)]
    | .once .done _ => done .skipped
    | .once (.running _) _ => []
    | _ => unsupported
  | "is_completed" =>
    match s.obj oi with
    | .once st _ => done (if st == .done then .tt else .ff)
    | _ => unsupported
  | "once_val" =>
    match s.obj oi with
    | .once _ c => [complete ir s k t (.val .v (.int (Int.ofNat c)))]
    | _ => unsupported
  -- channels
  | "send" | "try_send" =>
    if !t.tx.contains oi then done .nosender else
    match s.obj oi with
    | .chan bound q n alive offers rw h tk =>
      let v := argN op 1
      if !alive then done .errDisconnected else
      match bound with
      | none => [complete ir (s.setObj oi (.chan bound (q ++ [v]) n alive offers rw h tk)) k t (.word .ok)]
      | some 0 =>
        if rw && h.isNone then
          [complete ir (s.setObj oi (.chan bound q n alive offers rw (some v) tk)) k t (.word .ok)]
        else if op.name == "try_send" then done .errFull
        else [(s.setObj oi (.chan bound q n alive (offers ++ [(k, v)]) rw h tk)).setTask k { t with phase := .rdvSend oi }]
      | some cap =>
        if q.length < cap then
          [complete ir (s.setObj oi (.chan bound (q ++ [v]) n alive offers rw h tk)) k t (.word .ok)]
        else if op.name == "try_send" then done .errFull
        else []
    | _ => unsupported
  | "recv" | "try_recv" =>
    if !t.rx.contains oi then done .norecv else
    match s.obj oi with
    | .chan bound q n alive offers rw h tk =>
      match q with
      | x :: q' => [complete ir (s.setObj oi (.chan bound q' n alive offers rw h tk)) k t (.val .v (.int (Int.ofNat x)))]
      | [] =>
        match offers with
        | (sd, x) :: offers' =>
          [complete ir (s.setObj oi (.chan bound q n alive offers' rw h (insSorted sd tk))) k t (.val .v (.int (Int.ofNat x)))]
        | [] =>
          if n == 0 then done .errDisconnected
          else if op.name == "try_recv" then done .errEmpty
          else if bound == some 0 then
            [(s.setObj oi (.chan bound q n alive offers true h tk)).setTask k { t with phase := .rdvRecv oi }]
          else []
    | _ => unsupported
  | "drop_tx" =>
    if !t.tx.contains oi then done .nosender else
    match s.obj oi with
    | .chan bound q n alive offers rw h tk =>
      [complete ir (s.setObj oi (.chan bound q (n - 1) alive offers rw h tk)) k { t with tx := eraseOne oi t.tx } (.word .ok)]
    | _ => unsupported
  | "drop_rx" =>
    if !t.rx.contains oi then done .norecv else
    match s.obj oi with
    | .chan bound _ n _ offers rw h tk =>
      [complete ir (s.setObj oi (.chan bound [] n false offers rw h tk)) k { t with rx := eraseOne oi t.rx } (.word .ok)]
    | _ => unsupported
  -- semaphore
  | "acquire" =>
    match s.obj oi with
    | .sem permits fair closed q g =>
      let n := argN op 1
      if closed then done .closed
      else if fair then
        if q.isEmpty && n ≤ permits then [complete ir (s.setObj oi (.sem (permits - n) fair closed q g)) k t (.word .ok)]
        else [(s.setObj oi (.sem permits fair closed (q ++ [(k, n)]) g)).setTask k { t with phase := .semWait oi }]
      else if n ≤ permits then [complete ir (s.setObj oi (.sem (permits - n) fair closed q g)) k t (.word .ok)]
      else []
    | _ => unsupported
  | "try_acquire" =>
    match s.obj oi with
    | .sem permits fair closed q g =>
      let n := argN op 1
      if closed then done .closed
      else if (fair && !q.isEmpty) || permits < n then done .nopermits
      else [complete ir (s.setObj oi (.sem (permits - n) fair closed q g)) k t (.word .ok)]
    | _ => unsupported
  | "release" =>
    match s.obj oi with
    | .sem permits fair closed q g =>
      let (p', q', g') := if fair then serve (q.length + 1) (permits + argN op 1) q g else (permits + argN op 1, q, g)
      [complete ir (s.setObj oi (.sem p' fair closed q' g')) k t (.word .ok)]
    | _ => unsupported
  | "close" =>
    match s.obj oi with
    | .sem permits fair _ _ g => [complete ir (s.setObj oi (.sem permits fair true [] g)) k t (.word .ok)]
    | _ => unsupported
  | "avail" =>
    match s.obj oi with
    | .sem permits _ _ _ _ => [complete ir s k t (.val .v (.int (Int.ofNat permits)))]
    | _ => unsupported
  | _ => unsupported

/-- the second transition of a two-transition operation -/
def resume (ir : IR) (s : State) (k : Nat) (t : TaskSt) : List State :=
  match t.phase with
  | .start => []
  | .joinWait b => if (s.task b).done then word ir s k t .ok else []
  | .cvWait cv m =>
    match s.obj cv, s.obj m with
    | .condvar ws, .mutex owner v p =>
      if !ws.contains k && owner.isNone then
        [complete ir (s.setObj m (.mutex (some k) v p)) k { t with guards := t.guards ++ [(m, .m)] } (lockRes p v)]
      else []
    | _, _ => []
  | .wwWait cv m stop =>
    match s.obj cv, s.obj m with
    | .condvar ws, .mutex owner v p =>
      if !ws.contains k && owner.isNone then
        let s1 := s.setObj m (.mutex (some k) v p)
        if v != stop then [complete ir s1 k { t with guards := t.guards ++ [(m, .m)] } (lockRes p v)]
        else [s1.setTask k { t with phase := .wwHold cv m stop }]
      else []
    | _, _ => []
  | .wwHold cv m stop =>
    match s.obj cv, s.obj m with
    | .condvar ws, .mutex _ v p =>
      [((s.setObj m (.mutex none v p)).setObj cv (.condvar (insSorted k ws))).setTask k { t with phase := .wwWait cv m stop }]
    | _, _ => []
  | .barWait b =>
    match s.obj b with
    | .barrier n arr rel =>
      match rel.find? (·.1 == k) with
      | some (_, leader) =>
        [complete ir (s.setObj b (.barrier n arr (rel.filter (·.1 != k)))) k t (.word (if leader then .leader else .follower))]
      | none => []
    | _ => []
  | .rdvSend c =>
    match s.obj c with
    | .chan bound q n alive offers rw h tk =>
      if tk.contains k then [complete ir (s.setObj c (.chan bound q n alive offers rw h (eraseOne k tk))) k t (.word .ok)]
      else if !alive then
        [complete ir (s.setObj c (.chan bound q n alive (offers.filter (·.1 != k)) rw h tk)) k t (.word .errDisconnected)]
      else []
    | _ => []
  | .rdvRecv c =>
    match s.obj c with
    | .chan bound q n alive offers _ h tk =>
      match h with
      | some x => [complete ir (s.setObj c (.chan bound q n alive offers false none tk)) k t (.val .v (.int (Int.ofNat x)))]
      | none =>
        if n == 0 then [complete ir (s.setObj c (.chan bound q n alive offers false none tk)) k t (.word .errDisconnected)]
        else []
    | _ => []
  | .semWait si =>
    match s.obj si with
    | .sem permits fair closed q g =>
      if g.contains k then [complete ir (s.setObj si (.sem permits fair closed q (eraseOne k g))) k t (.word .ok)]
      else if closed then [complete ir (s.setObj si (.sem permits fair closed q g)) k t (.word .closed)]
      else []
    | _ => []

/-- every state task `k` can move to in one transition (`[]`: not enabled) -/
def stepTask (ir : IR) (cfg : Cfg) (s : State) (k : Nat) : List State :=
  match s.tasks[k]? with
  | none => []
  | some t =>
    if !t.spawned || t.done then []
    else match t.phase with
      | .start =>
        match (opsOf ir k)[t.pc]? with
        | some op => startOp ir cfg s k t op
        | none => endStep ir s k t
      | _ => resume ir s k t

/-- all successors of a state (none once the run is over) -/
def succs (ir : IR) (cfg : Cfg) (s : State) : List State :=
  if s.halted.isSome then [] else (List.range ir.tasks.length).flatMap (stepTask ir cfg s)

def init (ir : IR) : State :=
  let n := ir.tasks.length
  let cs := (chansOf ir.objs).map (·.2)
  let ops0 := opsOf ir 0
  let t0 : TaskSt := settle ops0 { spawned := true, tx := cs, rx := cs, pc := skipIfs ops0 .none (ops0.length + 1) 0 }
  { objs := ir.objs.map mkObj, tasks := t0 :: List.replicate (n - 1) {} }

/-- the outcome of a state without successors -/
def outcomeOf (s : State) : Outcome :=
  let res := s.tasks.map fun t => t.results.reverse
  let unfinished := (s.tasks.zipIdx.filter fun p => p.1.spawned && !p.1.done).map (·.2)
  { results := res,
    term := match s.halted with
      | some t => t
      | none => if unfinished.isEmpty then .ok else .deadlock unfinished }

/-- exhaustive search over interleavings with memoisation of visited states; at most `limit`
states are expanded, the flag says whether the search was complete -/
def outcomes (ir : IR) (limit : Nat) (cfg : Cfg := {}) : List Outcome × Bool :=
  let rec go (fuel : Nat) (stack : List State) (seen : Std.HashSet State) (acc : Std.HashSet Outcome) (count : Nat) :
      List Outcome × Bool :=
    match fuel with
    | 0 => (acc.toList, stack.isEmpty)
    | fuel + 1 =>
      match stack with
      | [] => (acc.toList, true)
      | s :: rest =>
        if count ≥ limit then (acc.toList, false) else
        let nxt := succs ir cfg s
        if nxt.isEmpty then go fuel rest seen (acc.insert (outcomeOf s)) (count + 1)
        else
          -- a spurious return of `park` is allowed, not guaranteed: a state in which nothing but
          -- spurious returns is enabled is also a possible end of the run (a deadlock)
          let acc := if cfg.spuriousPark && (succs ir { cfg with spuriousPark := false } s).isEmpty
            then acc.insert (outcomeOf s) else acc
          let (stack', seen') := nxt.foldl (fun (p : List State × Std.HashSet State) s' =>
            if p.2.contains s' then p else (s' :: p.1, p.2.insert s')) (rest, seen)
          go fuel stack' seen' acc (count + 1)
  let s0 := init ir
  go (limit + 1) [s0] (Std.HashSet.emptyWithCapacity.insert s0) Std.HashSet.emptyWithCapacity 0

/-- follow the successor with the given index at every step; `some` when the path ends in a
state without successors (used by the kernel-checked witnesses) -/
def runPath (ir : IR) (cfg : Cfg) : List Nat → State → Option Outcome
  | [], s => if (succs ir cfg s).isEmpty then some (outcomeOf s) else none
  | c :: cs, s => match (succs ir cfg s)[c]? with
    | some s' => runPath ir cfg cs s'
    | none => none

/-! ### Canonical rendering (shared format with `tools/outcomes.py`) -/

def termStr : Term → String
  | .ok => "ok"
  | .deadlock l => "deadlock " ++ ",".intercalate (l.map toString)
  | .panic => "panic"
  | .unsupported => "unsupported"

def Outcome.str (o : Outcome) : String :=
  let per := o.results.zipIdx.map fun (rs, k) =>
    toString k ++ ":" ++ ",".intercalate (rs.map fun (pc, r) => toString pc ++ "=" ++ r.str)
  ";".intercalate per ++ ";E:" ++ termStr o.term

end ShuttleModel.Ref
