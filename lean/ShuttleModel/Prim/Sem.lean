import ShuttleModel.Prim.Base
/-
  BatchSemaphore — transcription of shuttle-engine/src/future/batch_semaphore.rs.

  Two layers:
  * pure atomic transitions on `SemState` (`acquirePermits`, `unblockFront`, `releasePure`,
    `closePure`, `removeWaiterPure`, `reblockEffs`, `pollPure`) that return the new state plus the
    kernel side effects (`Eff`) the Rust code performs inside the same `ExecutionState::with`
    region — these are what the C18/C04 theorems talk about;
  * `Prog` wrappers (`tryAcquire`, `release`, `close`, `poll`, `dropAcquire`, `acquireBlocking`,
    `blockOn`) that place the `thread::switch()` calls exactly where the Rust code has them.
-/
namespace ShuttleModel

/-- `Waiter` + the `completed` / `never_polled` fields of its `Acquire`. -/
structure Waiter where
  wid : Nat
  taskId : Nat
  n : Nat
  clock : Clock
  isQueued : Bool := false
  hasPermits : Bool := false
  waker : Option Nat := none
  completed : Bool := false
  neverPolled : Bool := true
deriving Repr, Inhabited

/-- `BatchSemaphoreState` + `PermitsAvailable` + fairness. -/
structure SemState where
  fair : Bool
  avail : Nat
  /-- `permit_clocks` (`none` = not yet initialised, see `const_new`) -/
  batches : Option (List (Nat × Clock))
  lastAcquire : Clock := Clock.new
  closed : Bool := false
  /-- `waiters` (ids into `table`, front first) -/
  queue : List Nat := []
  /-- every live `Acquire` -/
  table : List Waiter := []
  nextWid : Nat := 0
deriving Repr, Inhabited

inductive TryErr where
  | closed
  | noPermits
deriving Repr, DecidableEq, Inhabited

namespace SemState

/-- `BatchSemaphore::new` -/
def new (n : Nat) (fair : Bool) (creatorClock : Clock) : SemState :=
  { fair := fair, avail := n, batches := some (if n > 0 then [(n, creatorClock)] else []) }

/-- `BatchSemaphore::const_new` -/
def constNew (n : Nat) (fair : Bool) : SemState :=
  { fair := fair, avail := n, batches := none }

def getW (s : SemState) (wid : Nat) : Option Waiter := s.table.find? (·.wid == wid)

def setW (s : SemState) (w : Waiter) : SemState :=
  { s with table := s.table.map (fun x => if x.wid == w.wid then w else x) }

def dropW (s : SemState) (wid : Nat) : SemState :=
  { s with table := s.table.filter (·.wid != wid) }

/-- `init_permit_clocks` -/
def initBatches (s : SemState) : List (Nat × Clock) :=
  match s.batches with
  | some b => b
  | none => if s.avail > 0 then [(s.avail, Clock.new)] else []

/-- the batch loop of `PermitsAvailable::acquire` (`n > 0`) -/
def takeBatches : Nat → List (Nat × Clock) → Clock → List (Nat × Clock) × Clock
  | _, [], acc => ([], acc)
  | n, (b, c) :: rest, acc =>
    let acc := acc.update c
    if n < b then ((b - n, c) :: rest, acc)
    else if n = b then (rest, acc)
    else takeBatches (n - b) rest acc

/-- `PermitsAvailable::acquire` -/
def paAcquire (s : SemState) (n : Nat) (acqClock : Clock) : Option (SemState × Clock) :=
  if n = 0 then some (s, Clock.new)
  else if n ≤ s.avail then
    let (bs, c) := takeBatches n s.initBatches Clock.new
    some ({ s with batches := some bs, lastAcquire := s.lastAcquire.update acqClock, avail := s.avail - n }, c)
  else none

/-- `PermitsAvailable::release` -/
def paRelease (s : SemState) (n : Nat) (c : Clock) : SemState :=
  { s with batches := some (s.initBatches ++ [(n, c)]), avail := s.avail + n }

/-- `BatchSemaphoreState::acquire_permits` (the returned clock is passed to `update_clock`) -/
def acquirePermits (s : SemState) (n : Nat) (myClock : Clock) : Except String (Except TryErr (SemState × Clock)) :=
  if n = 0 then .error "assertion failed: num_permits > 0"
  else if s.closed then .ok (.error .closed)
  else if s.queue.isEmpty || !s.fair then
    match s.paAcquire n myClock with
    | some r => .ok (.ok r)
    | none => .ok (.error .noPermits)
  else .ok (.error .noPermits)

/-- `unblock_waiters_from_front`; `fin t` = task `t` has finished (stale waiter) -/
def unblockFront (fin : Nat → Bool) : List Nat → SemState → SemState × List Eff
  | [], s => ({ s with queue := [] }, [])
  | wid :: rest, s =>
    match s.getW wid with
    | none => unblockFront fin rest s      -- cannot happen: queue ⊆ table
    | some w =>
      if fin w.taskId then
        unblockFront fin rest (s.setW { w with isQueued := false, waker := none })
      else if w.n ≤ s.avail then
        match s.paAcquire w.n w.clock with
        | none => ({ s with queue := wid :: rest }, [])
        | some (s', c) =>
          let s' := s'.setW { w with isQueued := false, hasPermits := true, waker := none }
          let effs := [Eff.joinClock w.taskId c, Eff.unblock w.taskId] ++
            (match w.waker with | some t => [Eff.wake t] | none => [])
          let (s'', effs') := unblockFront fin rest s'
          (s'', effs ++ effs')
      else ({ s with queue := wid :: rest }, [])

/-- the body of `release` after the scheduling point (`c` = the releaser's incremented clock) -/
def releasePure (fin : Nat → Bool) (s : SemState) (n : Nat) (c : Clock) : SemState × List Eff :=
  let s := s.paRelease n c
  if s.fair then unblockFront fin s.queue s
  else
    let avail := s.avail
    let effs := s.queue.flatMap fun wid =>
      match s.getW wid with
      | none => []
      | some w =>
        if w.n ≤ avail then
          if fin w.taskId then [] else
            [Eff.unblock w.taskId] ++ (match w.waker with | some t => [Eff.wake t] | none => [])
        else []
    (s, effs)

/-- `close_no_scheduling_point` -/
def closePure (fin : Nat → Bool) (s : SemState) : SemState × List Eff :=
  if s.closed then (s, [])
  else
    let effs := s.queue.flatMap fun wid =>
      match s.getW wid with
      | none => []
      | some w => (if fin w.taskId then [] else [Eff.unblock w.taskId]) ++
                  (match w.waker with | some t => [Eff.wake t] | none => [])
    let s' := s.queue.foldl (fun s wid => match s.getW wid with
      | some w => s.setW { w with isQueued := false, waker := none }
      | none => s) s
    ({ s' with closed := true, queue := [] }, effs)

/-- `reblock_if_unfair` -/
def reblockEffs (fin : Nat → Bool) (s : SemState) : List Eff :=
  if s.fair then []
  else s.queue.flatMap fun wid =>
    match s.getW wid with
    | none => []
    | some w => if s.avail < w.n && !fin w.taskId then [Eff.block w.taskId] else []

/-- `remove_waiter` -/
def removeWaiterPure (fin : Nat → Bool) (s : SemState) (wid : Nat) : Except String (SemState × List Eff) :=
  match s.getW wid with
  | none => .error "did not find waiter"
  | some w =>
    if s.closed then .error "assertion failed: !state.closed"
    else if w.hasPermits then .error "assertion failed: !waiter.has_permits"
    else match s.queue.findIdx? (· == wid) with
      | none => .error "did not find waiter"
      | some idx =>
        let s := { s with queue := s.queue.eraseIdx idx }
        let s := s.setW { w with isQueued := false }
        if s.fair && idx == 0 then .ok (unblockFront fin s.queue s) else .ok (s, [])

/-- `Acquire::new` -/
def newAcquire (s : SemState) (me : Nat) (n : Nat) (myClock : Clock) : Nat × SemState :=
  (s.nextWid, { s with nextWid := s.nextWid + 1,
                        table := s.table ++ [{ wid := s.nextWid, taskId := me, n := n, clock := myClock }] })

end SemState

inductive PollRes where
  | ready (ok : Bool)        -- `Ready(Ok(()))` / `Ready(Err(closed))`
  | pending
deriving Repr, DecidableEq, Inhabited

namespace Sem
variable {U : Type}

/-- snapshot of `finished()` for the tasks that own queued waiters -/
def finSnapshot (L : Lens U SemState) : Prog U (Nat → Bool) := do
  let s ← K.getL L
  let tasks := s.queue.filterMap (fun wid => (s.getW wid).map (·.taskId))
  let rec go : List Nat → List (Nat × Bool) → Prog U (List (Nat × Bool))
    | [], acc => pure acc
    | t :: ts, acc => do let f ← K.isFinished t; go ts ((t, f) :: acc)
  let tbl ← go tasks []
  pure (fun t => match tbl.find? (·.1 == t) with | some p => p.2 | none => false)

/-- `reblock_if_unfair` -/
def reblockIfUnfair (L : Lens U SemState) : Prog U Unit := do
  let fin ← finSnapshot L
  let s ← K.getL L
  runEffs (s.reblockEffs fin)

/-- `BatchSemaphore::try_acquire` -/
def tryAcquire (L : Lens U SemState) (n : Nat) : Prog U (Except TryErr Unit) := do
  K.switch
  let s ← K.getL L
  let c ← K.clock
  match s.acquirePermits n c with
  | .error msg => K.panic msg
  | .ok (.ok (s', pc)) =>
    K.setL L s'
    K.updateClock pc
    reblockIfUnfair L
    pure (.ok ())
  | .ok (.error e) =>
    K.updateClock s.lastAcquire
    pure (.error e)

/-- the `should_stop()` branch of `release`: give the permits back, forget the waiters (they are
*not* unblocked) and close the semaphore — models lock poisoning -/
def _root_.ShuttleModel.SemState.releasePoison (s : SemState) (n : Nat) : SemState :=
  let s := s.paRelease n Clock.new
  let s := s.queue.foldl (fun s wid => match s.getW wid with
    | some w => s.setW { w with isQueued := false }
    | none => s) s
  { s with queue := [], closed := true }

/-- `BatchSemaphore::release` -/
def release (L : Lens U SemState) (n : Nat) : Prog U Unit := do
  K.switch
  if n = 0 then pure () else do
    let stopping ← K.isPanicking
    if stopping then do
      let s ← K.getL L
      K.setL L (s.releasePoison n)
    else do
    let c ← K.incClock
    let fin ← finSnapshot L
    let s ← K.getL L
    let (s', effs) := s.releasePure fin n c
    K.setL L s'
    runEffs effs

/-- `close_no_scheduling_point` -/
def closeNoSwitch (L : Lens U SemState) : Prog U Unit := do
  let fin ← finSnapshot L
  let s ← K.getL L
  let (s', effs) := s.closePure fin
  K.setL L s'
  runEffs effs

/-- `BatchSemaphore::close` -/
def close (L : Lens U SemState) : Prog U Unit := do
  K.switch
  closeNoSwitch L

/-- `BatchSemaphore::acquire` → `Acquire::new` (no scheduling point) -/
def newAcquire (L : Lens U SemState) (n : Nat) : Prog U Nat := do
  let me ← K.me
  let c ← K.clock
  let s ← K.getL L
  let (wid, s') := s.newAcquire me n c
  K.setL L s'
  pure wid

/-- result of the atomic part of `Acquire::poll` (everything after its optional scheduling point):
the poll result, the clock handed to `update_clock` when permits were taken, and the kernel
effects, in the order the Rust code performs them (`update_clock` first) -/
structure PollOut where
  s : SemState
  res : PollRes
  pc : Option Clock := none
  effs : List Eff := []

/-- the state update of `Acquire::poll` after its optional `thread::switch()`: `me` = the polling
task, `cxTask` = the task `cx.waker()` belongs to, `myClock` = `current::clock()`, `fin t` = task
`t` has finished -/
def _root_.ShuttleModel.SemState.pollPure (s : SemState) (wid me cxTask : Nat) (myClock : Clock)
    (fin : Nat → Bool) : Except String PollOut :=
  match s.getW wid with
  | none => .error "poll: unknown Acquire"
  | some w =>
    let w := { w with neverPolled := false }
    if w.hasPermits then
      if w.isQueued then .error "assertion failed: !self.waiter.is_queued"
      else .ok { s := s.setW { w with completed := true }, res := .ready true }
    else if s.closed then
      if w.isQueued then .error "assertion failed: !self.waiter.is_queued"
      else .ok { s := s.setW { w with completed := true }, res := .ready false }
    else if w.isQueued != w.waker.isSome then
      .error "assertion `left == right` failed (is_queued vs waker)"
    else if !(s.fair && w.isQueued) then
      match s.acquirePermits w.n myClock with
      | .error msg => .error msg
      | .ok (.ok (s', pc)) =>
        let s1 := s'.setW w
        match (if w.isQueued then s1.removeWaiterPure fin wid else .ok (s1, [])) with
        | .error msg => .error msg
        | .ok (s3, effs) =>
          match s3.getW wid with
          | none => .error "poll: unknown Acquire"
          | some w4 =>
            let s5 := s3.setW { w4 with hasPermits := true, completed := true, neverPolled := false }
            .ok { s := s5, res := .ready true, pc := some pc, effs := effs ++ s5.reblockEffs fin }
      | .ok (.error .noPermits) =>
        let w' := { w with waker := some cxTask, taskId := me }
        if !w.isQueued then
          .ok { s := { s with queue := s.queue ++ [wid] }.setW { w' with isQueued := true }, res := .pending }
        else .ok { s := s.setW w', res := .pending }
      | .ok (.error .closed) => .error "internal error: entered unreachable code"
    else
      .ok { s := s.setW { w with waker := some cxTask, taskId := me }, res := .pending }

/-- `Acquire::poll` with `cx.waker()` belonging to task `cxTask` -/
def poll (L : Lens U SemState) (wid : Nat) (cxTask : Nat) : Prog U PollRes := do
  let s ← K.getL L
  match s.getW wid with
  | none => K.panic "poll: unknown Acquire"
  | some w =>
    if w.completed then K.panic "assertion failed: !self.completed" else do
    let willSucceed := w.hasPermits || s.closed || s.avail ≥ w.n
    if w.neverPolled && (willSucceed || s.fair) then K.switch else pure ()
    -- re-read: other tasks may have run at the scheduling point
    let s ← K.getL L
    let me ← K.me
    let c ← K.clock
    let fin ← finSnapshot L
    match s.pollPure wid me cxTask c fin with
    | .error msg => K.panic msg
    | .ok o => do
      K.setL L o.s
      match o.pc with
      | some pc => K.updateClock pc
      | none => pure ()
      runEffs o.effs
      pure o.res

/-- `Drop for Acquire` -/
def dropAcquire (L : Lens U SemState) (wid : Nat) : Prog U Unit := do
  let s ← K.getL L
  match s.getW wid with
  | none => pure ()
  | some w =>
    if w.isQueued then do
      let fin ← finSnapshot L
      match s.removeWaiterPure fin wid with
      | .error msg => K.panic msg
      | .ok (s', effs) => do K.setL L (s'.dropW wid); runEffs effs
    else if w.hasPermits && !w.completed then do
      K.setL L (s.dropW wid)
      release L w.n
    else K.setL L (s.dropW wid)

/-- the loop of `future::block_on` around an `Acquire` -/
def blockOnAcquire (L : Lens U SemState) (wid : Nat) : Nat → Prog U Bool
  | 0 => K.panic "model: block_on fuel exhausted"
  | fuel + 1 => do
    let me ← K.me
    let r ← poll L wid me
    match r with
    | .ready ok => do dropAcquire L wid; pure ok
    | .pending => do
      K.sleepUnlessWoken
      K.switch
      blockOnAcquire L wid fuel

def loopFuel : Nat := 1000000

/-- `BatchSemaphore::acquire_blocking` -/
def acquireBlocking (L : Lens U SemState) (n : Nat) : Prog U Bool := do
  let wid ← newAcquire L n
  blockOnAcquire L wid loopFuel

end Sem
end ShuttleModel
