import ShuttleModel.Prim.Base
/-
  mpsc channels — transcription of shuttle-std/src/sync/mpsc.rs (`Channel<T>`, `Sender`,
  `SyncSender`, `Receiver`).

  * pure parts: `ChanState`, `senderMustBlock`, `receiverMustBlock`, `nextSenderAfterPush`, `popMessage`,
    `dropSenderPure`, `dropReceiverPure` (state change + the `unblock`s of the same
    `ExecutionState::with` region);
  * `Prog` wrappers `sendInternal`, `recvInternal`, `cloneSender`, `dropSender`, `dropReceiver`
    with `thread::switch()` exactly where the Rust code calls it.
-/
namespace ShuttleModel

/-- `ChannelState<T>` + `Channel::bound` (messages carry their `TimestampedValue::clock`). -/
structure ChanState where
  /-- `None` unbounded, `Some 0` rendezvous, `Some k` bounded -/
  bound : Option Nat := none
  messages : List (Nat × Clock) := []
  /-- `receiver_clock` (`Some` for bounded channels: initially `bound` empty clocks) -/
  receiverClock : Option (List Clock) := none
  knownSenders : Nat := 1
  knownReceivers : Nat := 1
  waitingSenders : List Nat := []
  waitingReceivers : List Nat := []
deriving Repr, Inhabited

inductive SendRes where
  | ok
  | full
  | disconnected
deriving Repr, DecidableEq, Inhabited

inductive RecvRes where
  | ok (v : Nat)
  | empty
  | disconnected
deriving Repr, DecidableEq, Inhabited

namespace ChanState

/-- `Channel::new(bound)` -/
def new (bound : Option Nat) : ChanState :=
  { bound := bound, receiverClock := bound.map (fun b => List.replicate b Clock.new) }

/-- `is_rendezvous` -/
def isRdv (s : ChanState) : Bool := s.bound == some 0

/-- `sender_must_block` -/
def senderMustBlock (s : ChanState) : Bool :=
  let (rdv, full) := match s.bound with
    | some b => (b == 0, decide (s.messages.length ≥ max b 1))
    | none => (false, false)
  full || !s.waitingSenders.isEmpty || (rdv && s.waitingReceivers.isEmpty)

/-- `receiver_must_block` -/
def receiverMustBlock (s : ChanState) : Bool :=
  s.messages.isEmpty || !s.waitingReceivers.isEmpty

/-- the sender that `send_internal` unblocks after pushing its message (`Err` = the `expect`) -/
def nextSenderAfterPush (s : ChanState) : Except String (Option Nat) :=
  match s.waitingSenders.head? with
  | none => .ok none
  | some tid => match s.bound with
    | none => .error "can't have waiting senders on an unbounded channel"
    | some b => .ok (if s.messages.length < b then some tid else none)

/-- the part of `recv_internal` from `messages.remove(0)` to the two `unblock`s: new state, the
message, the tasks to unblock in order -/
def popMessage (s : ChanState) : Except String (ChanState × (Nat × Clock) × List Eff) :=
  match s.messages with
  | [] => .error "assertion failed: index < len"
  | item :: rest =>
    let s := { s with messages := rest }
    match (match s.waitingSenders.head? with
           | none => Except.ok []
           | some tid => match s.bound with
             | none => Except.error "can't have waiting senders on an unbounded channel"
             | some b => Except.ok (if b > 0 || !s.waitingReceivers.isEmpty then [Eff.unblock tid] else [])) with
    | .error e => .error e
    | .ok e1 =>
      let e2 := match s.waitingReceivers.head? with
        | some tid => if !s.messages.isEmpty then [Eff.unblock tid] else []
        | none => []
      .ok (s, item, e1 ++ e2)

/-- `Drop for Sender` / `SyncSender` (the part after the `should_stop()` test) -/
def dropSenderPure (s : ChanState) : Except String (ChanState × List Eff) :=
  if s.knownSenders == 0 then .error "assertion failed: state.known_senders > 0"
  else
    let s := { s with knownSenders := s.knownSenders - 1 }
    .ok (s, if s.knownSenders == 0 then s.waitingReceivers.map Eff.unblock else [])

/-- `Drop for Receiver` -/
def dropReceiverPure (s : ChanState) : Except String (ChanState × List Eff) :=
  if s.knownReceivers == 0 then .error "assertion failed: state.known_receivers > 0"
  else
    let s := { s with knownReceivers := s.knownReceivers - 1 }
    .ok (s, if s.knownReceivers == 0 then s.waitingSenders.map Eff.unblock else [])

end ChanState

namespace Chan
variable {U : Type}

/-- `waiting_x.remove(0)` followed by `assert_eq!(head, me)` -/
def popHead (l : List Nat) (me : Nat) : Except String (List Nat) × List Nat :=
  match l with
  | [] => (.error "assertion failed: index < len", [])
  | h :: t => (if h == me then .ok t else .error "assertion `left == right` failed", t)

/-- `Channel::send_internal(message, can_block)` -/
def sendInternal (L : Lens U ChanState) (v : Nat) (canBlock : Bool) : Prog U SendRes := do
  K.switch
  let me ← K.me
  let s ← K.getL L
  let shouldBlock := s.senderMustBlock
  if s.knownReceivers == 0 then pure .disconnected
  else if shouldBlock && !canBlock then pure .full
  else do
    let blockedOut ← (if shouldBlock then do
        K.setL L { s with waitingSenders := s.waitingSenders ++ [me] }
        K.block false
        K.switch
        let s ← K.getL L
        if s.knownReceivers == 0 then do
          K.setL L { s with waitingSenders := s.waitingSenders.filter (· != me) }
          pure true
        else
          match popHead s.waitingSenders me with
          | (.ok _, rest) => do K.setL L { s with waitingSenders := rest }; pure false
          | (.error e, rest) => do K.setL L { s with waitingSenders := rest }; K.panic e
      else pure false : Prog U Bool)
    if blockedOut then pure .disconnected else do
    let c ← K.incClock
    let s ← K.getL L
    let s := { s with messages := s.messages ++ [(v, c)] }
    K.setL L s
    -- unblock the first waiting receiver; on a rendezvous channel join its clock
    match s.waitingReceivers.head? with
    | some tid => do
      K.unblock tid
      if s.isRdv then do
        let rcv ← K.clockOf tid
        K.updateClock rcv
      else pure ()
    | none => pure ()
    -- unblock the next waiting sender, if eligible
    match s.nextSenderAfterPush with
    | .error e => K.panic e
    | .ok (some tid) => K.unblock tid
    | .ok none => pure ()
    -- bounded, non-rendezvous: pop the front of `receiver_clock` and join it
    if !s.isRdv then
      match s.receiverClock with
      | none => pure ()
      | some [] => K.panic "assertion failed: index < len"
      | some (rc :: rest) => do
        K.setL L { s with receiverClock := some rest }
        K.updateClock rc
    else pure ()
    pure .ok

/-- `Channel::recv_internal(can_block)` -/
def recvInternal (L : Lens U ChanState) (canBlock : Bool) : Prog U RecvRes := do
  K.switch
  let me ← K.me
  let s ← K.getL L
  let shouldBlock := s.receiverMustBlock
  if s.messages.isEmpty && s.knownSenders == 0 then pure .disconnected
  else do
    -- rendezvous and empty: notify the first waiting sender (or fail a `try_recv`)
    let nobody ← (if s.isRdv && s.messages.isEmpty then
        match s.waitingSenders.head? with
        | some tid => do K.unblock tid; pure false
        | none => pure (!canBlock)
      else pure false : Prog U Bool)
    if nobody then pure .empty
    else if !s.isRdv && !canBlock && s.waitingReceivers.length ≥ s.messages.length then pure .empty
    else do
      -- pre-increment of the receiver's clock
      let _ ← K.incClock
      let blockedOut ← (if shouldBlock then do
          K.setL L { s with waitingReceivers := s.waitingReceivers ++ [me] }
          K.block false
          K.switch
          let s ← K.getL L
          if s.messages.isEmpty && s.knownSenders == 0 then do
            K.setL L { s with waitingReceivers := s.waitingReceivers.filter (· != me) }
            pure true
          else
            match popHead s.waitingReceivers me with
            | (.ok _, rest) => do K.setL L { s with waitingReceivers := rest }; pure false
            | (.error e, rest) => do K.setL L { s with waitingReceivers := rest }; K.panic e
        else pure false : Prog U Bool)
      if blockedOut then pure .disconnected else do
      let s ← K.getL L
      match s.popMessage with
      | .error e => K.panic e
      | .ok (s', (v, mc), effs) =>
        K.setL L s'
        runEffs effs
        -- `get_clock_mut(me).update(&clock)` (no increment)
        K.joinClockOf me mc
        match s'.receiverClock, s'.bound with
        | some rcs, some b =>
          if b > 0 then
            if !(rcs.length < b) then K.panic "assertion failed: receiver_clock.len() < bound"
            else do
              let mine ← K.clock
              K.setL L { s' with receiverClock := some (rcs ++ [mine]) }
          else pure ()
        | some _, none => K.panic "unexpected internal error"
        | none, _ => pure ()
        pure (.ok v)

/-- `Sender::clone` / `SyncSender::clone` — no scheduling point -/
def cloneSender (L : Lens U ChanState) : Prog U Unit := do
  let s ← K.getL L
  K.setL L { s with knownSenders := s.knownSenders + 1 }

/-- `Drop for Sender` / `SyncSender`: nothing at all when `should_stop()` (some task is
panicking); no scheduling point -/
def dropSender (L : Lens U ChanState) : Prog U Unit := do
  let stop ← K.isPanicking
  if stop then pure () else do
    let s ← K.getL L
    match s.dropSenderPure with
    | .error e => K.panic e
    | .ok (s', effs) => do K.setL L s'; runEffs effs

/-- `Drop for Receiver` -/
def dropReceiver (L : Lens U ChanState) : Prog U Unit := do
  let stop ← K.isPanicking
  if stop then pure () else do
    let s ← K.getL L
    match s.dropReceiverPure with
    | .error e => K.panic e
    | .ok (s', effs) => do K.setL L s'; runEffs effs

end Chan
end ShuttleModel
