import ShuttleModel.Prim.Base
/-
  mpsc channels — transcription of shuttle-std/src/sync/mpsc.rs (`Channel<T>`, `Sender`,
  `SyncSender`, `Receiver`).

  Two layers (same style as Prim/Sem.lean):
  * PURE atomic transitions on `ChanState`, one per piece of code that runs without a
    `thread::switch()` in between: `sendStart`, `sendWake`, `sendPush`, `recvStart`, `recvWake`,
    `recvPop`, `recvAck`, `cloneSenderStep`, `dropSenderStep`, `dropReceiverStep`.  Each returns a
    `ChanStep ρ = Except ChanPanic (ChanState × ρ × List Eff)`: the new state, the result (or the
    next stage of the operation) and the kernel side effects (`get_mut(t).unblock()`) the Rust code
    performs inside the same region, in order.  A Rust panic (`assert!`, `expect`, index out of
    range) is the `Except` error; it carries the state written and the effects performed *before*
    the panic, so that the wrappers reproduce the Rust code exactly also on those paths
    (ShuttleProofs/C06 proves them unreachable for well-formed clients).
  * `Prog` wrappers `sendInternal`, `recvInternal`, `cloneSender`, `dropSender`, `dropReceiver`
    that only sequence the pure transitions, `runEffs`, the vector-clock requests and
    `K.block` / `K.switch`, with `thread::switch()` exactly where the Rust code calls it.

  The atomic segments of the Rust code are therefore
    send, 1st segment : `sendStart` ; if `.push`: (`incClock`) `sendPush`
    send, 2nd segment : `sendWake`  ; if `.push`: (`incClock`) `sendPush`
    recv, 1st segment : `recvStart` ; if `.pop` : (`incClock`) `recvPop` ; `recvAck`
    recv, 2nd segment : `recvWake`  ; if `.pop` : `recvPop` ; `recvAck`
    clone / drop      : `cloneSenderStep` / `dropSenderStep` / `dropReceiverStep`
-/
namespace ShuttleModel

/-- `ChannelState<T>` + `Channel::bound` (messages carry their `TimestampedValue::clock`). -/
structure ChanState where
  /-- `None` unbounded, `Some 0` rendezvous, `Some k` bounded -/
  bound : Option Nat := none
  messages : List (Nat × Clock) := []
  /-- `receiver_clock` (`Some` for bounded channels: initially `bound` empty clocks) -/
  receiverClock : Option (List Clock) := none
  knownSenders : Nat := 1
  knownReceivers : Nat := 1
  waitingSenders : List Nat := []
  waitingReceivers : List Nat := []
deriving Repr, Inhabited

inductive SendRes where
  | ok
  | full
  | disconnected
deriving Repr, DecidableEq, Inhabited

inductive RecvRes where
  | ok (v : Nat)
  | empty
  | disconnected
deriving Repr, DecidableEq, Inhabited

/-- a Rust panic in the middle of an atomic region: the message, the channel state as it had been
written and the kernel effects already performed when the panic was raised -/
structure ChanPanic where
  msg : String
  state : ChanState
  effs : List Eff := []
deriving Repr, Inhabited

/-- result of one atomic transition: new state, result / next stage, kernel effects in order -/
abbrev ChanStep (ρ : Type) := Except ChanPanic (ChanState × ρ × List Eff)

/-- what a `send` does after its atomic prefix -/
inductive SendStage where
  /-- return this result -/
  | done (r : SendRes)
  /-- `waiting_senders.push(me); current_mut().block(false); thread::switch()` -/
  | blocked
  /-- go on to push the message (same atomic region) -/
  | push
deriving Repr, DecidableEq, Inhabited

/-- what a `recv` does after its atomic prefix -/
inductive RecvStage where
  | done (r : RecvRes)
  /-- `waiting_receivers.push(me); current_mut().block(false); thread::switch()` -/
  | blocked
  /-- go on to take the first message (same atomic region) -/
  | pop
deriving Repr, DecidableEq, Inhabited

/-- clock work a successful push leaves to the caller: `joinRcv = some t` — update my clock with
the clock of receiver `t` (rendezvous); `rc = some c` — update my clock with `c`, the popped front
of `receiver_clock` (bounded, non-rendezvous) -/
structure PushOut where
  joinRcv : Option Nat := none
  rc : Option Clock := none
deriving Repr, Inhabited

namespace ChanState

/-- `Channel::new(bound)` -/
def new (bound : Option Nat) : ChanState :=
  { bound := bound, receiverClock := bound.map (fun b => List.replicate b Clock.new) }

/-- `is_rendezvous` -/
def isRdv (s : ChanState) : Bool := s.bound == some 0

/-- `sender_must_block` -/
def senderMustBlock (s : ChanState) : Bool :=
  let (rdv, full) := match s.bound with
    | some b => (b == 0, decide (s.messages.length ≥ max b 1))
    | none => (false, false)
  full || !s.waitingSenders.isEmpty || (rdv && s.waitingReceivers.isEmpty)

/-- `receiver_must_block` -/
def receiverMustBlock (s : ChanState) : Bool :=
  s.messages.isEmpty || !s.waitingReceivers.isEmpty

/-- the sender that `send_internal` unblocks after pushing its message (`Err` = the `expect`) -/
def nextSenderAfterPush (s : ChanState) : Except String (Option Nat) :=
  match s.waitingSenders.head? with
  | none => .ok none
  | some tid => match s.bound with
    | none => .error "can't have waiting senders on an unbounded channel"
    | some b => .ok (if s.messages.length < b then some tid else none)

/-- `waiting_x.remove(0)` followed by `assert_eq!(head, me)`: the `Except` is the two possible
panics, the list is what remains in the queue in every case -/
def popHead (l : List Nat) (me : Nat) : Except String Unit × List Nat :=
  match l with
  | [] => (.error "assertion failed: index < len", [])
  | h :: t => (if h == me then .ok () else .error "assertion `left == right` failed", t)

/-! #### `send_internal` -/

/-- `send_internal` from the first `thread::switch()` to the decision *return / block / push*. -/
def sendStart (s : ChanState) (me : Nat) (canBlock : Bool) : ChanStep SendStage :=
  let shouldBlock := s.senderMustBlock
  if s.knownReceivers == 0 then .ok (s, .done .disconnected, [])
  else if shouldBlock && !canBlock then .ok (s, .done .full, [])
  else if shouldBlock then .ok ({ s with waitingSenders := s.waitingSenders ++ [me] }, .blocked, [])
  else .ok (s, .push, [])

/-- `send_internal` after the second `thread::switch()` (the blocked sender runs again): re-check
for a receiver, otherwise leave the queue (`remove(0)`, `assert_eq!(head, me)`). -/
def sendWake (s : ChanState) (me : Nat) : ChanStep SendStage :=
  if s.knownReceivers == 0 then
    .ok ({ s with waitingSenders := s.waitingSenders.filter (· != me) }, .done .disconnected, [])
  else
    match popHead s.waitingSenders me with
    | (.ok _, rest) => .ok ({ s with waitingSenders := rest }, .push, [])
    | (.error e, rest) => .error { msg := e, state := { s with waitingSenders := rest } }

/-- the rest of `send_internal`: push the message stamped with `c` (the sender's clock after
`increment_clock`), unblock the first waiting receiver, unblock the next waiting sender if there
is still room, pop the front of `receiver_clock`. -/
def sendPush (s : ChanState) (v : Nat) (c : Clock) : ChanStep PushOut :=
  let s := { s with messages := s.messages ++ [(v, c)] }
  -- unblock the first waiting receiver; on a rendezvous channel the caller joins its clock
  let e1 := match s.waitingReceivers.head? with
    | some tid => [Eff.unblock tid]
    | none => []
  let joinRcv := if s.isRdv then s.waitingReceivers.head? else none
  -- unblock the next waiting sender, if eligible
  match s.nextSenderAfterPush with
  | .error e => .error { msg := e, state := s, effs := e1 }
  | .ok next =>
    let e2 := match next with
      | some tid => [Eff.unblock tid]
      | none => []
    -- bounded, non-rendezvous: pop the front of `receiver_clock` (the caller joins it)
    if !s.isRdv then
      match s.receiverClock with
      | none => .ok (s, { joinRcv := joinRcv }, e1 ++ e2)
      | some [] => .error { msg := "assertion failed: index < len", state := s, effs := e1 ++ e2 }
      | some (rc :: rest) =>
        .ok ({ s with receiverClock := some rest }, { joinRcv := joinRcv, rc := some rc }, e1 ++ e2)
    else .ok (s, { joinRcv := joinRcv }, e1 ++ e2)

/-! #### `recv_internal` -/

/-- `recv_internal` from the first `thread::switch()` to the decision *return / block / pop*
(the pre-increment of the receiver's clock follows in the two latter cases). -/
def recvStart (s : ChanState) (me : Nat) (canBlock : Bool) : ChanStep RecvStage :=
  let shouldBlock := s.receiverMustBlock
  if s.messages.isEmpty && s.knownSenders == 0 then .ok (s, .done .disconnected, [])
  else
    -- rendezvous and empty: notify the first waiting sender (or fail a `try_recv`)
    let (nobody, e1) :=
      if s.isRdv && s.messages.isEmpty then
        match s.waitingSenders.head? with
        | some tid => (false, [Eff.unblock tid])
        | none => (!canBlock, [])
      else (false, [])
    if nobody then .ok (s, .done .empty, e1)
    else if !s.isRdv && !canBlock && s.waitingReceivers.length ≥ s.messages.length then
      .ok (s, .done .empty, e1)
    else if shouldBlock then
      .ok ({ s with waitingReceivers := s.waitingReceivers ++ [me] }, .blocked, e1)
    else .ok (s, .pop, e1)

/-- `recv_internal` after the second `thread::switch()` (the blocked receiver runs again). -/
def recvWake (s : ChanState) (me : Nat) : ChanStep RecvStage :=
  if s.messages.isEmpty && s.knownSenders == 0 then
    .ok ({ s with waitingReceivers := s.waitingReceivers.filter (· != me) }, .done .disconnected, [])
  else
    match popHead s.waitingReceivers me with
    | (.ok _, rest) => .ok ({ s with waitingReceivers := rest }, .pop, [])
    | (.error e, rest) => .error { msg := e, state := { s with waitingReceivers := rest } }

/-- the part of `recv_internal` from `messages.remove(0)` to the two `unblock`s: new state, the
message, the tasks to unblock in order -/
def recvPop (s : ChanState) : ChanStep (Nat × Clock) :=
  match s.messages with
  | [] => .error { msg := "assertion failed: index < len", state := s }
  | item :: rest =>
    let s := { s with messages := rest }
    match (match s.waitingSenders.head? with
           | none => Except.ok []
           | some tid => match s.bound with
             | none => Except.error "can't have waiting senders on an unbounded channel"
             | some b => Except.ok (if b > 0 || !s.waitingReceivers.isEmpty then [Eff.unblock tid] else [])) with
    | .error e => .error { msg := e, state := s }
    | .ok e1 =>
      let e2 := match s.waitingReceivers.head? with
        | some tid => if !s.messages.isEmpty then [Eff.unblock tid] else []
        | none => []
      .ok (s, item, e1 ++ e2)

/-- the end of `recv_internal`: on a bounded non-rendezvous channel push `mine` (the receiver's
clock after it has been updated with the message's) onto `receiver_clock`. -/
def recvAck (s : ChanState) (mine : Clock) : ChanStep Unit :=
  match s.receiverClock, s.bound with
  | some rcs, some b =>
    if b > 0 then
      if !(rcs.length < b) then
        .error { msg := "assertion failed: receiver_clock.len() < bound", state := s }
      else .ok ({ s with receiverClock := some (rcs ++ [mine]) }, (), [])
    else .ok (s, (), [])
  | some _, none => .error { msg := "unexpected internal error", state := s }
  | none, _ => .ok (s, (), [])

/-! #### endpoints -/

/-- `Sender::clone` / `SyncSender::clone` -/
def cloneSenderStep (s : ChanState) : ChanStep Unit :=
  .ok ({ s with knownSenders := s.knownSenders + 1 }, (), [])

/-- `Drop for Sender` / `SyncSender`; `stop` = `ExecutionState::should_stop()` (some task is
panicking): then nothing at all happens -/
def dropSenderStep (s : ChanState) (stop : Bool) : ChanStep Unit :=
  if stop then .ok (s, (), [])
  else if s.knownSenders == 0 then
    .error { msg := "assertion failed: state.known_senders > 0", state := s }
  else
    let s := { s with knownSenders := s.knownSenders - 1 }
    .ok (s, (), if s.knownSenders == 0 then s.waitingReceivers.map Eff.unblock else [])

/-- `Drop for Receiver` -/
def dropReceiverStep (s : ChanState) (stop : Bool) : ChanStep Unit :=
  if stop then .ok (s, (), [])
  else if s.knownReceivers == 0 then
    .error { msg := "assertion failed: state.known_receivers > 0", state := s }
  else
    let s := { s with knownReceivers := s.knownReceivers - 1 }
    .ok (s, (), if s.knownReceivers == 0 then s.waitingSenders.map Eff.unblock else [])

end ChanState

namespace Chan
variable {U : Type}

/-- perform one atomic transition: write the state, run the effects, hand the result on — or, for
a panic, write the state and run the effects that preceded it, then panic -/
def step {ρ : Type} (L : Lens U ChanState) (f : ChanState → ChanStep ρ) : Prog U ρ := do
  let s ← K.getL L
  match f s with
  | .ok (s', r, effs) => do
    K.setL L s'
    runEffs effs
    pure r
  | .error p => do
    K.setL L p.state
    runEffs p.effs
    K.panic p.msg

/-- the tail of `send_internal`: `increment_clock`, push, unblocks, clock updates -/
def pushTail (L : Lens U ChanState) (v : Nat) : Prog U SendRes := do
  let c ← K.incClock
  let out ← step L (·.sendPush v c)
  -- rendezvous: `s.update_clock(&s.get_clock(tid).clone())`
  match out.joinRcv with
  | some tid => do
    let rcv ← K.clockOf tid
    K.updateClock rcv
  | none => pure ()
  -- bounded: `s.update_clock(&recv_clock)`
  match out.rc with
  | some rc => K.updateClock rc
  | none => pure ()
  pure .ok

/-- `Channel::send_internal(message, can_block)` -/
def sendInternal (L : Lens U ChanState) (v : Nat) (canBlock : Bool) : Prog U SendRes := do
  K.switch
  let me ← K.me
  let st ← step L (·.sendStart me canBlock)
  match st with
  | .done r => pure r
  | .push => pushTail L v
  | .blocked => do
    K.block false
    K.switch
    let st ← step L (·.sendWake me)
    match st with
    | .done r => pure r
    | _ => pushTail L v

/-- the tail of `recv_internal`: take the message, unblocks, clock updates -/
def popTail (L : Lens U ChanState) (me : Nat) : Prog U RecvRes := do
  let (v, mc) ← step L (·.recvPop)
  -- `get_clock_mut(me).update(&clock)` (no increment)
  K.joinClockOf me mc
  let mine ← K.clock
  step L (·.recvAck mine)
  pure (.ok v)

/-- `Channel::recv_internal(can_block)` -/
def recvInternal (L : Lens U ChanState) (canBlock : Bool) : Prog U RecvRes := do
  K.switch
  let me ← K.me
  let st ← step L (·.recvStart me canBlock)
  match st with
  | .done r => pure r
  | .pop => do
    -- pre-increment of the receiver's clock
    let _ ← K.incClock
    popTail L me
  | .blocked => do
    let _ ← K.incClock
    K.block false
    K.switch
    let st ← step L (·.recvWake me)
    match st with
    | .done r => pure r
    | _ => popTail L me

/-- `Sender::clone` / `SyncSender::clone` — no scheduling point -/
def cloneSender (L : Lens U ChanState) : Prog U Unit :=
  step L (·.cloneSenderStep)

/-- `Drop for Sender` / `SyncSender`: nothing at all when `should_stop()` (some task is
panicking); no scheduling point -/
def dropSender (L : Lens U ChanState) : Prog U Unit := do
  let stop ← K.isPanicking
  step L (·.dropSenderStep stop)

/-- `Drop for Receiver` -/
def dropReceiver (L : Lens U ChanState) : Prog U Unit := do
  let stop ← K.isPanicking
  step L (·.dropReceiverStep stop)

end Chan
end ShuttleModel
