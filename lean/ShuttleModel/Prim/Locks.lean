import ShuttleModel.Prim.Sem
import ShuttleModel.Generated
/-
  Mutex, RwLock (shuttle-std/src/sync/mutex.rs, rwlock.rs) and atomics
  (shuttle-std/src/sync/atomic/mod.rs) over the BatchSemaphore / the kernel.
-/
namespace ShuttleModel

/-! ### Mutex -/

structure MutexState where
  sem : SemState := SemState.constNew 1 false
  holder : Option Nat := none
  value : Nat := 0
  /-- poison flag of the inner `std::sync::Mutex` -/
  poisoned : Bool := false
  /-- `poison::Guard.panicking`: was the thread already panicking when the guard was created -/
  guardPanicking : Bool := false
deriving Repr, Inhabited

inductive LockRes where
  | ok (v : Nat)
  | poisoned (v : Nat)
  | wouldBlock
deriving Repr, DecidableEq, Inhabited

namespace MutexState

def result (m : MutexState) : LockRes := if m.poisoned then .poisoned m.value else .ok m.value

/-- creating the `MutexGuard` once the permit is held (`p` = `std::thread::panicking()`) -/
def takeGuard (m : MutexState) (me : Nat) (p : Bool) : MutexState :=
  { m with holder := some me, guardPanicking := p }

/-- the part of `Drop for MutexGuard` after `semaphore.release(1)` -/
def dropGuard (m : MutexState) (p : Bool) : MutexState :=
  { m with holder := none, poisoned := m.poisoned || (p && !m.guardPanicking) }

end MutexState

namespace Mutex
variable {U : Type}

def semL (L : Lens U MutexState) : Lens U SemState :=
  L.comp { get := (·.sem), set := fun s m => { m with sem := s } }

/-- `Mutex::lock` -/
def lock (L : Lens U MutexState) : Prog U LockRes := do
  let me ← K.me
  let m ← K.getL L
  if !m.sem.closed then
    if m.holder == some me then
      K.panic s!"deadlock! task TaskId({me}) tried to acquire a Mutex it already holds"
    else do
      let ok ← Sem.acquireBlocking (semL L) 1
      if !ok then K.panic "called `Result::unwrap()` on an `Err` value: AcquireError(())" else pure ()
  else K.switch
  let m ← K.getL L
  if m.holder.isSome then K.panic "assertion failed: state.holder.is_none()" else do
  let p ← K.isPanicking
  K.setL L (m.takeGuard me p)
  pure m.result

/-- `Mutex::try_lock` -/
def tryLock (L : Lens U MutexState) : Prog U LockRes := do
  let me ← K.me
  let r ← Sem.tryAcquire (semL L) 1
  match r with
  | .error _ => pure .wouldBlock
  | .ok () =>
    let m ← K.getL L
    let p ← K.isPanicking
    K.setL L (m.takeGuard me p)
    pure m.result

/-- `Drop for MutexGuard`: release (a scheduling point), drop the inner std guard (which poisons
the std mutex when the thread started panicking while the guard was alive), clear the holder -/
def unlock (L : Lens U MutexState) : Prog U Unit := do
  Sem.release (semL L) 1
  let m ← K.getL L
  let p ← K.isPanicking
  K.setL L (m.dropGuard p)

end Mutex

/-! ### RwLock -/

inductive RwHolder where
  | none
  | read (readers : List Nat)
  | write (w : Nat)
deriving Repr, DecidableEq, Inhabited

structure RwLockState where
  sem : SemState := SemState.constNew Generated.MAX_READS false
  holder : RwHolder := .none
  value : Nat := 0
  /-- poison flag of the inner `std::sync::RwLock` (only write guards poison) -/
  poisoned : Bool := false
  /-- `poison::Guard.panicking` of the live write guard -/
  wGuardPanicking : Bool := false
deriving Repr, Inhabited

namespace RwLockState

def result (m : RwLockState) : LockRes := if m.poisoned then .poisoned m.value else .ok m.value

/-- is task `me` already a holder (the re-entrancy check of `RwLock::lock`) -/
def holds (m : RwLockState) (me : Nat) : Bool :=
  match m.holder with
  | .write w => w == me
  | .read rs => rs.contains me
  | .none => false

inductive Take where
  | ok (m : RwLockState)
  /-- `readers.insert(me)` returned false -/
  | already
  /-- the holder is incompatible with the request although the permits were obtained -/
  | incompatible

/-- the holder update of `lock` / `try_lock` once the permits are held -/
def takeGuard (m : RwLockState) (me : Nat) (write : Bool) (p : Bool) : Take :=
  match write, m.holder with
  | true, .none => .ok { m with holder := .write me, wGuardPanicking := p }
  | false, .none => .ok { m with holder := .read [me] }
  | false, .read rs =>
    if rs.contains me then .already else .ok { m with holder := .read (rs ++ [me]) }
  | _, _ => .incompatible

/-- the part of `Drop for RwLock{Read,Write}Guard` after `semaphore.release`: new state and the
assertion that fails, if any -/
def dropGuard (m : RwLockState) (me : Nat) (write : Bool) (p : Bool) : RwLockState × Option String :=
  match write, m.holder with
  | false, .read rs =>
    if !rs.contains me then (m, some "assertion failed: readers.remove(self.me)")
    else
      let rs' := rs.filter (· != me)
      ({ m with holder := if rs'.isEmpty then .none else .read rs' }, none)
  | false, _ => (m, some "exiting a reader but rwlock is in the wrong state")
  | true, .write w =>
    -- `self.inner = None`: the std write guard poisons the lock when the thread started to panic
    -- while it was alive (the flag is per OS thread: any task's panic counts)
    let m := { m with poisoned := m.poisoned || (p && !m.wGuardPanicking) }
    if w != me then (m, some "assertion `left == right` failed")
    else ({ m with holder := .none }, none)
  | true, _ =>
    ({ m with poisoned := m.poisoned || (p && !m.wGuardPanicking) }, some "assertion `left == right` failed")

end RwLockState

namespace RwLock
variable {U : Type}

def semL (L : Lens U RwLockState) : Lens U SemState :=
  L.comp { get := (·.sem), set := fun s m => { m with sem := s } }

def permits (write : Bool) : Nat := if write then Generated.MAX_READS else 1

/-- `RwLock::lock(typ)` -/
def lock (L : Lens U RwLockState) (write : Bool) : Prog U LockRes := do
  let me ← K.me
  let m ← K.getL L
  if !m.sem.closed then
    if m.holds me then
      K.panic s!"deadlock! task TaskId({me}) tried to acquire a RwLock it already holds"
    else do
      let ok ← Sem.acquireBlocking (semL L) (permits write)
      if !ok then K.panic "called `Result::unwrap()` on an `Err` value: AcquireError(())" else pure ()
  else K.switch
  let m ← K.getL L
  -- `read()` / `write()` then take the inner std guard (`Poisoned` is passed on with the guard)
  let p ← K.isPanicking
  match m.takeGuard me write p with
  | .ok m' => do K.setL L m'; pure m.result
  | .already => K.panic "assertion failed: readers.insert(me)"
  | .incompatible => K.panic "resumed a waiting thread while the lock was in an incompatible state"

/-- `RwLock::try_lock(typ)`; `fixedF3` selects the repaired behaviour (give the permit back when the
caller already holds the read lock) -/
def tryLock (L : Lens U RwLockState) (write : Bool) (fixedF3 : Bool := true) : Prog U LockRes := do
  let me ← K.me
  let r ← Sem.tryAcquire (semL L) (permits write)
  match r with
  | .error _ => pure .wouldBlock
  | .ok () =>
    let m ← K.getL L
    let p ← K.isPanicking
    match m.takeGuard me write p with
    | .ok m' => do K.setL L m'; pure m.result
    | .already => do
      -- already a reader: `insert` returns false ⇒ `WouldBlock`
      if fixedF3 then
        -- repaired code gives the permit back (`semaphore.release(1)`, a scheduling point)
        Sem.release (semL L) 1
      else pure ()
      pure .wouldBlock
    | .incompatible => pure m.result

/-- `Drop for RwLockReadGuard` / `RwLockWriteGuard` -/
def unlock (L : Lens U RwLockState) (write : Bool) : Prog U Unit := do
  let me ← K.me
  Sem.release (semL L) (permits write)
  let m ← K.getL L
  let p ← K.isPanicking
  match m.dropGuard me write p with
  | (m', none) => K.setL L m'
  | (m', some msg) => do
    -- only the write guard touches the state (poison flag) before its assertion fails
    if write then K.setL L m' else pure ()
    K.panic msg

end RwLock

/-! ### Atomics -/

structure AtomicState where
  value : Nat := 0
  clock : Option Clock := none
  /-- bit width of the integer type (values are kept reduced mod 2^bits) -/
  bits : Nat := 64
  /-- two's complement type (`i8 … isize`): affects `fetch_max/min` and how values print -/
  signed : Bool := false
  /-- `AtomicBool` (bits = 1; prints `true`/`false`) -/
  isBool : Bool := false
deriving Repr, Inhabited

namespace AtomicState
/-- `v as $int_type` of a `u64` operand -/
def norm (a : AtomicState) (v : Nat) : Nat := v % 2 ^ a.bits
/-- the value as the type's `Display` prints it -/
def render (a : AtomicState) (v : Nat) : String :=
  if a.isBool then (if v % 2 == 1 then "true" else "false")
  else if a.signed && v ≥ 2 ^ (a.bits - 1) then "-" ++ toString (2 ^ a.bits - v)
  else toString v
/-- `x ≤ y` in the order of the integer type -/
def le (a : AtomicState) (x y : Nat) : Bool :=
  if a.signed then
    let sx := x ≥ 2 ^ (a.bits - 1)
    let sy := y ≥ 2 ^ (a.bits - 1)
    if sx == sy then x ≤ y else sx
  else x ≤ y
end AtomicState

namespace Atomic
variable {U : Type}

/-- `exhale_clock` -/
def exhale (L : Lens U AtomicState) : Prog U Unit := do
  let a ← K.getL L
  let c := a.clock.getD Clock.new
  K.setL L { a with clock := some c }
  K.updateClock c

/-- `inhale_clock` -/
def inhale (L : Lens U AtomicState) : Prog U Unit := do
  let a ← K.getL L
  let c := a.clock.getD Clock.new
  let mine ← K.incClock
  K.setL L { a with clock := some (c.update mine) }

def load (L : Lens U AtomicState) : Prog U Nat := do
  K.switch
  exhale L
  let a ← K.getL L
  pure a.value

def store (L : Lens U AtomicState) (v : Nat) : Prog U Unit := do
  K.switch
  inhale L
  let a ← K.getL L
  K.setL L { a with value := v % 2 ^ a.bits }

def swap (L : Lens U AtomicState) (v : Nat) : Prog U Nat := do
  K.switch
  exhale L
  inhale L
  let a ← K.getL L
  K.setL L { a with value := v % 2 ^ a.bits }
  pure a.value

/-- `fetch_update(f)`: `Ok(old)` / `Err(old)` -/
def fetchUpdate (L : Lens U AtomicState) (f : Nat → Option Nat) : Prog U (Bool × Nat) := do
  K.switch
  exhale L
  let a ← K.getL L
  match f a.value with
  | some v =>
    K.setL L { a with value := v % 2 ^ a.bits }
    inhale L
    pure (true, a.value)
  | none => pure (false, a.value)

end Atomic
end ShuttleModel
