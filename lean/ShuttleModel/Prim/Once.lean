import ShuttleModel.Prim.Locks
/-
  Once (shuttle-std/src/sync/once.rs) and `lazy_static::Lazy` (shuttle/src/lazy_static.rs).
  The state of a `Once` lives in the per-execution storage map: absent until the first
  `call_once`, then `Running(Rc<Mutex<bool>>)`, finally `Complete(clock)`.  Racers that cloned the
  `Rc` before completion keep using the mutex afterwards, so the model keeps it next to the
  completion clock.
-/
namespace ShuttleModel

structure OnceState where
  /-- the mutex of `Running` (`none` = no storage slot yet); its `value` is the `bool` flag -/
  mutex : Option MutexState := none
  /-- `Complete(clock)` -/
  complete : Option Clock := none
deriving Repr, Inhabited

namespace OnceState

/-- first segment of `call_once_inner` (one `ExecutionState::with`): create the `Running` slot if
there is none; `some c` = already `Complete(c)` (the caller joins `c` and returns) -/
def enter (s : OnceState) : OnceState × Option Clock :=
  -- `if self.get_state(state).is_none() { init_state(Running(Mutex::new_internal(false))) }`
  let s := if s.mutex.isNone then { s with mutex := some {} } else s
  (s, s.complete)

/-- the `bool` behind the internal mutex -/
def flag (s : OnceState) : Nat := (s.mutex.getD {}).value

/-- the winner's last segment: `*flag = true`, then `Complete(clock)` with `c` = the caller's
clock after `increment_clock()` -/
def finish (s : OnceState) (c : Clock) : OnceState :=
  { mutex := some { (s.mutex.getD {}) with value := 1 }, complete := some c }

/-- `Once::is_completed`: `some c` = `Complete(c)` (the caller joins `c`) -/
def isCompleted (s : OnceState) : Option Clock := s.complete

end OnceState

namespace Once
variable {U : Type}

def mutexL (L : Lens U OnceState) : Lens U MutexState :=
  L.comp { get := fun o => o.mutex.getD {}, set := fun m o => { o with mutex := some m } }

/-- `Once::call_once(f)` → did `f` run.  `pushG` / `popG` tell the caller's unwinding model that
the guard `flag` is alive between them. -/
def callOnce (L : Lens U OnceState) (init : Prog U Unit) (pushG popG : Prog U Unit) : Prog U Bool := do
  let s ← K.getL L
  let (s, done) := s.enter
  K.setL L s
  match done with
  | some c => do
    K.updateClock c
    pure false
  | none => do
    let r ← Mutex.lock (mutexL L)
    pushG
    match r with
    | .poisoned _ => K.panic "Once instance has previously been poisoned"
    | .wouldBlock => K.panic "internal error: entered unreachable code"
    | .ok flag =>
      if flag != 0 then do
        popG
        Mutex.unlock (mutexL L)
        pure false
      else do
        init
        let c ← K.incClock
        let s ← K.getL L
        K.setL L (s.finish c)
        popG
        Mutex.unlock (mutexL L)
        pure true

/-- `Once::is_completed` — no scheduling point -/
def isCompleted (L : Lens U OnceState) : Prog U Bool := do
  let s ← K.getL L
  match s.isCompleted with
  | some c => do K.updateClock c; pure true
  | none => pure false

end Once

/-- `Lazy<T>`: its `Once` cell and whether the storage slot of the value exists -/
structure LazyState where
  cell : OnceState := {}
  initialized : Bool := false
deriving Repr, Inhabited

namespace Lazy
variable {U : Type}

def cellL (L : Lens U LazyState) : Lens U OnceState :=
  L.comp { get := (·.cell), set := fun c z => { z with cell := c } }

/-- `Lazy::get` → did this call run the initializer -/
def get (L : Lens U LazyState) (init : Prog U Unit) (pushG popG : Prog U Unit) : Prog U Bool := do
  let z ← K.getL L
  let ran ← (if !z.initialized then
      Once.callOnce (cellL L) (do
        init
        let z ← K.getL L
        if z.initialized then K.panic "cannot reinitialize a storage slot"
        else K.setL L { z with initialized := true }) pushG popG
    else pure false : Prog U Bool)
  let z ← K.getL L
  if !z.initialized then K.panic "should be initialized" else pure ran

end Lazy
end ShuttleModel
