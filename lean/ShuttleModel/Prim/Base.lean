import ShuttleModel.Kernel
/-
  Helpers for writing primitives as programs over the kernel API: lenses into the shared state
  and one-word names for the kernel requests.
-/
namespace ShuttleModel

structure Lens (U S : Type) where
  get : U → S
  set : S → U → U

namespace Lens
def comp {U S T : Type} (a : Lens U S) (b : Lens S T) : Lens U T :=
  { get := fun u => b.get (a.get u), set := fun t u => a.set (b.set t (a.get u)) u }
end Lens

namespace K
variable {U : Type}

def switch : Prog U Unit := .lift .switch
def me : Prog U Nat := .lift .me
def getU : Prog U U := .lift .getU
def setU (u : U) : Prog U Unit := .lift (.setU u)
def emit (s : String) : Prog U Unit := .lift (.emit s)
def block (sp : Bool) : Prog U Unit := .lift (.block sp)
def blockTask (t : Nat) : Prog U Unit := .lift (.blockTask t)
def sleepUnlessWoken : Prog U Unit := .lift .sleepUnlessWoken
def unblock (t : Nat) : Prog U Unit := .lift (.unblock t)
def wake (t : Nat) : Prog U Unit := .lift (.wake t)
def isFinished (t : Nat) : Prog U Bool := .lift (.isFinished t)
def requestYield : Prog U Unit := .lift .requestYield
def rand : Prog U Nat := .lift .rand
def spawn (future : Bool) (body : Nat) : Prog U Nat := .lift (.spawn future body)
def park : Prog U Bool := .lift .park
def unpark (t : Nat) : Prog U Unit := .lift (.unpark t)
def setWaiter (t : Nat) : Prog U Bool := .lift (.setWaiter t)
def takeWaiter : Prog U (Option Nat) := .lift .takeWaiter
def detach (t : Nat) : Prog U Unit := .lift (.detach t)
def clock : Prog U Clock := .lift .clock
def clockOf (t : Nat) : Prog U Clock := .lift (.clockOf t)
def updateClock (c : Clock) : Prog U Unit := .lift (.updateClock c)
def incClock : Prog U Clock := .lift .incClock
def joinClockOf (t : Nat) (c : Clock) : Prog U Unit := .lift (.joinClockOf t c)
def exitTruncates : Prog U Bool := .lift .exitTruncates
def resetSteps : Prog U Unit := .lift .resetSteps
def ctxSwitches : Prog U Nat := .lift .ctxSwitches
def isPanicking : Prog U Bool := .lift .isPanicking
def panic {α : Type} (msg : String) : Prog U α := .panic msg

def getL {S : Type} (L : Lens U S) : Prog U S := do let u ← getU; pure (L.get u)
def setL {S : Type} (L : Lens U S) (s : S) : Prog U Unit := do let u ← getU; setU (L.set s u)

/-- for each element, in order -/
def forM_ {α : Type} : List α → (α → Prog U Unit) → Prog U Unit
  | [], _ => pure ()
  | a :: as, f => do f a; forM_ as f

end K

/-- Side effects a primitive's atomic transition asks the kernel to perform, in order. -/
inductive Eff where
  | unblock (t : Nat)            -- `get_mut(t).unblock()`
  | wake (t : Nat)               -- `waker(t).wake()`
  | block (t : Nat)              -- `get_mut(t).block(false)`
  | joinClock (t : Nat) (c : Clock)   -- `get_mut(t).clock.update(c)`
deriving Repr, Inhabited, DecidableEq

def Eff.run {U : Type} : Eff → Prog U Unit
  | .unblock t => K.unblock t
  | .wake t => K.wake t
  | .block t => K.blockTask t
  | .joinClock t c => K.joinClockOf t c

def runEffs {U : Type} (es : List Eff) : Prog U Unit := K.forM_ es Eff.run

end ShuttleModel
