import ShuttleModel.Prim.Sem
/-
  The async layer — transcription of
    shuttle-std/src/future.rs                    (spawn, JoinHandle, AbortHandle, Wrapper, block_on, yield_now)
    shuttle-engine/src/future/mod.rs             (block_on, yield_now: same code)
    shuttle-engine/src/runtime/task/mod.rs       (`Task::from_future`: the poll loop; `abort`, `detach`)
    shuttle-engine/src/runtime/execution.rs      (`spawn_future` = `KOp.spawn true`, same clock handling as `spawn_thread`)

  Style as for the other primitives: state structures + PURE atomic transitions that return the new
  state and the kernel effects, + thin `Prog` wrappers that put `K.switch` where the Rust code calls
  `thread::switch()`.

  A future is modelled as an explicit resumable state machine: `poll : σ → Prog U (Option σ)`
  (`none` = `Poll::Ready`, `some s'` = `Poll::Pending` with the state to resume from).  The poll
  loop of a future task (`taskLoop`) and of `block_on` (`blockOnLoop`) re-invoke `poll` after
  `sleep_unless_woken(); switch()`, exactly like the Rust loops re-poll the pinned future, which
  resumes at its pending await point.
-/
namespace ShuttleModel

/-- `JoinHandleInner` (`result`, `waker`) + the `aborted` flag shared by `JoinHandle`,
`AbortHandle` and `Wrapper` + the task id + whether the harness still owns the `JoinHandle`. -/
structure JoinState where
  tid : Option Nat := none
  /-- `Some(Ok(()))` = `some true`, `Some(Err(Cancelled))` = `some false` -/
  result : Option Bool := none
  waker : Option Nat := none
  aborted : Bool := false
  handle : Bool := false
  /-- the task's continuation has started to run (it is no longer `Initialized`) -/
  started : Bool := false
deriving Repr, Inhabited

/-- a hand-written one-shot event: the flag and the stored `Waker` (a task id) -/
structure WSlot where
  flag : Bool := false
  waker : Option Nat := none
deriving Repr, Inhabited

/-- an entry of the table of `Acquire` futures (`busy`: some task is inside `poll` of it) -/
inductive AcqSlot where
  | empty
  | busy
  | full (sem wid : Nat)
deriving Repr, Inhabited, DecidableEq

structure FutHeap where
  /-- per body index -/
  joins : List JoinState := []
  /-- per object index (only `wslot` objects are used) -/
  wslots : List WSlot := []
  /-- per handle number -/
  acqs : List AcqSlot := []
deriving Repr, Inhabited

def FutHeap.init (nTasks nObjs nAcq : Nat) : FutHeap :=
  { joins := List.replicate nTasks {}, wslots := List.replicate nObjs {}, acqs := List.replicate nAcq .empty }

namespace JoinState

/-- `JoinHandle::poll` with `cx.waker()` belonging to task `cx` -/
def pollJoin (j : JoinState) (cx : Nat) : Option Bool × JoinState :=
  match j.result with
  | some r => (some r, { j with result := none })
  | none => (none, { j with waker := some cx })

/-- the tail of `Wrapper::finish`: publish the result, wake the joiner -/
def publish (j : JoinState) (r : Bool) : JoinState × List Eff :=
  ({ j with result := some r, waker := none },
   match j.waker with | some t => [Eff.wake t] | none => [])

/-- `JoinHandle::abort` / `AbortHandle::abort` after the scheduling point:
`if aborted.swap(true) { return }; get_mut(task_id).abort()` — `Task::abort` is `wake` unless
finished, which is what `raw_waker_wake` (`Eff.wake`) does too -/
def setAborted (j : JoinState) (tid : Nat) : JoinState × List Eff :=
  if j.aborted then (j, []) else ({ j with aborted := true }, [Eff.wake tid])

end JoinState

namespace WSlot

/-- poll of the hand-written future: `if flag.take() { Ready } else { slot.waker = cx.waker().clone(); Pending }` -/
def pollPend (s : WSlot) (cx : Nat) : Bool × WSlot :=
  if s.flag then (true, { s with flag := false }) else (false, { s with waker := some cx })

/-- `flag = true; if let Some(w) = waker.take() { w.wake() }` -/
def signal (s : WSlot) : WSlot × List Eff :=
  ({ flag := true, waker := none }, match s.waker with | some t => [Eff.wake t] | none => [])

/-- `if let Some(w) = &waker { w.wake_by_ref() }` — the flag stays as it is -/
def wakeOnly (s : WSlot) : List Eff :=
  match s.waker with | some t => [Eff.wake t] | none => []

end WSlot

/-- the async operations of the IR (the leaf futures a body can await / block on) -/
inductive AOp where
  | join (b : Nat)
  | yieldNow
  | pend (w : Nat)
  | acqAwait (h : Nat)
  | blockOn (a : AOp)
  | bad (name : String)
deriving Repr, Inhabited

/-- resumable state of a leaf future -/
inductive Stage where
  | init
  | joining
  | yielded
  | acquiring (sem wid : Nat)
deriving Repr, Inhabited, DecidableEq

inductive LeafRes where
  | ready (r : String)
  | pending (st : Stage)
deriving Repr, Inhabited

namespace Fut
variable {U : Type}

def setAt {α : Type} (l : List α) (i : Nat) (a d : α) : List α :=
  (l ++ List.replicate (i + 1 - l.length) d).set i a

def joinL (F : Lens U FutHeap) (b : Nat) : Lens U JoinState :=
  F.comp { get := fun f => (f.joins[b]?).getD {}, set := fun j f => { f with joins := setAt f.joins b j {} } }
def wslotL (F : Lens U FutHeap) (w : Nat) : Lens U WSlot :=
  F.comp { get := fun f => (f.wslots[w]?).getD {}, set := fun s f => { f with wslots := setAt f.wslots w s {} } }
def acqL (F : Lens U FutHeap) (h : Nat) : Lens U AcqSlot :=
  F.comp { get := fun f => (f.acqs[h]?).getD .empty, set := fun s f => { f with acqs := setAt f.acqs h s .empty } }

/-- the harness stores the `JoinHandle` (and an `AbortHandle`) of the task it just spawned -/
def register (F : Lens U FutHeap) (b tid : Nat) : Prog U Unit :=
  K.setL (joinL F b) { tid := some tid, handle := true }

/-- `JoinHandle::abort` / `AbortHandle::abort` -/
def abort (F : Lens U FutHeap) (b : Nat) : Prog U String := do
  let j ← K.getL (joinL F b)
  match j.tid with
  | none => pure "nohandle"
  | some tid => do
    K.switch
    let j ← K.getL (joinL F b)
    let (j', effs) := j.setAborted tid
    K.setL (joinL F b) j'
    runEffs effs
    pure "ok"

/-- `drop(JoinHandle)`: `if !state.is_finished() { get_mut(task_id).detach() }` -/
def detach (F : Lens U FutHeap) (b : Nat) : Prog U String := do
  let j ← K.getL (joinL F b)
  match j.handle, j.tid with
  | true, some tid => do
    K.setL (joinL F b) { j with handle := false }
    K.detach tid
    pure "ok"
  | _, _ => pure "nohandle"

/-- `AbortHandle::is_finished` -/
def isFinished (F : Lens U FutHeap) (b : Nat) : Prog U String := do
  let j ← K.getL (joinL F b)
  match j.tid with
  | none => pure "nohandle"
  | some tid => do
    let f ← K.isFinished tid
    pure (if f then "true" else "false")

def signal (F : Lens U FutHeap) (w : Nat) : Prog U Unit := do
  let s ← K.getL (wslotL F w)
  let (s', effs) := s.signal
  K.setL (wslotL F w) s'
  runEffs effs

def wakeOnly (F : Lens U FutHeap) (w : Nat) : Prog U Unit := do
  let s ← K.getL (wslotL F w)
  runEffs s.wakeOnly

/-- `sem.acquire(n)` stored in the table (no scheduling point) -/
def acqNew (F : Lens U FutHeap) (semL : Nat → Lens U SemState) (h s n : Nat) : Prog U String := do
  let a ← K.getL (acqL F h)
  match a with
  | .empty => do
    let wid ← Sem.newAcquire (semL s) n
    K.setL (acqL F h) (.full s wid)
    pure "ok"
  | _ => pure "busy"

/-- one `Acquire::poll` with the current task's waker; a completed `Acquire` is dropped -/
def acqPoll (F : Lens U FutHeap) (semL : Nat → Lens U SemState) (h : Nat) : Prog U String := do
  let a ← K.getL (acqL F h)
  match a with
  | .full s wid => do
    K.setL (acqL F h) .busy
    let me ← K.me
    let r ← Sem.poll (semL s) wid me
    match r with
    | .ready ok => do
      Sem.dropAcquire (semL s) wid
      K.setL (acqL F h) .empty
      pure (if ok then "ready:ok" else "ready:closed")
    | .pending => do
      K.setL (acqL F h) (.full s wid)
      pure "pending"
  | _ => pure "nohandle"

/-- `drop(Acquire)` -/
def acqDrop (F : Lens U FutHeap) (semL : Nat → Lens U SemState) (h : Nat) : Prog U String := do
  let a ← K.getL (acqL F h)
  match a with
  | .full s wid => do
    K.setL (acqL F h) .empty
    Sem.dropAcquire (semL s) wid
    pure "ok"
  | _ => pure "nohandle"

/-- the loop of `future::block_on` around a pollable: `Pending → sleep_unless_woken(); switch()` -/
def blockOnLoop (poll : Stage → Prog U LeafRes) : Nat → Stage → Prog U String
  | 0, _ => K.panic "model: block_on fuel exhausted"
  | fuel + 1, st => do
    let r ← poll st
    match r with
    | .ready s => pure s
    | .pending st' => do
      K.sleepUnlessWoken
      K.switch
      blockOnLoop poll fuel st'

def loopFuel : Nat := 100000

/-- `JoinHandle::poll`; a `Ready` handle is dropped by the `.await` (→ `detach`) -/
def pollJoinHandle (F : Lens U FutHeap) (b : Nat) : Prog U LeafRes := do
  let me ← K.me
  let j ← K.getL (joinL F b)
  let (r, j') := j.pollJoin me
  K.setL (joinL F b) j'
  match r with
  | some ok => do
    -- the waiting task inherits the clock of the finished task (F13 repaired: as thread join does)
    match j.tid with
    | some t => do
      let c ← K.clockOf t
      K.updateClock c
    | none => pure ()
    match j.tid with
    | some t => K.detach t
    | none => pure ()
    pure (.ready (if ok then "ok" else "cancelled"))
  | none => pure (.pending .joining)

/-- `fpoll b`: one `JoinHandle::poll` with the current task's waker, outside any await: the handle is taken out of the
table, polled once, dropped when `Ready` (→ `detach`) and put back when `Pending`.  The waker stored by a `Pending` poll is
the *latest* poller's, so a handle polled by one task and awaited by another wakes the latter. -/
def pollOnce (F : Lens U FutHeap) (b : Nat) : Prog U String := do
  let j ← K.getL (joinL F b)
  if !j.handle then pure "nohandle" else do
    K.setL (joinL F b) { j with handle := false }
    let r ← pollJoinHandle F b
    match r with
    | .ready s => pure s!"ready:{s}"
    | .pending _ => do
      let j' ← K.getL (joinL F b)
      K.setL (joinL F b) { j' with handle := true }
      pure "pending"

/-- one poll of the leaf future of an async op, in state `st`, by the current task -/
def pollLeaf (F : Lens U FutHeap) (semL : Nat → Lens U SemState) : AOp → Stage → Prog U LeafRes
  | .join b, .init => do
    -- the async block takes the `JoinHandle` out of the table, then awaits it
    let j ← K.getL (joinL F b)
    if !j.handle then pure (.ready "nohandle") else do
      K.setL (joinL F b) { j with handle := false }
      pollJoinHandle F b
  | .join b, _ => pollJoinHandle F b
  | .yieldNow, .init => do
    -- `YieldNow::poll`: `yielded = true; cx.waker().wake_by_ref(); request_yield(); Pending`
    let me ← K.me
    K.wake me
    K.requestYield
    pure (.pending .yielded)
  | .yieldNow, _ => pure (.ready "ok")
  | .pend w, _ => do
    let me ← K.me
    let s ← K.getL (wslotL F w)
    let (rdy, s') := s.pollPend me
    K.setL (wslotL F w) s'
    pure (if rdy then .ready "ok" else .pending .init)
  | .acqAwait h, .init => do
    let a ← K.getL (acqL F h)
    match a with
    | .full s wid => do
      K.setL (acqL F h) .empty
      let me ← K.me
      let r ← Sem.poll (semL s) wid me
      match r with
      | .ready ok => do Sem.dropAcquire (semL s) wid; pure (.ready (if ok then "ok" else "closed"))
      | .pending => pure (.pending (.acquiring s wid))
    | _ => pure (.ready "nohandle")
  | .acqAwait _, .acquiring s wid => do
    let me ← K.me
    let r ← Sem.poll (semL s) wid me
    match r with
    | .ready ok => do Sem.dropAcquire (semL s) wid; pure (.ready (if ok then "ok" else "closed"))
    | .pending => pure (.pending (.acquiring s wid))
  | .acqAwait _, _ => K.panic "model: acq_await in a foreign stage"
  | .blockOn a, _ => do
    -- `block_on(inner)` inside an async op: synchronous, the outer future is `Ready` at once
    let r ← blockOnLoop (pollLeaf F semL a) loopFuel .init
    pure (.ready r)
  | .bad name, _ => K.panic s!"vh: not an async op: {name}"

/-- `future::block_on(leaf)` -/
def blockOn (F : Lens U FutHeap) (semL : Nat → Lens U SemState) (a : AOp) : Prog U String :=
  blockOnLoop (pollLeaf F semL a) loopFuel .init

/-- what dropping a suspended leaf future does (the future that awaits it is being dropped) -/
def dropLeaf (F : Lens U FutHeap) (semL : Nat → Lens U SemState) : AOp → Stage → Prog U Unit
  | .join b, .joining => do
    let j ← K.getL (joinL F b)
    match j.tid with
    | some t => K.detach t
    | none => pure ()
  | .acqAwait _, .acquiring s wid => Sem.dropAcquire (semL s) wid
  | _, _ => pure ()

/-- `Wrapper::finish`: thread-local destructors, then publish the result and wake the joiner -/
def finish (F : Lens U FutHeap) (b : Nat) (ok : Bool) (tlsDtors : Prog U Unit) : Prog U Unit := do
  tlsDtors
  let j ← K.getL (joinL F b)
  let (j', effs) := j.publish ok
  K.setL (joinL F b) j'
  runEffs effs

/-- the first thing the continuation of a future task does -/
def markStarted (F : Lens U FutHeap) (b : Nat) : Prog U Unit := do
  let j ← K.getL (joinL F b)
  K.setL (joinL F b) { j with started := true }

/-- The closure of `Task::from_future` around `Wrapper { future }`:
`while wrapper.poll(cx).is_pending() { sleep_unless_woken(); switch() }` with `Wrapper::poll` =
`if aborted { drop(future); finish(Err(Cancelled)); Ready } else match future.poll(cx) { Ready(v) =>
{ finish(Ok(v)); Ready }, Pending => Pending }`.  `poll s` is one poll of the inner future in
state `s` (`none` = Ready), `dropFut s` what dropping it in state `s` runs. -/
def taskLoop {σ : Type} (F : Lens U FutHeap) (b : Nat) (poll : σ → Prog U (Option σ))
    (dropFut : σ → Prog U Unit) (tlsDtors : Prog U Unit) : Nat → σ → Prog U Unit
  | 0, _ => K.panic "model: future poll loop fuel exhausted"
  | fuel + 1, s => do
    let j ← K.getL (joinL F b)
    if j.aborted then do
      dropFut s
      finish F b false tlsDtors
    else do
      let r ← poll s
      match r with
      | none => finish F b true tlsDtors
      | some s' => do
        K.sleepUnlessWoken
        K.switch
        taskLoop F b poll dropFut tlsDtors fuel s'

end Fut
end ShuttleModel
