import ShuttleModel.Prim.Locks
/-
  Condvar — transcription of shuttle-std/src/sync/condvar.rs.

  Two layers (same style as `Prim/Sem.lean`):
  * pure atomic transitions on `CondvarState` (`register`, `wake`, `notifyOne`, `notifyAll`), one per
    atomic segment (the code between two `thread::switch()`es), returning the new state, the result
    handed to the rest of the call and the kernel side effects (`Eff`) performed in that segment —
    these are what the C05 theorems talk about;
  * `Prog` wrappers (`wait`, `notifyOne`, `notifyAll`, `waitWhile`) that only sequence those
    functions, `runEffs`, clock requests, `K.block`, `K.switch` and the `Mutex` calls.
  A failing assertion in the middle of a segment leaves the part of the state written before it in
  place (the panicking task's destructors may reach scheduling points, so other tasks can observe
  it): `…OnPanic` is that state.
-/
namespace ShuttleModel

/-- `CondvarWaitStatus` -/
inductive CvStatus where
  | waiting
  | signal (epochs : List (Nat × Clock))
  | broadcast (c : Clock)
deriving Repr, Inhabited

/-- `CondvarState` (`waiters` is an association list keyed by task id) -/
structure CondvarState where
  waiters : List (Nat × CvStatus) := []
  nextEpoch : Nat := 0
deriving Repr, Inhabited

namespace CondvarState

/-- the loop of `wait` that withdraws the consumed `epoch` from every other waiter; a waiter left
with no epoch goes back to `Waiting` and is blocked again -/
def consumeEpoch (epoch : Nat) : List (Nat × CvStatus) → List (Nat × CvStatus) × List Eff
  | [] => ([], [])
  | (tid, st) :: rest =>
    let (rest', effs) := consumeEpoch epoch rest
    match st with
    | .signal eps =>
      match eps.findIdx? (fun e => e.1 == epoch) with
      | some i =>
        let eps' := eps.eraseIdx i
        if eps'.isEmpty then ((tid, .waiting) :: rest', Eff.block tid :: effs)
        else ((tid, .signal eps') :: rest', effs)
      | none => ((tid, st) :: rest', effs)
    | _ => ((tid, st) :: rest', effs)

/-- one iteration of the `notify_one` loop on a waiter's status -/
def signalStatus (epoch : Nat) (c : Clock) : CvStatus → CvStatus
  | .waiting => .signal [(epoch, c)]
  | .signal eps => .signal (eps ++ [(epoch, c)])
  | .broadcast b => .broadcast b

/-- the `for (tid, status) in state.waiters.iter_mut()` loop shared by `notify_one` /
`notify_all`: `assert_ne!(*tid, me)`, new status, `unblock` — element by element.  Returns the
updated list, the `unblock` effects, and whether the assertion fired (the failing element and
everything behind it are left untouched, the earlier waiters stay updated and unblocked). -/
def notifyLoop (me : Nat) (f : CvStatus → CvStatus) :
    List (Nat × CvStatus) → List (Nat × CvStatus) × List Eff × Bool
  | [] => ([], [], false)
  | (tid, st) :: rest =>
    if tid == me then ((tid, st) :: rest, [], true)
    else
      let (rest', effs, bad) := notifyLoop me f rest
      ((tid, f st) :: rest', Eff.unblock tid :: effs, bad)

/-- what a failing `assert_ne!(*tid, me)` of `notify_one` / `notify_all` leaves behind -/
def notifyOnPanic (s : CondvarState) (me : Nat) (f : CvStatus → CvStatus) : CondvarState × List Eff :=
  let (ws, effs, _) := notifyLoop me f s.waiters
  ({ s with waiters := ws }, effs)

/-- `Condvar::notify_one` after its scheduling point (`c` = `current::clock()`) -/
def notifyOne (s : CondvarState) (me : Nat) (c : Clock) : Except String (CondvarState × List Eff) :=
  match notifyLoop me (signalStatus s.nextEpoch c) s.waiters with
  | (_, _, true) => .error "assertion `left != right` failed"
  | (ws, effs, false) => .ok ({ waiters := ws, nextEpoch := s.nextEpoch + 1 }, effs)

/-- `Condvar::notify_all` after its scheduling point -/
def notifyAll (s : CondvarState) (me : Nat) (c : Clock) : Except String (CondvarState × List Eff) :=
  match notifyLoop me (fun _ => .broadcast c) s.waiters with
  | (_, _, true) => .error "assertion `left != right` failed"
  | (ws, effs, false) => .ok ({ s with waiters := ws }, effs)

/-- first segment of `wait`, after the guard has been dropped: register as `Waiting` (the
wrapper then blocks the current task and switches) -/
def register (s : CondvarState) (me : Nat) : Except String CondvarState :=
  if s.waiters.any (·.1 == me) then
    .error "assertion failed: <_ as AssocExt<_, _>>::get(&state.waiters, &me).is_none()"
  else .ok { s with waiters := s.waiters ++ [(me, .waiting)] }

/-- `AssocExt::remove(&mut state.waiters, &me)` -/
def remove (s : CondvarState) (me : Nat) : CondvarState :=
  { s with waiters := s.waiters.filter (·.1 != me) }

/-- second segment of `wait` (after the context switch): take the own entry out, consume the
signal that woke the task.  Returns the notifier's clock (for `update_clock`) and the `block`
effects on the waiters left without a pending signal.  Every error happens after (or without)
the removal of the own entry: the state left behind is `s.remove me`. -/
def wake (s : CondvarState) (me : Nat) : Except String (CondvarState × Clock × List Eff) :=
  match s.waiters.find? (·.1 == me) with
  | none => .error "should be waiting"
  | some (_, myStatus) =>
    let others := (s.remove me).waiters
    match myStatus with
    | .broadcast c => .ok ({ s with waiters := others }, c, [])
    | .signal [] => .error "should be a pending signal"
    | .signal ((epoch, c) :: _) =>
      let (others', effs) := consumeEpoch epoch others
      .ok ({ s with waiters := others' }, c, effs)
    | .waiting => .error "should not have been woken while in Waiting status"

end CondvarState

namespace Condvar
variable {U : Type}

/-- `Condvar::notify_one` -/
def notifyOne (L : Lens U CondvarState) : Prog U Unit := do
  K.switch
  let me ← K.me
  let c ← K.clock
  let s ← K.getL L
  match s.notifyOne me c with
  | .ok (s', effs) => do
    K.setL L s'
    runEffs effs
  | .error msg => do
    let (s', effs) := s.notifyOnPanic me (CondvarState.signalStatus s.nextEpoch c)
    K.setL L s'
    runEffs effs
    K.panic msg

/-- `Condvar::notify_all` -/
def notifyAll (L : Lens U CondvarState) : Prog U Unit := do
  K.switch
  let me ← K.me
  let c ← K.clock
  let s ← K.getL L
  match s.notifyAll me c with
  | .ok (s', effs) => do
    K.setL L s'
    runEffs effs
  | .error msg => do
    let (s', effs) := s.notifyOnPanic me (fun _ => .broadcast c)
    K.setL L s'
    runEffs effs
    K.panic msg

/-- first stage of `wait` after the guard is gone: register and block (same atomic segment as
the tail of the `release` inside `MutexGuard::unlock`) -/
def registerStage (L : Lens U CondvarState) (me : Nat) : Prog U Unit := do
  let s ← K.getL L
  match s.register me with
  | .error msg => K.panic msg
  | .ok s' => do
    K.setL L s'
    K.block false

/-- second stage of `wait`: consume the signal that woke the task -/
def wakeStage (L : Lens U CondvarState) (me : Nat) : Prog U Unit := do
  let s ← K.getL L
  match s.wake me with
  | .error msg => do
    K.setL L (s.remove me)
    K.panic msg
  | .ok (s', c, effs) => do
    K.setL L s'
    runEffs effs
    K.updateClock c

/-- `Condvar::wait(guard)`: the guard is dropped (`MutexGuard::unlock`: a `release` with its
scheduling point), the task registers and blocks in the same segment, one `switch`, the signal
is consumed, and the mutex is locked again (a full `Mutex::lock`) -/
def wait (L : Lens U CondvarState) (M : Lens U MutexState) : Prog U LockRes := do
  let me ← K.me
  Mutex.unlock M
  registerStage L me
  K.switch
  wakeStage L me
  Mutex.lock M

/-- `Condvar::wait_while(guard, condition)`: `while condition(&mut *guard) { guard = self.wait(guard)? }`
— a poisoned re-lock leaves the loop at once -/
def waitWhile (L : Lens U CondvarState) (M : Lens U MutexState) (cond : Nat → Bool) : Nat → Prog U LockRes
  | 0 => K.panic "model: wait_while fuel exhausted"
  | fuel + 1 => do
    let m ← K.getL M
    if cond m.value then do
      let r ← wait L M
      match r with
      | .ok _ => waitWhile L M cond fuel
      | other => pure other
    else pure (.ok m.value)

end Condvar
end ShuttleModel
