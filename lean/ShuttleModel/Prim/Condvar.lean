import ShuttleModel.Prim.Locks
/-
  Condvar — transcription of shuttle-std/src/sync/condvar.rs.
-/
namespace ShuttleModel

/-- `CondvarWaitStatus` -/
inductive CvStatus where
  | waiting
  | signal (epochs : List (Nat × Clock))
  | broadcast (c : Clock)
deriving Repr, Inhabited

/-- `CondvarState` (`waiters` is an association list keyed by task id) -/
structure CondvarState where
  waiters : List (Nat × CvStatus) := []
  nextEpoch : Nat := 0
deriving Repr, Inhabited

namespace CondvarState

/-- the loop of `wait` that withdraws the consumed `epoch` from every other waiter; a waiter left
with no epoch goes back to `Waiting` and is blocked again -/
def consumeEpoch (epoch : Nat) : List (Nat × CvStatus) → List (Nat × CvStatus) × List Eff
  | [] => ([], [])
  | (tid, st) :: rest =>
    let (rest', effs) := consumeEpoch epoch rest
    match st with
    | .signal eps =>
      match eps.findIdx? (fun e => e.1 == epoch) with
      | some i =>
        let eps' := eps.eraseIdx i
        if eps'.isEmpty then ((tid, .waiting) :: rest', Eff.block tid :: effs)
        else ((tid, .signal eps') :: rest', effs)
      | none => ((tid, st) :: rest', effs)
    | _ => ((tid, st) :: rest', effs)

/-- one iteration of the `notify_one` loop on a waiter's status -/
def signalStatus (epoch : Nat) (c : Clock) : CvStatus → CvStatus
  | .waiting => .signal [(epoch, c)]
  | .signal eps => .signal (eps ++ [(epoch, c)])
  | .broadcast b => .broadcast b

end CondvarState

namespace Condvar
variable {U : Type}

/-- the `for (tid, status) in state.waiters.iter_mut()` loop shared by `notify_one` /
`notify_all`: `assert_ne!(*tid, me)`, new status, `unblock` — element by element, so that a
failing assertion leaves the earlier waiters updated -/
def notifyLoop (L : Lens U CondvarState) (me : Nat) (f : Clock → CvStatus → CvStatus) :
    Nat → Nat → Prog U Unit
  | 0, _ => pure ()
  | fuel + 1, i => do
    let s ← K.getL L
    match s.waiters[i]? with
    | none => pure ()
    | some (tid, st) =>
      if tid == me then K.panic "assertion `left != right` failed" else do
      let c ← K.clock
      K.setL L { s with waiters := s.waiters.set i (tid, f c st) }
      K.unblock tid
      notifyLoop L me f fuel (i + 1)

/-- `Condvar::notify_one` -/
def notifyOne (L : Lens U CondvarState) : Prog U Unit := do
  K.switch
  let me ← K.me
  let s ← K.getL L
  let epoch := s.nextEpoch
  notifyLoop L me (fun c st => CondvarState.signalStatus epoch c st) (s.waiters.length + 1) 0
  let s ← K.getL L
  K.setL L { s with nextEpoch := s.nextEpoch + 1 }

/-- `Condvar::notify_all` -/
def notifyAll (L : Lens U CondvarState) : Prog U Unit := do
  K.switch
  let me ← K.me
  let s ← K.getL L
  notifyLoop L me (fun c _ => .broadcast c) (s.waiters.length + 1) 0

/-- `Condvar::wait(guard)`: the guard is dropped (`MutexGuard::unlock`: a `release` with its
scheduling point), the task registers and blocks in the same segment, one `switch`, the signal
is consumed, and the mutex is locked again (a full `Mutex::lock`) -/
def wait (L : Lens U CondvarState) (M : Lens U MutexState) : Prog U LockRes := do
  let me ← K.me
  Mutex.unlock M
  let s ← K.getL L
  if s.waiters.any (·.1 == me) then
    K.panic "assertion failed: <_ as AssocExt<_, _>>::get(&state.waiters, &me).is_none()"
  else do
  K.setL L { s with waiters := s.waiters ++ [(me, .waiting)] }
  K.block false
  K.switch
  let s ← K.getL L
  match s.waiters.find? (·.1 == me) with
  | none => K.panic "should be waiting"
  | some (_, myStatus) =>
    let others := s.waiters.filter (·.1 != me)
    K.setL L { s with waiters := others }
    match myStatus with
    | .broadcast c => K.updateClock c
    | .signal [] => K.panic "should be a pending signal"
    | .signal ((epoch, c) :: _) =>
      let (others', effs) := CondvarState.consumeEpoch epoch others
      K.setL L { s with waiters := others' }
      runEffs effs
      K.updateClock c
    | .waiting => K.panic "should not have been woken while in Waiting status"
    Mutex.lock M

/-- `Condvar::wait_while(guard, condition)`: `while condition(&mut *guard) { guard = self.wait(guard)? }`
— a poisoned re-lock leaves the loop at once -/
def waitWhile (L : Lens U CondvarState) (M : Lens U MutexState) (cond : Nat → Bool) : Nat → Prog U LockRes
  | 0 => K.panic "model: wait_while fuel exhausted"
  | fuel + 1 => do
    let m ← K.getL M
    if cond m.value then do
      let r ← wait L M
      match r with
      | .ok _ => waitWhile L M cond fuel
      | other => pure other
    else pure (.ok m.value)

end Condvar
end ShuttleModel
