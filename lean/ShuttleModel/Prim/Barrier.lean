import ShuttleModel.Prim.Base
/-
  Barrier — transcription of shuttle-std/src/sync/barrier.rs.

  Two layers (same style as `Prim/Sem.lean`):
  * pure atomic transitions on `BarrierState` (`willBlock`, `arrive`, `takeLeader`) — `arrive` is
    everything `wait` does between its optional scheduling point and either blocking or releasing
    the group; `takeLeader` is the tail of `wait` (it runs after the context switch for a blocked
    arrival and in the same segment for the releasing one);
  * the `Prog` wrapper `wait` that only sequences them, `runEffs`, the clock requests, `K.block` and
    `K.switch`.
  A failing assertion leaves the part of the state written before it in place: `arriveOnPanic`.
-/
namespace ShuttleModel

/-- `BarrierState` (`waiters` / `leader_tokens` are `HashSet`s; the only iteration over one of
them, `waiters.drain()`, performs effects that commute, so lists in insertion order lose nothing) -/
structure BarrierState where
  bound : Nat := 0
  epoch : Nat := 0
  waiters : List Nat := []
  leaderTokens : List Nat := []
  clock : Clock := Clock.new
deriving Repr, Inhabited

/-- how the first part of `Barrier::wait` ended; both carry `my_epoch` -/
inductive BarrierArrival where
  /-- fewer than `bound` arrivals so far: the caller blocks and switches -/
  | blocked (myEpoch : Nat)
  /-- the caller completed the group and released it; it goes on without a scheduling point -/
  | released (myEpoch : Nat)
deriving Repr, DecidableEq, Inhabited

def BarrierArrival.myEpoch : BarrierArrival → Nat
  | .blocked e => e
  | .released e => e

namespace BarrierState

/-- `state.waiters.len() + 1 < state.bound` (decides whether `wait` starts with a `switch`) -/
def willBlock (s : BarrierState) : Bool := s.waiters.length + 1 < s.bound

/-- the `for tid in waiters` loop of the releasing arrival: `t.clock.increment(tid);
t.clock.update(&clock); t.unblock()`; `clk` = the tasks' clocks when the loop starts (the
drained ids are pairwise distinct, so no iteration sees the effect of an earlier one) -/
def releaseEffs (clk : Nat → Clock) (c : Clock) : List Nat → List Eff
  | [] => []
  | tid :: rest =>
    -- increment the task's own component, then join the barrier clock
    Eff.joinClock tid (((clk tid).increment tid).update c) :: Eff.unblock tid :: releaseEffs clk c rest

/-- `Barrier::wait` from `let my_epoch = state.epoch` up to (excluding) the `block`/`switch` of a
non-final arrival, or up to the end of the releasing `else` branch.  `c` = the caller's clock
after `increment_clock()`, `clk` = the clocks of the tasks at that moment. -/
def arrive (s : BarrierState) (me : Nat) (c : Clock) (clk : Nat → Clock) :
    Except String (BarrierState × BarrierArrival × List Eff) :=
  let myEpoch := s.epoch
  let s := { s with clock := s.clock.update c }
  if s.waiters.contains me then .error "assertion failed: state.waiters.insert(ExecutionState::me())" else
  let s := { s with waiters := s.waiters ++ [me] }
  if s.waiters.length < s.bound then .ok (s, .blocked myEpoch, [])
  else if !(s.waiters.length == s.bound || s.bound == 0) then
    .error "assertion failed: state.waiters.len() == state.bound || state.bound == 0"
  else if s.leaderTokens.contains myEpoch then
    .error "assertion failed: state.leader_tokens.insert(my_epoch)"
  else
    let drained := s.waiters
    let s := { s with leaderTokens := s.leaderTokens ++ [myEpoch], waiters := [], epoch := s.epoch + 1 }
    .ok (s, .released myEpoch, releaseEffs clk s.clock drained)

/-- what a failing assertion of `arrive` leaves behind: the barrier clock is updated; the caller
is in `waiters` unless it was the `insert` that failed -/
def arriveOnPanic (s : BarrierState) (me : Nat) (c : Clock) : BarrierState :=
  let s := { s with clock := s.clock.update c }
  if s.waiters.contains me then s else { s with waiters := s.waiters ++ [me] }

/-- `self.state.borrow_mut().leader_tokens.remove(&my_epoch)` -/
def takeLeader (s : BarrierState) (myEpoch : Nat) : BarrierState × Bool :=
  ({ s with leaderTokens := s.leaderTokens.filter (· != myEpoch) }, s.leaderTokens.contains myEpoch)

end BarrierState

namespace Barrier
variable {U : Type}

/-- `get_clock(t)` for each listed task (plain reads) -/
def clockSnapshot : List Nat → Prog U (Nat → Clock)
  | [] => pure (fun _ => Clock.new)
  | t :: ts => do
    let c ← K.clockOf t
    let f ← clockSnapshot ts
    pure (fun x => if x == t then c else f x)

/-- `Barrier::wait` → `is_leader` -/
def wait (L : Lens U BarrierState) : Prog U Bool := do
  let s ← K.getL L
  if !s.willBlock then K.switch else pure ()
  let me ← K.me
  let c ← K.incClock
  let s ← K.getL L
  let clk ← clockSnapshot (s.waiters ++ [me])
  match s.arrive me c clk with
  | .error msg => do
    K.setL L (s.arriveOnPanic me c)
    K.panic msg
  | .ok (s', arrival, effs) => do
    K.setL L s'
    runEffs effs
    match arrival with
    | .blocked _ => do
      K.block false
      K.switch
    | .released _ => pure ()
    let s ← K.getL L
    let (s', isLeader) := s.takeLeader arrival.myEpoch
    K.setL L s'
    pure isLeader

end Barrier
end ShuttleModel
