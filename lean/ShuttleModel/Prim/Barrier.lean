import ShuttleModel.Prim.Base
/-
  Barrier — transcription of shuttle-std/src/sync/barrier.rs.
-/
namespace ShuttleModel

/-- `BarrierState` (`waiters` / `leader_tokens` are `HashSet`s; the only iteration over one of
them, `waiters.drain()`, performs effects that commute, so lists in insertion order lose nothing) -/
structure BarrierState where
  bound : Nat := 0
  epoch : Nat := 0
  waiters : List Nat := []
  leaderTokens : List Nat := []
  clock : Clock := Clock.new
deriving Repr, Inhabited

namespace Barrier
variable {U : Type}

/-- the `for tid in waiters` loop of the releasing arrival: `t.clock.increment(tid);
t.clock.update(&clock); t.unblock()` -/
def releaseAll (c : Clock) : List Nat → Prog U Unit
  | [] => pure ()
  | tid :: rest => do
    let tc ← K.clockOf tid
    -- increment the task's own component, then join the barrier clock
    K.joinClockOf tid ((tc.increment tid).update c)
    K.unblock tid
    releaseAll c rest

/-- `Barrier::wait` → `is_leader` -/
def wait (L : Lens U BarrierState) : Prog U Bool := do
  let s ← K.getL L
  let willBlock := s.waiters.length + 1 < s.bound
  if !willBlock then K.switch else pure ()
  let me ← K.me
  let s ← K.getL L
  let myEpoch := s.epoch
  let c ← K.incClock
  let s := { s with clock := s.clock.update c }
  K.setL L s
  if s.waiters.contains me then K.panic "assertion failed: state.waiters.insert(ExecutionState::me())" else do
  let s := { s with waiters := s.waiters ++ [me] }
  K.setL L s
  if s.waiters.length < s.bound then do
    K.block false
    K.switch
  else do
    if !(s.waiters.length == s.bound || s.bound == 0) then
      K.panic "assertion failed: state.waiters.len() == state.bound || state.bound == 0"
    else if s.leaderTokens.contains myEpoch then
      K.panic "assertion failed: state.leader_tokens.insert(my_epoch)"
    else do
      let drained := s.waiters
      let s := { s with leaderTokens := s.leaderTokens ++ [myEpoch], waiters := [], epoch := s.epoch + 1 }
      K.setL L s
      releaseAll s.clock drained
  let s ← K.getL L
  let isLeader := s.leaderTokens.contains myEpoch
  K.setL L { s with leaderTokens := s.leaderTokens.filter (· != myEpoch) }
  pure isLeader

end Barrier
end ShuttleModel
