import ShuttleModel.Kernel
import ShuttleModel.Rng
import ShuttleModel.Sched.Dfs
import ShuttleModel.Sched.Pct
import ShuttleModel.Generated
/-
  `Runner::run` (shuttle-engine/src/runtime/runner.rs) and the built-in schedulers as instances of
  the kernel's `Scheduler` interface plus `new_execution`.
-/
namespace ShuttleModel

/-- result of `Scheduler::new_execution` -/
inductive NewExec (σ : Type) where
  | none                                 -- the run ends
  | some (seed : Nat) (s : σ)            -- `Some(Schedule::new(seed))`
  | panic (msg : String)

/-- a complete scheduler: `new_execution` + `next_task` + `next_u64` -/
structure FullScheduler (σ : Type) where
  newExec : σ → NewExec σ
  sched : Scheduler σ

def Outcome.isFailure : Outcome → Bool
  | .ok | .stopped | .abandoned => false
  | _ => true

structure RunnerResult (P : Program) (σ : Type) where
  /-- executions performed, in order -/
  execs : List (Nat × Result P σ)       -- (seed, result)
  /-- `Ok(i)` = the value `Runner::run` returns; `none` = the run failed (the last execution's
  outcome, or a scheduler panic in `new_execution`) -/
  count : Option Nat
  newExecPanic : Option String := none
  final : σ

/-- the loop of `Runner::run` (the time limit is not modelled: it is only consulted between
iterations and the harness never sets it) -/
def runner (P : Program) {σ : Type} (F : FullScheduler σ) (maxSteps : MaxSteps) (fuel segFuel : Nat) :
    Nat → σ → List (Nat × Result P σ) → RunnerResult P σ
  | 0, s, acc => { execs := acc.reverse, count := none, newExecPanic := some "model: runner fuel", final := s }
  | iters + 1, s, acc =>
    match F.newExec s with
    | .none => { execs := acc.reverse, count := some acc.length, final := s }
    | .panic msg => { execs := acc.reverse, count := none, newExecPanic := some msg, final := s }
    | .some seed s' =>
      let r := execute P F.sched maxSteps seed s' fuel segFuel
      if r.outcome.isFailure then
        { execs := ((seed, r) :: acc).reverse, count := none, final := r.st.sch }
      else runner P F maxSteps fuel segFuel iters r.st.sch ((seed, r) :: acc)

/-! ### Round-robin (shuttle-schedulers/src/round_robin.rs) -/

structure RRState where
  iterations : Nat := 0
  maxIterations : Nat
  data : Rng.RandomDataSource := Rng.RandomDataSource.initialize 0

def rrScheduler : FullScheduler RRState where
  newExec s :=
    if s.iterations < s.maxIterations then
      let (seed, d) := s.data.reinitialize
      .some seed { s with iterations := s.iterations + 1, data := d }
    else .none
  sched := {
    nextTask := fun s views cur _ =>
      let ids := views.map (·.id)
      match cur with
      | none => (match ids.head? with | some t => (.choose (some t), s) | none => (.panic "called `Option::unwrap()` on a `None` value", s))
      | some c =>
        match ids.find? (· > c) with
        | some t => (.choose (some t), s)
        | none => (match ids.head? with | some t => (.choose (some t), s) | none => (.panic "called `Option::unwrap()` on a `None` value", s))
    nextU64 := fun s => let (v, d) := s.data.nextU64; (.ok v, { s with data := d }) }

/-! ### Random (shuttle-schedulers/src/random.rs; state and transitions in Rng.lean) -/

def randomScheduler : FullScheduler Rng.RandomScheduler where
  newExec s := match s.newExecution with
    | some (seed, s') => .some seed s'
    | none => .none
  sched := {
    nextTask := fun s views _ _ =>
      match s.nextTask (views.map (·.id)) with
      | (some t, s') => (.choose (some t), s')
      | (none, s') => (.panic "called `Option::unwrap()` on a `None` value", s')
    nextU64 := fun s => let (v, s') := s.nextU64; (.ok v, s') }

/-! ### DFS (shuttle-schedulers/src/dfs.rs; search state in Sched/Dfs.lean) -/

structure DfsFull where
  dfs : Dfs.DfsState
  allowRandom : Bool
  data : Rng.FixedDataSource := Rng.FixedDataSource.initialize Generated.DFS_RANDOM_SEED

def dfsScheduler : FullScheduler DfsFull where
  newExec s := match Dfs.newExecution s.dfs with
    | some d =>
      let (seed, ds) := s.data.reinitialize
      .some seed { s with dfs := d, data := ds }
    | none => .none
  sched := {
    nextTask := fun s views _ _ =>
      match Dfs.nextTask s.dfs (views.map (·.id)) with
      | .ok c d => (.choose (some c), { s with dfs := d })
      | .panic msg => (.panic msg, s)
    nextU64 := fun s =>
      if !s.allowRandom then (.error "requested random data from DFS scheduler with allow_random_data = false", s)
      else let (v, d) := s.data.nextU64; (.ok v, { s with data := d }) }

/-! ### PCT (shuttle-schedulers/src/pct.rs; state and transitions in Sched/Pct.lean) -/

def pctScheduler : FullScheduler Pct.PctState where
  newExec s := match Pct.newExecution s with
    | .none => .none
    | .some seed s' => .some seed s'
    | .panic msg => .panic msg
  sched := {
    nextTask := fun s views cur y =>
      match Pct.nextTask s (views.map (·.id)) cur y with
      | .ok c s' => (.choose (some c), s')
      | .panic msg => (.panic msg, s)
    nextU64 := fun s => let (v, s') := Pct.nextU64 s; (.ok v, s') }

end ShuttleModel
