/-
  `StorageMap` — transcription of shuttle-engine/src/runtime/storage.rs as a pure structure, plus the
  `LocalKey::try_with` access path of shuttle-engine/src/thread_support.rs and the destructor loop of
  `thread_fn` / `ExecutionState::cleanup` over it.  Core Lean only.

  Rust                                              here
  ------------------------------------------------  -------------------------------------------------
  `locals: HashMap<StorageKey, Option<Box<dyn Any>>>`  `locals : List (StorageKey × Option α)` — an association list
                                                    (first match wins; the well-formedness invariant `WF` says
                                                    keys are distinct, so it *is* a map); kept in insertion order,
                                                    which the HashMap does not remember but `order` does
  `order: VecDeque<StorageKey>`                     `order : List StorageKey` (front = head)
  `Some(v)` / `None` values                         `some v` / `none` (`none` = tombstone: destructed)
  `Box<dyn Any>` + `downcast_ref::<T>().expect(..)` values are an abstract `α`.  The type id is the second
                                                    component of the key, so two keys with different types are
                                                    different slots and the downcast cannot fail; not modelled.
  `assert!` / `expect` failures                     `Except String` / the `panic` constructors, same messages
-/
namespace ShuttleModel
namespace Storage

/-- `StorageKey(identifier, type)` -/
structure StorageKey where
  id : Nat
  ty : Nat
deriving DecidableEq, Repr, Inhabited

/-- `AlreadyDestructedError` -/
inductive AlreadyDestructed where
  | alreadyDestructed
deriving DecidableEq, Repr, Inhabited

/-- `StorageMap` -/
structure StorageMap (α : Type) where
  locals : List (StorageKey × Option α) := []
  order : List StorageKey := []
deriving Repr, Inhabited

namespace StorageMap
variable {α : Type}

/-- `StorageMap::new` -/
def new : StorageMap α := {}

/-- `self.locals.get(&key)` -/
def lookup (m : StorageMap α) (k : StorageKey) : Option (Option α) :=
  (m.locals.find? (fun p => p.1 == k)).map (·.2)

/-- `StorageMap::get`: `none` = never initialised, `some (error _)` = tombstone, `some (ok v)` -/
def get (m : StorageMap α) (k : StorageKey) : Option (Except AlreadyDestructed α) :=
  (m.lookup k).map fun
    | some v => .ok v
    | none => .error .alreadyDestructed

/-- `self.locals.insert(key, Some(value))`: replaces the value of an existing key, appends a new one -/
def insertRaw (ls : List (StorageKey × Option α)) (k : StorageKey) (v : α) : List (StorageKey × Option α) :=
  if ls.any (fun p => p.1 == k) then ls.map (fun p => if p.1 == k then (k, some v) else p)
  else ls ++ [(k, some v)]

/-- `StorageMap::init`.  The Rust inserts first and asserts afterwards
(`assert!(result.is_none(), "cannot reinitialize a storage slot")`, where `result` is the previous
entry of the HashMap — `Some(Some(_))` for a live slot and `Some(None)` for a tombstone, both of which
are `is_some()`): re-initialising a live slot *and* re-initialising a tombstone panic.  `.error` is that
panic; the state the panicking call leaves behind is `initPanicResidue`. -/
def init (m : StorageMap α) (k : StorageKey) (v : α) : Except String (StorageMap α) :=
  match m.lookup k with
  | some _ => .error "cannot reinitialize a storage slot"
  | none => .ok { locals := insertRaw m.locals k v, order := m.order ++ [k] }

/-- what `init` has already done to the map when its assertion fires: the new value has replaced the old
entry, `order` has not been extended. (Never observed through `LocalKey`: `try_with` only calls `init`
after `get` returned `None`, see `tryWith`.) -/
def initPanicResidue (m : StorageMap α) (k : StorageKey) (v : α) : StorageMap α :=
  { m with locals := insertRaw m.locals k v }

/-- `get_mut(&key) … .take()`: the slot of `k` becomes a tombstone -/
def tombstone (ls : List (StorageKey × Option α)) (k : StorageKey) : List (StorageKey × Option α) :=
  ls.map (fun p => if p.1 == k then (k, none) else p)

inductive PopRes (α : Type) where
  /-- `order` is empty: `None` -/
  | empty
  /-- `Some(value)` and the map afterwards -/
  | popped (v : α) (m : StorageMap α)
  | panic (msg : String)
deriving Repr

/-- `StorageMap::pop`: the next still-initialised slot in insertion order becomes a tombstone and its
value is returned.  Both `expect`s are explicit error branches (unreachable under `WF`,
`ShuttleProofs.Lemmas.Storage.pop_wf`). -/
def pop (m : StorageMap α) : PopRes α :=
  match m.order with
  | [] => .empty
  | k :: rest =>
    match m.lookup k with
    | none => .panic "keys in `order` must exist"
    | some none => .panic "keys in `order` must not yet be destructed"
    | some (some v) => .popped v { locals := tombstone m.locals k, order := rest }

/-- keys that were ever initialised (live or tombstone), in initialisation order -/
def keys (m : StorageMap α) : List StorageKey := m.locals.map (·.1)

/-- keys whose value is still alive, in initialisation order -/
def liveKeys (m : StorageMap α) : List StorageKey :=
  (m.locals.filter (fun p => p.2.isSome)).map (·.1)

/-- values still alive, in initialisation order -/
def liveVals (m : StorageMap α) : List α := m.locals.filterMap (·.2)

/-- number of tombstones -/
def tombstones (m : StorageMap α) : Nat := (m.locals.filter (fun p => p.2.isNone)).length

/-- the representation invariant of `StorageMap` (the two `expect`s of `pop` rely on it): the HashMap has
one entry per key, and `order` lists exactly the keys whose value is still there, oldest first -/
structure WF (m : StorageMap α) : Prop where
  nodup : m.keys.Nodup
  order_eq : m.order = m.liveKeys

end StorageMap

/-! ### `LocalKey::try_with` (thread_support.rs) over a task's `local_storage` -/

/-- `AccessError` -/
inductive AccessError where
  | accessError
deriving DecidableEq, Repr, Inhabited

/-- `LocalKey::try_with(f)` up to the call of `f`: `get()`; when it is `None`, run the key's `init`
function (`v` is the value it produces), `init_local`, `get().unwrap()`.  A tombstone is reported as
`Err(AccessError)`: the slot is *not* re-initialised.  Result: the value `f` is applied to, or the
error; and the map afterwards.  The outer `Except String` is a Rust panic (`init_local`'s assertion, the
`unwrap`); `ShuttleProofs.Lemmas.Storage.tryWith_no_panic` shows it does not happen. -/
def tryWith {α : Type} (m : StorageMap α) (k : StorageKey) (v : α) :
    Except String (Except AccessError α × StorageMap α) :=
  match m.get k with
  | some (.ok x) => .ok (.ok x, m)
  | some (.error _) => .ok (.error .accessError, m)
  | none =>
    match m.init k v with
    | .error e => .error e
    | .ok m' =>
      match m'.get k with
      | some (.ok x) => .ok (.ok x, m')
      | some (.error _) => .ok (.error .accessError, m')
      | none => .error "called `Option::unwrap()` on a `None` value"

/-- `LocalKey::with`: `try_with(f).expect("cannot access a Thread Local Storage value during or after
destruction")` -/
def withKey {α : Type} (m : StorageMap α) (k : StorageKey) (v : α) : Except String (α × StorageMap α) :=
  match tryWith m k v with
  | .error e => .error e
  | .ok (.ok x, m') => .ok (x, m')
  | .ok (.error _, _) => .error "cannot access a Thread Local Storage value during or after destruction"

/-! ### The destructor loop
`while let Some(local) = current_mut().pop_local() { drop(local) }` (`thread_fn`; the same loop runs over
the execution-wide `storage` in `ExecutionState::cleanup`).  A destructor may access other thread-locals:
`dtor v` is the list of `(key, value its init function would produce)` that `drop(v)` accesses with
`try_with`, in order. -/

/-- the accesses of one destructor -/
def runAccesses {α : Type} : StorageMap α → List (StorageKey × α) → Except String (StorageMap α)
  | m, [] => .ok m
  | m, (k, v) :: rest =>
    match tryWith m k v with
    | .error e => .error e
    | .ok (_, m') => runAccesses m' rest

structure DrainRes (α : Type) where
  /-- values whose destructor ran, in that order -/
  dropped : List α
  final : StorageMap α
  /-- the loop saw `pop() = None` (as opposed to running out of fuel) -/
  completed : Bool
  panic : Option String := none
deriving Repr

/-- the loop, `fuel` = bound on the number of iterations -/
def drain {α : Type} (dtor : α → List (StorageKey × α)) : Nat → StorageMap α → List α → DrainRes α
  | 0, m, acc => { dropped := acc.reverse, final := m, completed := false }
  | fuel + 1, m, acc =>
    match m.pop with
    | .empty => { dropped := acc.reverse, final := m, completed := true }
    | .panic e => { dropped := acc.reverse, final := m, completed := false, panic := some e }
    | .popped v m' =>
      match runAccesses m' (dtor v) with
      | .error e => { dropped := (v :: acc).reverse, final := m', completed := false, panic := some e }
      | .ok m'' => drain dtor fuel m'' (v :: acc)

end Storage
end ShuttleModel
