/-
  ShuttleModel.Rng — bit-exact executable model of the random-number machinery used by Shuttle's
  schedulers.

  Transcribed from (exact versions resolved by /repo/Cargo.lock):
    * rand_core 0.6.4  `SeedableRng::seed_from_u64`                       (src/lib.rs)
    * rand_pcg  0.3.1  `Mcg128Xsl64` = `Pcg64Mcg`                        (src/pcg128.rs)
    * rand      0.8.8  `UniformInt::{new_inclusive,sample,sample_single,sample_single_inclusive}`
                       (src/distributions/uniform.rs), `Standard` for u32/u64/usize
                       (src/distributions/integer.rs), `Rng::gen_range` (src/rng.rs),
                       `seq::gen_index`, `SliceRandom::{choose,shuffle,choose_weighted}`
                       (src/seq/mod.rs), `seq::index::{sample,sample_floyd,sample_inplace,
                       sample_rejection}` (src/seq/index.rs), `WeightedIndex::{new,sample}`
                       (src/distributions/weighted_index.rs)
    * shuttle-engine   `scheduler/data/random.rs`, `scheduler/data/fixed.rs`
    * shuttle-schedulers `random.rs` (RandomScheduler)

  Conventions: every machine integer is a `Nat`; wrap-around is made explicit with `% 2^k`.
  Products with a large constant are written `CONSTANT * x` (never `x * CONSTANT`): `Nat.mul`
  recurses on its second argument, and the kernel's `whnf` of `x * 0x2360…` for a symbolic `x`
  descends 2^125 levels (any proof whose type-check has to weak-head-normalise such a term hangs).
  A 64-bit target is assumed (`usize` = `u64`), as in the Rust validation run.
  Every Rust panic and every unmodelled branch is an explicit `none`.
  Unbounded rejection loops take explicit fuel (`none` when the fuel runs out).
  Core Lean only.
-/

namespace ShuttleModel.Rng

/-! ## Word sizes -/

def two32 : Nat := 4294967296
def two64 : Nat := 18446744073709551616
def two128 : Nat := 340282366920938463463374607431768211456

/-- `u32::rotate_right` (`r` is used modulo 32, as in Rust). -/
def rotr32 (x r : Nat) : Nat :=
  let r := r % 32
  ((x >>> r) ||| ((x <<< (32 - r)) % two32)) % two32

/-- `u64::rotate_right` (`r` is used modulo 64, as in Rust). -/
def rotr64 (x r : Nat) : Nat :=
  let r := r % 64
  ((x >>> r) ||| ((x <<< (64 - r)) % two64)) % two64

/-! ## `Pcg64Mcg` = `Mcg128Xsl64` (rand_pcg 0.3.1) -/

/-- `const MULTIPLIER: u128 = 0x2360_ED05_1FC6_5DA4_4385_DF64_9FCC_F645`. -/
def MULTIPLIER : Nat := 0x2360ED051FC65DA44385DF649FCCF645

/-- `Mcg128Xsl64 { state: u128 }`. -/
structure Pcg where
  state : Nat
  deriving DecidableEq, Repr, Inhabited

/-- The inner `pcg32` of `SeedableRng::seed_from_u64` (rand_core 0.6.4): advances the 64-bit state
    and returns `(x, new_state)` where `x` is the `u32` whose little-endian bytes fill one chunk. -/
def seedPcg32 (state : Nat) : Nat × Nat :=
  let MUL : Nat := 6364136223846793005
  let INC : Nat := 11634580027462260723
  let state := (MUL * state + INC) % two64
  let xorshifted := (((state >>> 18) ^^^ state) >>> 27) % two32
  let rot := state >>> 59
  (rotr32 xorshifted rot, state)

/-- `Mcg128Xsl64::new(state)` : force the low bit. -/
def Pcg.new (state : Nat) : Pcg := { state := (state % two128) ||| 1 }

/-- `Pcg64Mcg::seed_from_u64(seed)`: four PCG32 outputs fill the 16-byte seed in 4-byte
    little-endian chunks; `from_seed` reads it back as a little-endian `u128` and ors in 1. -/
def seedFromU64 (seed : Nat) : Pcg :=
  let (x0, s) := seedPcg32 (seed % two64)
  let (x1, s) := seedPcg32 s
  let (x2, s) := seedPcg32 s
  let (x3, _) := seedPcg32 s
  Pcg.new (x0 + two32 * x1 + two64 * x2 + (two64 * two32) * x3)

/-- `output_xsl_rr`. -/
def outputXslRr (state : Nat) : Nat :=
  let rot := state >>> 122
  let xsl := ((state >>> 64) % two64) ^^^ (state % two64)
  rotr64 xsl rot

/-- `RngCore::next_u64`: the state is advanced FIRST, the output is a function of the NEW state. -/
def nextU64 (g : Pcg) : Nat × Pcg :=
  let s := (MULTIPLIER * g.state) % two128
  (outputXslRr s, { state := s })

/-- `RngCore::next_u32` = `self.next_u64() as u32`. -/
def nextU32 (g : Pcg) : Nat × Pcg :=
  ((nextU64 g).1 % two32, (nextU64 g).2)

/-! ## `UniformInt` (rand 0.8.8, uniform.rs) -/

/-- Fuel used for every rejection loop. Each iteration rejects with probability `< 1/2`. -/
def defaultFuel : Nat := 1024

/-- `x.leading_zeros()` for a nonzero `bits`-bit value. -/
def leadingZeros (bits x : Nat) : Nat := bits - (Nat.log2 x + 1)

/-- `zone` of `sample_single_inclusive` for `u32`/`u64`/`usize`:
    `(range << range.leading_zeros()).wrapping_sub(1)` (with `B = 2^bits`). -/
def zoneSingle (bits range : Nat) : Nat :=
  let B := 2 ^ bits
  ((range <<< leadingZeros bits range) % B + B - 1) % B

/-- One iteration of the widening-multiply rejection loop for a raw draw `v`:
    `let (hi, lo) = v.wmul(range); if lo <= zone { return hi }`.
    `some hi` = accepted, `none` = rejected (draw again). `B = 2^bits`. -/
def wmulStep (B range zone v : Nat) : Option Nat :=
  let m := v * range
  if m % B ≤ zone then some (m / B) else none

/-- Generic fuelled "draw until accepted" loop: `body` consumes raw draws and either accepts with a
    value or rejects; `none` when the fuel runs out.
    (Kept generic in `body` on purpose: its equation lemmas are then generated with `body` opaque.
    Unfolding a recursive function whose body mentions the PCG arithmetic directly makes Lean's
    equation-lemma generation blow up.) -/
def retryLoop {α : Type} (body : Pcg → Option α × Pcg) : Nat → Pcg → Option (α × Pcg)
  | 0, _ => none
  | fuel + 1, g =>
    match body g with
    | (some a, g') => some (a, g')
    | (none, g') => retryLoop body fuel g'

/-- One iteration of `loop { let v: u32 = rng.gen(); let (hi, lo) = v.wmul(range);
    if lo <= zone { return low.wrapping_add(hi) } }`. -/
def sampleBody32 (range zone low : Nat) (g : Pcg) : Option Nat × Pcg :=
  ((wmulStep two32 range zone (nextU32 g).1).map (fun hi => (low + hi) % two32), (nextU32 g).2)

/-- Same for `u64` / `usize`. -/
def sampleBody64 (range zone low : Nat) (g : Pcg) : Option Nat × Pcg :=
  ((wmulStep two64 range zone (nextU64 g).1).map (fun hi => (low + hi) % two64), (nextU64 g).2)

/-- The `loop { let v = rng.gen(); … }` of `sample` / `sample_single_inclusive` over `u32`;
    returns `low.wrapping_add(hi)`. -/
def sampleLoop32 (range zone low fuel : Nat) (g : Pcg) : Option (Nat × Pcg) :=
  retryLoop (sampleBody32 range zone low) fuel g

/-- Same loop over `u64` / `usize`. -/
def sampleLoop64 (range zone low fuel : Nat) (g : Pcg) : Option (Nat × Pcg) :=
  retryLoop (sampleBody64 range zone low) fuel g

/-- `UniformInt::<u32>::sample_single_inclusive(low, high, rng)`.
    `none` = the `assert!(low <= high)` panic (or argument not a `u32`, or fuel exhausted). -/
def sampleSingleInclusiveU32 (low high : Nat) (g : Pcg) (fuel : Nat := defaultFuel) :
    Option (Nat × Pcg) :=
  if low ≤ high ∧ high < two32 then
    let range := (high + two32 - low + 1) % two32
    if range = 0 then some (nextU32 g)
    else sampleLoop32 range (zoneSingle 32 range) low fuel g
  else none

/-- `UniformInt::<u64>::sample_single_inclusive` (also `usize` on a 64-bit target). -/
def sampleSingleInclusiveU64 (low high : Nat) (g : Pcg) (fuel : Nat := defaultFuel) :
    Option (Nat × Pcg) :=
  if low ≤ high ∧ high < two64 then
    let range := (high + two64 - low + 1) % two64
    if range = 0 then some (nextU64 g)
    else sampleLoop64 range (zoneSingle 64 range) low fuel g
  else none

/-- `rng.gen_range(low..high)` at type `u32`
    (`assert!(!range.is_empty())`, then `sample_single` = `sample_single_inclusive(low, high-1)`). -/
def genRangeU32 (low high : Nat) (g : Pcg) (fuel : Nat := defaultFuel) : Option (Nat × Pcg) :=
  if low < high ∧ high < two32 then sampleSingleInclusiveU32 low (high - 1) g fuel else none

/-- `rng.gen_range(low..high)` at type `u64`. -/
def genRangeU64 (low high : Nat) (g : Pcg) (fuel : Nat := defaultFuel) : Option (Nat × Pcg) :=
  if low < high ∧ high < two64 then sampleSingleInclusiveU64 low (high - 1) g fuel else none

/-- `rng.gen_range(low..high)` at type `usize` (64-bit target: `Standard` draws `next_u64`). -/
def genRangeUsize (low high : Nat) (g : Pcg) (fuel : Nat := defaultFuel) : Option (Nat × Pcg) :=
  genRangeU64 low high g fuel

/-- `rng.gen_range(low..=high)` at type `u32` (used by `sample_floyd`). -/
def genRangeInclusiveU32 (low high : Nat) (g : Pcg) (fuel : Nat := defaultFuel) :
    Option (Nat × Pcg) :=
  sampleSingleInclusiveU32 low high g fuel

/-- `ints_to_reject` of `UniformInt::new_inclusive` (`B = 2^bits`, `0 < range < B`):
    `(unsigned_max - range + 1) % range`. -/
def intsToReject (B range : Nat) : Nat := (B - 1 - range + 1) % range

/-- `Uniform::<u32>::new(0, high).sample(rng)` (the pre-computed-`z` sampler, used by
    `sample_rejection`). `none` = `assert!(low < high)` panic / out of fuel. -/
def uniformSampleU32 (high : Nat) (g : Pcg) (fuel : Nat := defaultFuel) : Option (Nat × Pcg) :=
  if 0 < high ∧ high < two32 then
    sampleLoop32 high (two32 - 1 - intsToReject two32 high) 0 fuel g
  else none

/-- `Uniform::<usize>::new(0, high).sample(rng)` on a 64-bit target (also `u64`). -/
def uniformSampleU64 (high : Nat) (g : Pcg) (fuel : Nat := defaultFuel) : Option (Nat × Pcg) :=
  if 0 < high ∧ high < two64 then
    sampleLoop64 high (two64 - 1 - intsToReject two64 high) 0 fuel g
  else none

/-! ## `rand::seq` -/

/-- `gen_index(rng, ubound)`: `u32` sampling when `ubound <= u32::MAX`, else `usize` sampling.
    `ubound = 0` is the "cannot sample empty range" panic. -/
def genIndex (g : Pcg) (ubound : Nat) (fuel : Nat := defaultFuel) : Option (Nat × Pcg) :=
  if ubound ≤ two32 - 1 then genRangeU32 0 ubound g fuel else genRangeUsize 0 ubound g fuel

/-- `SliceRandom::choose` for slices: the outer `Option` is model failure (out of fuel / slice
    longer than `usize`), the inner one is Rust's `None` on an empty slice. -/
def choose {α : Type} (g : Pcg) (xs : List α) (fuel : Nat := defaultFuel) :
    Option (Option α × Pcg) :=
  if xs.isEmpty then some (none, g)
  else
    match genIndex g xs.length fuel with
    | none => none
    | some (i, g') =>
      match xs[i]? with
      | some x => some (some x, g')
      | none => none   -- index out of bounds: unreachable (see `ShuttleProofs`)

/-- `slice.swap(i, j)`; `none` = out-of-bounds panic. -/
def swap? {α : Type} (xs : List α) (i j : Nat) : Option (List α) :=
  match xs[i]?, xs[j]? with
  | some a, some b => some ((xs.set i b).set j a)
  | _, _ => none

/-- Body of `shuffle`: `shuffleLoop k` performs the iterations `i = k, k-1, …, 1`. -/
def shuffleLoop {α : Type} (fuel : Nat) : Nat → List α → Pcg → Option (List α × Pcg)
  | 0, xs, g => some (xs, g)
  | i + 1, xs, g =>
    match genIndex g (i + 2) fuel with
    | none => none
    | some (j, g') =>
      match swap? xs (i + 1) j with
      | none => none
      | some xs' => shuffleLoop fuel i xs' g'

/-- `SliceRandom::shuffle`: `for i in (1..len).rev() { self.swap(i, gen_index(rng, i + 1)) }`. -/
def shuffle {α : Type} (g : Pcg) (xs : List α) (fuel : Nat := defaultFuel) :
    Option (List α × Pcg) :=
  shuffleLoop fuel (xs.length - 1) xs g

/-! ## `rand::seq::index::sample` -/

/-- Position of the first element equal to `t` (`iter().position(|&x| x == t)`). -/
def position (t : Nat) : List Nat → Option Nat
  | [] => none
  | x :: xs => if x = t then some 0 else (position t xs).map (· + 1)

/-- `Vec::insert(pos, j)` for `pos ≤ len`. -/
def insertAt (xs : List Nat) (pos j : Nat) : List Nat := xs.take pos ++ j :: xs.drop pos

/-- Main loop of `sample_floyd`: `for j in lo..hi`, written as `count = hi - j` remaining rounds. -/
def floydLoop (floydShuffle : Bool) (fuel : Nat) :
    Nat → Nat → List Nat → Pcg → Option (List Nat × Pcg)
  | 0, _, indices, g => some (indices, g)
  | count + 1, j, indices, g =>
    match genRangeInclusiveU32 0 j g fuel with
    | none => none
    | some (t, g') =>
      if floydShuffle then
        match position t indices with
        | some pos => floydLoop floydShuffle fuel count (j + 1) (insertAt indices pos j) g'
        | none => floydLoop floydShuffle fuel count (j + 1) (indices ++ [t]) g'
      else if indices.contains t then
        floydLoop floydShuffle fuel count (j + 1) (indices ++ [j]) g'
      else
        floydLoop floydShuffle fuel count (j + 1) (indices ++ [t]) g'

/-- The trailing shuffle of `sample_floyd` (`for i in (1..amount).rev()` with
    `rng.gen_range(0..=i)` at type `u32`); `floydShuffleLoop k` does `i = k, …, 1`. -/
def floydShuffleLoop (fuel : Nat) : Nat → List Nat → Pcg → Option (List Nat × Pcg)
  | 0, xs, g => some (xs, g)
  | i + 1, xs, g =>
    match genRangeInclusiveU32 0 (i + 1) g fuel with
    | none => none
    | some (j, g') =>
      match swap? xs (i + 1) j with
      | none => none
      | some xs' => floydShuffleLoop fuel i xs' g'

/-- `sample_floyd(rng, length, amount)` (requires `amount ≤ length`, both `u32`). -/
def sampleFloyd (g : Pcg) (length amount : Nat) (fuel : Nat := defaultFuel) :
    Option (List Nat × Pcg) :=
  let floydShuffle := decide (amount < 50)
  match floydLoop floydShuffle fuel amount (length - amount) [] g with
  | none => none
  | some (indices, g') =>
    if floydShuffle then some (indices, g')
    else floydShuffleLoop fuel (amount - 1) indices g'

/-- Loop of `sample_inplace`: `for i in i..amount { swap(i, gen_range(i..length)) }`. -/
def inplaceLoop (fuel length : Nat) : Nat → Nat → List Nat → Pcg → Option (List Nat × Pcg)
  | 0, _, xs, g => some (xs, g)
  | count + 1, i, xs, g =>
    match genRangeU32 i length g fuel with
    | none => none
    | some (j, g') =>
      match swap? xs i j with
      | none => none
      | some xs' => inplaceLoop fuel length count (i + 1) xs' g'

/-- `sample_inplace(rng, length, amount)`. -/
def sampleInplace (g : Pcg) (length amount : Nat) (fuel : Nat := defaultFuel) :
    Option (List Nat × Pcg) :=
  match inplaceLoop fuel length amount 0 (List.range length) g with
  | none => none
  | some (xs, g') => some (xs.take amount, g')

/-- `while !cache.insert(pos) { pos = distr.sample(rng) }` (shared fuel `k`). -/
def rejectionDraw (sample : Pcg → Option (Nat × Pcg)) (seen : List Nat) :
    Nat → Pcg → Option (Nat × Pcg)
  | 0, _ => none
  | k + 1, g =>
    match sample g with
    | none => none
    | some (pos, g') => if seen.contains pos then rejectionDraw sample seen k g' else some (pos, g')

def rejectionLoop (sample : Pcg → Option (Nat × Pcg)) (fuel : Nat) :
    Nat → List Nat → Pcg → Option (List Nat × Pcg)
  | 0, indices, g => some (indices, g)
  | count + 1, indices, g =>
    match rejectionDraw sample indices fuel g with
    | none => none
    | some (pos, g') => rejectionLoop sample fuel count (indices ++ [pos]) g'

/-- `sample_rejection::<u32>(rng, length, amount)`. -/
def sampleRejectionU32 (g : Pcg) (length amount : Nat) (fuel : Nat := defaultFuel) :
    Option (List Nat × Pcg) :=
  if 0 < length then rejectionLoop (fun g => uniformSampleU32 length g fuel) fuel amount [] g
  else none

/-- `sample_rejection::<usize>(rng, length, amount)` (64-bit target). -/
def sampleRejectionUsize (g : Pcg) (length amount : Nat) (fuel : Nat := defaultFuel) :
    Option (List Nat × Pcg) :=
  if 0 < length then rejectionLoop (fun g => uniformSampleU64 length g fuel) fuel amount [] g
  else none

/-! ### The `f32` arithmetic of the algorithm choice in `index::sample`

A positive finite `f32` is represented exactly as a fraction `num / den`. `roundF32` is IEEE-754
binary32 round-to-nearest-even of a non-negative rational (exponent range not modelled: all
intermediate values here lie in `[2^-3, 2^70]`). -/

structure Fp where
  num : Nat
  den : Nat
  deriving Repr

/-- Round the rational `p / q` (`q > 0`) to the nearest `f32`, ties to even. -/
def roundF32 (p q : Nat) : Fp :=
  if p = 0 then ⟨0, 1⟩
  else
    -- scale so that `t = ⌊p·2^a / q⌋ ≥ 2^29`
    let a := 30 + Nat.log2 q - Nat.log2 p
    let n := p * 2 ^ a
    let t := n / q
    let sticky := n % q ≠ 0
    let d := (Nat.log2 t + 1) - 24
    let m := t >>> d
    let rem := t % 2 ^ d
    let half := 2 ^ (d - 1)
    let up := rem > half ∨ (rem = half ∧ (sticky ∨ m % 2 = 1))
    let m' := if up then m + 1 else m
    ⟨m' * 2 ^ d, 2 ^ a⟩

def Fp.ofNat (n : Nat) : Fp := roundF32 n 1           -- `n as f32`
def Fp.mul (x y : Fp) : Fp := roundF32 (x.num * y.num) (x.den * y.den)
def Fp.add (x y : Fp) : Fp := roundF32 (x.num * y.den + y.num * x.den) (x.den * y.den)
def Fp.lt (x y : Fp) : Bool := decide (x.num * y.den < y.num * x.den)

/-- Which algorithm `index::sample` dispatches to. -/
inductive SampleAlgo
  | floyd | inplace | rejectionU32 | rejectionUsize
  deriving DecidableEq, Repr

/-- The decision procedure of `index::sample(rng, length, amount)` for `amount ≤ length`. -/
def sampleAlgo (length amount : Nat) : SampleAlgo :=
  if length > two32 - 1 then .rejectionUsize
  else
    let j0 := decide (length < 500000)
    let amountFp := Fp.ofNat amount
    let lengthFp := Fp.ofNat length
    if amount < 163 then
      -- C = [[1.6, 8.0/45.0], [10.0, 70.0/9.0]]
      let c0 := if j0 then roundF32 16 10 else roundF32 8 45
      let c1 := if j0 then roundF32 10 1 else roundF32 70 9
      let m4 := Fp.mul c0 amountFp
      if amount > 11 ∧ Fp.lt lengthFp (Fp.mul (Fp.add c1 m4) amountFp) then .inplace
      else .floyd
    else
      -- C = [270.0, 330.0/9.0]
      let c := if j0 then roundF32 270 1 else roundF32 330 9
      if Fp.lt lengthFp (Fp.mul c amountFp) then .inplace else .rejectionU32

/-- `rand::seq::index::sample(rng, length, amount)`; the result is the `IndexVec` as a list.
    `none` = the `amount > length` panic, `length` not a `usize`, or out of fuel.
    All four algorithms are modelled. -/
def indexSample (g : Pcg) (length amount : Nat) (fuel : Nat := defaultFuel) :
    Option (List Nat × Pcg) :=
  if amount > length ∨ length ≥ two64 then none
  else
    match sampleAlgo length amount with
    | .floyd => sampleFloyd g length amount fuel
    | .inplace => sampleInplace g length amount fuel
    | .rejectionU32 => sampleRejectionU32 g length amount fuel
    | .rejectionUsize => sampleRejectionUsize g length amount fuel

/-! ## `WeightedIndex<usize>` / `SliceRandom::choose_weighted` (used by `urw.rs`) -/

/-- `WeightedIndex::<usize>::new(weights)`: returns `(cumulative_weights, total_weight)`, where
    `cumulative_weights` are the running sums *excluding* the last weight.
    `none` = `NoItem` / `AllWeightsZero` error (urw `unwrap`s) or `usize` overflow of the running
    sum (a panic in debug builds, silent wrap-around in release builds — not modelled). -/
def weightedIndexNew : List Nat → Option (List Nat × Nat)
  | [] => none
  | w :: ws =>
    let (cum, total) := ws.foldl (fun (acc : List Nat × Nat) w => (acc.1 ++ [acc.2], acc.2 + w))
      ([], w)
    if total = 0 ∨ total ≥ two64 then none else some (cum, total)

/-- `WeightedIndex::sample`: `chosen = Uniform::new(0, total).sample(rng)` then the partition
    point of `cumulative_weights` w.r.t. `w <= chosen` (the `binary_search_by(..).unwrap_err()`). -/
def weightedIndexSample (cum : List Nat) (total : Nat) (g : Pcg) (fuel : Nat := defaultFuel) :
    Option (Nat × Pcg) :=
  match uniformSampleU64 total g fuel with
  | none => none
  | some (chosen, g') => some ((cum.takeWhile (· ≤ chosen)).length, g')

/-- `slice.choose_weighted(rng, weight).unwrap()` returning the chosen *index*;
    `ws` are the weights of the slice elements in order. -/
def chooseWeightedIndex (g : Pcg) (ws : List Nat) (fuel : Nat := defaultFuel) :
    Option (Nat × Pcg) :=
  match weightedIndexNew ws with
  | none => none
  | some (cum, total) => weightedIndexSample cum total g fuel

/-! ## Shuttle data sources (`shuttle-engine/src/scheduler/data/{random,fixed}.rs`) -/

/-- `RandomDataSource { rng, next_seed }`. -/
structure RandomDataSource where
  rng : Pcg
  nextSeed : Option Nat
  deriving DecidableEq, Repr

/-- `RandomDataSource::initialize(seed)` = `new_from_seed`. -/
def RandomDataSource.initialize (seed : Nat) : RandomDataSource :=
  { rng := seedFromU64 seed, nextSeed := some seed }

/-- `reinitialize`: `next_seed.take().unwrap_or_else(|| rng.next_u64())`, re-seed, return seed. -/
def RandomDataSource.reinitialize (ds : RandomDataSource) : Nat × RandomDataSource :=
  let nextSeed := match ds.nextSeed with
    | some s => s
    | none => (nextU64 ds.rng).1
  (nextSeed, { rng := seedFromU64 nextSeed, nextSeed := none })

/-- `next_u64`. -/
def RandomDataSource.nextU64 (ds : RandomDataSource) : Nat × RandomDataSource :=
  let (v, g) := Rng.nextU64 ds.rng
  (v, { ds with rng := g })

/-- `FixedDataSource { seed, data_source }`. -/
structure FixedDataSource where
  seed : Nat
  dataSource : RandomDataSource
  deriving DecidableEq, Repr

def FixedDataSource.initialize (seed : Nat) : FixedDataSource :=
  { seed := seed, dataSource := RandomDataSource.initialize seed }

/-- `self.data_source = RandomDataSource::initialize(self.seed); self.data_source.reinitialize()`. -/
def FixedDataSource.reinitialize (ds : FixedDataSource) : Nat × FixedDataSource :=
  let (s, d) := (RandomDataSource.initialize ds.seed).reinitialize
  (s, { ds with dataSource := d })

def FixedDataSource.nextU64 (ds : FixedDataSource) : Nat × FixedDataSource :=
  let (v, d) := ds.dataSource.nextU64
  (v, { ds with dataSource := d })

/-! ## `RandomScheduler` (`shuttle-schedulers/src/random.rs`)

Not modelled: the `SHUTTLE_RANDOM_SEED` override in `seed_from_env` (the model takes the
effective seed), the `SHUTTLE_ALWAYS_PERSIST_SEED` file write and the `CurrentSeedDropGuard`
(diagnostic output only). -/

structure RandomScheduler where
  maxIterations : Nat
  rng : Pcg
  iterations : Nat
  dataSource : RandomDataSource
  deriving DecidableEq, Repr

/-- `RandomScheduler::new_from_seed(seed, max_iterations)`. -/
def RandomScheduler.newFromSeed (seed maxIterations : Nat) : RandomScheduler :=
  { maxIterations := maxIterations
    rng := seedFromU64 seed
    iterations := 0
    dataSource := RandomDataSource.initialize seed }

/-- `new_execution`: `none` when `iterations >= max_iterations`; otherwise bump `iterations`,
    `seed = data_source.reinitialize()`, re-seed the choice rng from `seed`, return the schedule
    seed. -/
def RandomScheduler.newExecution (s : RandomScheduler) : Option (Nat × RandomScheduler) :=
  if s.iterations ≥ s.maxIterations then none
  else
    let (seed, ds) := s.dataSource.reinitialize
    some (seed, { s with iterations := s.iterations + 1, dataSource := ds, rng := seedFromU64 seed })

/-- `next_task`: `runnable.choose(&mut self.rng).unwrap().id()` over the offered task ids.
    `none` = the `unwrap` panic on an empty runnable set (or model fuel exhaustion); the state is
    then returned unchanged. -/
def RandomScheduler.nextTask (s : RandomScheduler) (runnable : List Nat)
    (fuel : Nat := defaultFuel) : Option Nat × RandomScheduler :=
  match choose s.rng runnable fuel with
  | some (some id, g) => (some id, { s with rng := g })
  | _ => (none, s)

/-- `next_u64`: `self.data_source.next_u64()`. -/
def RandomScheduler.nextU64 (s : RandomScheduler) : Nat × RandomScheduler :=
  let (v, ds) := s.dataSource.nextU64
  (v, { s with dataSource := ds })

/-! ## The random parts of `PctScheduler::new_execution` (`shuttle-schedulers/src/pct.rs`) -/

/-- `priorities.shuffle(&mut rng)` on `(0..n).collect()` followed by
    `sample(&mut rng, max_steps - 1, min(max_depth - 1, max_steps - 1)).iter().map(|v| v + 1)`:
    returns `(priorities, change_points, rng)`. Requires `max_depth > 0`, `max_steps > 0`
    (both asserted by the Rust code). -/
def pctReinit (g : Pcg) (numTasks maxDepth maxSteps : Nat) (fuel : Nat := defaultFuel) :
    Option (List Nat × List Nat × Pcg) :=
  if maxDepth = 0 ∨ maxSteps = 0 then none
  else
    match shuffle g (List.range numTasks) fuel with
    | none => none
    | some (prios, g') =>
      match indexSample g' (maxSteps - 1) (min (maxDepth - 1) (maxSteps - 1)) fuel with
      | none => none
      | some (cps, g'') => some (prios, cps.map (· + 1), g'')

end ShuttleModel.Rng
