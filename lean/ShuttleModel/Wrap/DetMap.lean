/-
  The deterministic `HashMap`/`HashSet` of `wrappers/collections/deterministic_collections`, AS SPECIFIED:

    a newtype around `std::collections::HashMap<K, V, RandomState>` whose `RandomState` is always the fixed
    `DETERMINISTIC_RANDOM_STATE = transmute((0u64, 0u64))`; every method forwards to the std map.

  Model.  A std map is modelled by its entries, an association list without duplicate keys (`Entries`);
  the position of an entry in that list has no meaning (it is *not* the iteration order).  The operations are
  those of std, with std's results:
    `insert`   – value replaced *in place* if the key is present (std keeps the old key), `Some(old)`; else `None`
    `remove`   – `Option<V>`;   `get`, `contains_key`, `len`, `is_empty`, `clear`, `retain`, `extend`.
  A `DetMap` pairs the entries with the two SipHash keys of its `RandomState` and with the *history* of mutating
  operations applied since construction (ghost state).  The iteration order is NOT modelled concretely: hashbrown's
  table layout is abstracted as an uninterpreted deterministic function `Layout.order` of the hash function and
  the history (see `ShuttleProofs/C20Coll.lean`, theorem `iteration_order_function_of_history_partial`, for what
  is proved and what is trusted about it).

  Every constructor of the wrapper is *specified* to produce the fixed keys.  On the pinned tree two families
  do not (found by `vh_c20coll hashers`): the derived `Deserialize` (F15) and the set operators `& | ^ -` (F16);
  they are modelled here as specified (`DetSet.union` … carry `detK0/detK1`), the defect is documented in
  /verif/work/c20_fix_*.diff.

  Core Lean only.
-/
import ShuttleModel.Wrap.SipHash

namespace ShuttleModel.DetMap

variable {K V : Type} [DecidableEq K]

/-- association list; invariant (see `NoDupKeys` in the proofs): no key occurs twice -/
abbrev Entries (K V : Type) := List (K × V)

/-- value stored under `k` (first match) -/
def lookup (k : K) : Entries K V → Option V
  | [] => none
  | (k', v) :: m => if k' = k then some v else lookup k m

/-- replace the value stored under `k` in place (the stored key is kept, as in std) -/
def replaceVal (k : K) (v : V) : Entries K V → Entries K V
  | [] => []
  | (k', v') :: m => if k' = k then (k', v) :: m else (k', v') :: replaceVal k v m

/-- remove the entry stored under `k` -/
def eraseKey (k : K) : Entries K V → Entries K V
  | [] => []
  | (k', v') :: m => if k' = k then m else (k', v') :: eraseKey k m

/-- `HashMap::insert` -/
def insert (k : K) (v : V) (m : Entries K V) : Option V × Entries K V :=
  match lookup k m with
  | some old => (some old, replaceVal k v m)
  | none => (none, m ++ [(k, v)])

/-- `HashMap::remove` -/
def remove (k : K) (m : Entries K V) : Option V × Entries K V :=
  (lookup k m, eraseKey k m)

/-- `HashMap::retain` -/
def retain (p : K → V → Bool) (m : Entries K V) : Entries K V :=
  m.filter (fun e => p e.1 e.2)

/-- `Extend::extend`: insert one by one, in the order of the iterator -/
def extend (kvs : List (K × V)) (m : Entries K V) : Entries K V :=
  kvs.foldl (fun acc e => (insert e.1 e.2 acc).2) m

/-- operations on a map (`retain` takes the predicate) -/
inductive Op (K V : Type) where
  | insert (k : K) (v : V)
  | remove (k : K)
  | get (k : K)
  | contains (k : K)
  | len
  | isEmpty
  | clear
  | retain (p : K → V → Bool)
  | extend (kvs : List (K × V))

/-- results, exactly std's -/
inductive Res (V : Type) where
  | optVal (o : Option V)
  | bool (b : Bool)
  | nat (n : Nat)
  | unit
deriving DecidableEq, Repr

/-- does the op change the table (and therefore belong to the layout-relevant history)? -/
def Op.mutating : Op K V → Bool
  | .insert _ _ | .remove _ | .clear | .retain _ | .extend _ => true
  | .get _ | .contains _ | .len | .isEmpty => false

/-- one std-map operation on the entries -/
def stdStep (op : Op K V) (m : Entries K V) : Res V × Entries K V :=
  match op with
  | .insert k v => let r := insert k v m; (.optVal r.1, r.2)
  | .remove k => let r := remove k m; (.optVal r.1, r.2)
  | .get k => (.optVal (lookup k m), m)
  | .contains k => (.bool (lookup k m).isSome, m)
  | .len => (.nat m.length, m)
  | .isEmpty => (.bool m.isEmpty, m)
  | .clear => (.unit, [])
  | .retain p => (.unit, retain p m)
  | .extend kvs => (.unit, extend kvs m)

/-- the deterministic map: hasher keys, entries, ghost history of mutating ops -/
structure DetMap (K V : Type) where
  k0 : Nat
  k1 : Nat
  entries : Entries K V
  hist : List (Op K V)

/-- `HashMap::new()`, `default()`, `with_capacity(0)`: fixed keys, empty table, empty history -/
def DetMap.new : DetMap K V :=
  { k0 := SipHash.detK0, k1 := SipHash.detK1, entries := [], hist := [] }

/-- every method forwards to the std map (`Deref`/`DerefMut`); the hasher keys never change -/
def DetMap.step (op : Op K V) (d : DetMap K V) : Res V × DetMap K V :=
  let r := stdStep op d.entries
  (r.1, { d with entries := r.2, hist := if op.mutating then d.hist ++ [op] else d.hist })

/-- run a sequence of ops, collecting the results -/
def DetMap.run : List (Op K V) → DetMap K V → List (Res V) × DetMap K V
  | [], d => ([], d)
  | op :: ops, d =>
      let r := DetMap.step op d
      let rest := DetMap.run ops r.2
      (r.1 :: rest.1, rest.2)

/-- `FromIterator` / `From<[(K,V); N]>` / `From<std HashMap>` / (as specified) `Deserialize`:
`new()` followed by `extend` -/
def DetMap.fromList (kvs : List (K × V)) : DetMap K V :=
  (DetMap.step (.extend kvs) DetMap.new).2

/-- `Clone`: same keys, same table (hashbrown clones the table bucket for bucket), same history -/
def DetMap.clone (d : DetMap K V) : DetMap K V := d

/-- abstract hashbrown layout: the iteration order as an uninterpreted deterministic function of the hash
function in use and of the history of mutating operations (TRUSTED to be the only inputs; see C20Coll.lean) -/
structure Layout (K V : Type) where
  order : (K → Nat) → List (Op K V) → List K

/-- the keys in iteration order, given a layout function and the key-hash function family
`hashOf k0 k1 : K → Nat` (for `u64` keys: `SipHash.hashU64`) -/
def DetMap.iterKeys (L : Layout K V) (hashOf : Nat → Nat → K → Nat) (d : DetMap K V) : List K :=
  L.order (hashOf d.k0 d.k1) d.hist

/-! ### sets: `HashSet<T>` is `HashMap<T, ()>` -/

abbrev DetSet (K : Type) := DetMap K Unit

def DetSet.contains (a : DetSet K) (k : K) : Bool := (lookup k a.entries).isSome

def DetSet.len (a : DetSet K) : Nat := a.entries.length

/-- elements of `a` that are not in `b` (`difference` iterator) -/
def DetSet.diffElems (a b : DetSet K) : List K :=
  (a.entries.filter (fun e => !b.contains e.1)).map Prod.fst

/-- `a.union(b)` as std builds it: the larger set first, then what the other adds -/
def DetSet.unionElems (a b : DetSet K) : List K :=
  if a.len ≥ b.len then a.entries.map Prod.fst ++ DetSet.diffElems b a
  else b.entries.map Prod.fst ++ DetSet.diffElems a b

/-- `a.intersection(b)` as std builds it: iterate the smaller set, keep what the other contains -/
def DetSet.interElems (a b : DetSet K) : List K :=
  if a.len ≤ b.len then (a.entries.filter (fun e => b.contains e.1)).map Prod.fst
  else (b.entries.filter (fun e => a.contains e.1)).map Prod.fst

/-- `a.symmetric_difference(b)` = `a.difference(b).chain(b.difference(a))` -/
def DetSet.symmElems (a b : DetSet K) : List K :=
  DetSet.diffElems a b ++ DetSet.diffElems b a

/-- collect a list of keys into a fresh deterministic set (`FromIterator`) -/
def DetSet.ofKeys (ks : List K) : DetSet K := DetMap.fromList (ks.map (fun k => (k, ())))

/-- `&a | &b`, `&a & &b`, `&a ^ &b`, `&a - &b` AS SPECIFIED: a fresh deterministic set -/
def DetSet.union (a b : DetSet K) : DetSet K := DetSet.ofKeys (DetSet.unionElems a b)
def DetSet.inter (a b : DetSet K) : DetSet K := DetSet.ofKeys (DetSet.interElems a b)
def DetSet.symmDiff (a b : DetSet K) : DetSet K := DetSet.ofKeys (DetSet.symmElems a b)
def DetSet.diff (a b : DetSet K) : DetSet K := DetSet.ofKeys (DetSet.diffElems a b)

end ShuttleModel.DetMap
