import ShuttleModel.Prim.Sem
import ShuttleModel.Rng
/-
  Shared pieces of the tokio wrappers (wrappers/tokio/impls/tokio/inner/src/sync/*):

  * `AwaitMode` / `awaitLoop` — how a leaf future is driven.  `block` is the loop of
    `shuttle::future::block_on` (shuttle-engine/src/future/mod.rs:10-24: poll; `Pending` →
    `sleep_unless_woken`; `thread::switch()`; poll again), with the waker of the current task.
    `once` is the harness's `t_poll_once`: the future is polled ONCE (same waker) and dropped if it
    is still pending (cancellation).  An `async fn` whose body awaits leaves one after the other
    behaves under `block_on` exactly like the sequence of the leaves' loops (a `Pending` of the leaf
    is the `Pending` of the whole future, and the re-poll goes straight back to that leaf), so the
    async functions below are written in direct style; `none` = "cancelled while pending".
  * `thread::yield_now()` (shuttle-std/src/thread.rs:302).
  * `rng.gen_range(0..n)` on `shuttle::rand::ThreadRng` at type `usize` (rand 0.8.8
    `UniformInt::sample_single_inclusive`, every raw draw is one `ExecutionState::next_u64()`).
  * `OsCore` — `futures::channel::oneshot::Inner<T>` (futures-channel 0.3.34, src/oneshot.rs), the
    engine under `tokio::sync::oneshot` and under every `Notify` waiter.
-/
namespace ShuttleModel
namespace Tokio

inductive AwaitMode where
  | block
  | once
deriving Repr, DecidableEq, Inhabited

variable {U : Type}

def loopFuel : Nat := 100000

/-- drive one leaf future: `poll cx` returns `some r` for `Ready(r)`; `cancel` is its `Drop` while
pending -/
def awaitLoop {α : Type} (mode : AwaitMode) (poll : Nat → Prog U (Option α)) (cancel : Prog U Unit) :
    Nat → Prog U (Option α)
  | 0 => K.panic "model: block_on fuel exhausted"
  | fuel + 1 => do
    let me ← K.me
    let r ← poll me
    match r with
    | some a => pure (some a)
    | none =>
      match mode with
      | .once => do cancel; pure none
      | .block => do
        K.sleepUnlessWoken
        K.switch
        awaitLoop mode poll cancel fuel

/-- `sem.acquire(n).await`: `Acquire::new`, the poll loop, and the drop of the `Acquire` (a no-op
once completed; `remove_waiter` when cancelled while queued) -/
def awaitAcquire (mode : AwaitMode) (L : Lens U SemState) (n : Nat) : Prog U (Option Bool) := do
  let wid ← Sem.newAcquire L n
  awaitLoop mode
    (fun cx => do
      let r ← Sem.poll L wid cx
      match r with
      | .ready ok => do Sem.dropAcquire L wid; pure (some ok)
      | .pending => pure none)
    (Sem.dropAcquire L wid) loopFuel

/-- `shuttle::thread::yield_now()` -/
def yieldNow : Prog U Unit := do
  let me ← K.me
  K.wake me
  K.requestYield
  K.switch

/-- the rejection loop of `gen_range(0..n)` (`n > 0`, `usize` on a 64-bit target) -/
def genRangeLoop (range zone : Nat) : Nat → Prog U Nat
  | 0 => K.panic "model: gen_range fuel exhausted"
  | fuel + 1 => do
    let v ← K.rand
    match Rng.wmulStep Rng.two64 range zone v with
    | some hi => pure hi
    | none => genRangeLoop range zone fuel

def genRange (n : Nat) : Prog U Nat :=
  if n = 0 then K.panic "cannot sample empty range"
  else genRangeLoop n (Rng.zoneSingle 64 n) 4096

/-! ### futures oneshot -/

/-- `Inner<T>`: `complete`, `data`, `rx_task`, `tx_task` (wakers = task ids) -/
structure OsCore where
  complete : Bool := false
  data : Option Nat := none
  rxTask : Option Nat := none
  txTask : Option Nat := none
deriving Repr, Inhabited, DecidableEq

namespace OsCore

/-- `Inner::send` (the locks are never contended: no scheduling point inside).  `true` = `Ok(())` -/
def send (c : OsCore) (v : Nat) : Bool × OsCore :=
  if c.complete then (false, c) else (true, { c with data := some v })

/-- `Inner::drop_tx`: returns the waker to `wake()` -/
def dropTx (c : OsCore) : OsCore × List Eff :=
  ({ c with complete := true, rxTask := none, txTask := none },
   match c.rxTask with | some t => [Eff.wake t] | none => [])

/-- `Inner::close_rx` -/
def closeRx (c : OsCore) : OsCore × List Eff :=
  ({ c with complete := true, txTask := none },
   match c.txTask with | some t => [Eff.wake t] | none => [])

/-- `Inner::drop_rx` (the stored `rx_task` waker is dropped, not woken) -/
def dropRx (c : OsCore) : OsCore × List Eff :=
  ({ c with complete := true, rxTask := none, txTask := none },
   match c.txTask with | some t => [Eff.wake t] | none => [])

inductive TryRecv where
  | value (v : Nat)
  | empty
  | canceled
deriving Repr, DecidableEq, Inhabited

/-- `Inner::try_recv` -/
def tryRecv (c : OsCore) : TryRecv × OsCore :=
  if c.complete then
    match c.data with
    | some v => (.value v, { c with data := none })
    | none => (.canceled, c)
  else (.empty, c)

/-- `Inner::recv(cx)`: `none` = `Pending` (waker stored), `some (some v)` = `Ready(Ok(v))`,
`some none` = `Ready(Err(Canceled))` -/
def recv (c : OsCore) (cx : Nat) : Option (Option Nat) × OsCore :=
  if c.complete then
    match c.data with
    | some v => (some (some v), { c with data := none })
    | none => (some none, c)
  else (none, { c with rxTask := some cx })

end OsCore

end Tokio
end ShuttleModel
