import ShuttleModel.Prim.Sem
import ShuttleModel.Generated
/-
  The parking_lot replacements — transcription of
    wrappers/parking_lot/parking_lot_impl/src/raw_mutex.rs   (`RawMutex`: one `BatchSemaphore`, 1 permit, strictly fair)
    wrappers/parking_lot/parking_lot_impl/src/raw_rwlock.rs  (`RawRwLock`: `sem` with `MAX_READERS` permits and
                                                              `upgradable_sem` with 1 permit, both strictly fair)
  under the generic `lock_api` containers (`Mutex<R, T>`, `RwLock<R, T>` and their guards), which add
  no state of their own: a guard is a reference to the lock, its `Drop` calls the matching
  `unlock_*`, the conversions call the raw conversion and `mem::forget` the old guard.
  The Rust code keeps NO holder bookkeeping (no re-entrancy diagnosis, no reader sets).

  Two layers, as for every primitive:
  * PURE: a strictly fair semaphore with clocks and wakers erased (`FSem`, the image of `SemState`
    under `SemState.toF`) and the atomic steps of every `RawRwLock` operation over two of them, driven
    by a most-general client (`PlRw.step`).  One step = one region between two scheduling points of the
    Rust code.  These are what the C20 theorems (ShuttleProofs/C20Pl.lean) talk about.
  * `Prog` wrappers over the `BatchSemaphore` model (`Sem.*`) that place the `thread::switch()` calls
    exactly where the Rust code has them; the differential harness exercises these.
-/
namespace ShuttleModel

/-- `MAX_READERS` of raw_rwlock.rs (`usize::MAX >> 3`) -/
def PL_MAX : Nat := Generated.PL_MAX_READERS

/-! ## Pure layer -/

/-- a strictly fair `BatchSemaphore` without clocks, wakers and the `Acquire` table: the permits
available and the FIFO queue of `(task, requested permits)` -/
structure FSem where
  avail : Nat
  queue : List (Nat × Nat) := []
deriving Repr, DecidableEq, Inhabited

namespace FSem

/-- `acquire_permits` on a strictly fair semaphore: only when nobody is queued -/
def tryAcq (s : FSem) (n : Nat) : Option FSem :=
  if s.queue.isEmpty && decide (n ≤ s.avail) then some { s with avail := s.avail - n } else none

/-- the first `Acquire::poll` of `acquire_blocking` (after its scheduling point): take the permits
or join the queue -/
def acq (s : FSem) (t n : Nat) : Bool × FSem :=
  match s.tryAcq n with
  | some s' => (true, s')
  | none => (false, { s with queue := s.queue ++ [(t, n)] })

/-- `unblock_waiters_from_front`: the granted tasks, the remaining queue, the remaining permits -/
def grant : List (Nat × Nat) → Nat → List (Nat × Nat) × List (Nat × Nat) × Nat
  | [], a => ([], [], a)
  | (t, n) :: q, a =>
    if n ≤ a then
      let r := grant q (a - n)
      ((t, n) :: r.1, r.2.1, r.2.2)
    else ([], (t, n) :: q, a)

/-- `release(n)` (after its scheduling point): the new semaphore and the requests it granted -/
def rel (s : FSem) (n : Nat) : FSem × List (Nat × Nat) :=
  let r := grant s.queue (s.avail + n)
  ({ avail := r.2.2, queue := r.2.1 }, r.1)

end FSem

/-- erase clocks, wakers and the table from a `SemState` -/
def SemState.toF (s : SemState) : FSem :=
  { avail := s.avail, queue := s.queue.filterMap (fun wid => (s.getW wid).map (fun w => (w.taskId, w.n))) }

/-- where a client task is inside a `RawRwLock` operation.  A `w…` phase is a task queued on a
semaphore (it does not run); the other non-`idle`, non-`h…` phases are the scheduling points inside
the multi-step operations. -/
inductive PlPhase where
  | idle
  /-- `lock_shared`: queued on `sem` for 1 -/
  | wR
  | hR
  /-- `lock_exclusive`: queued on `sem` for `MAX` -/
  | wW
  | hW
  /-- `lock_upgradable`: queued on `upgradable_sem` -/
  | wU1
  /-- `lock_upgradable`: owns the upgradable slot, `sem` not yet requested -/
  | gU1
  /-- `lock_upgradable`: owns the upgradable slot, queued on `sem` for 1 -/
  | wU2
  | hU
  /-- `try_lock_upgradable`: owns the upgradable slot, `sem` not yet tried -/
  | tU1
  /-- `try_lock_upgradable`: `sem` refused, the upgradable slot must be rolled back -/
  | tU2
  /-- `upgrade`: request for `MAX` queued by the single poll of `BatchSemaphore::upgrade`, own
  permit not yet released -/
  | upg1
  /-- `upgrade`: own permit released, waiting for the grant -/
  | upg2
  /-- `upgrade`: all permits granted, the upgradable slot not yet released -/
  | upg3
  /-- `try_upgrade`: the remaining permits taken, the upgradable slot not yet released -/
  | tupg
  /-- `downgrade_to_upgradable`: still exclusive, queued on `upgradable_sem` -/
  | du1
  /-- `downgrade_to_upgradable`: exclusive and owns the upgradable slot, `MAX - 1` permits not yet released -/
  | du2
  /-- `unlock_upgradable`: the `sem` permit released, the upgradable slot not yet -/
  | unU
  /-- (unreachable) an `upgrade` request granted while its owner still held its read permit -/
  | bad
deriving Repr, DecidableEq, Inhabited

/-- what the client asks a task to do next; `cont` = run the next atomic step of the operation the
task is in the middle of -/
inductive PlAct where
  | read | tryRead | write | tryWrite | upread | tryUpread
  | upgrade | tryUpgrade | downgrade | downUp | toUpRead
  | unread | unwrite | unupread | cont
deriving Repr, DecidableEq, Inhabited

namespace PlPhase

/-- permits of `sem` the task owns (`M` = `MAX_READERS`) -/
def semPermits (M : Nat) : PlPhase → Nat
  | hR | hU | upg1 => 1
  | hW | upg3 | tupg | du1 | du2 => M
  | bad => M + 1
  | _ => 0

/-- permits of `upgradable_sem` the task owns -/
def upPermits : PlPhase → Nat
  | gU1 | wU2 | hU | tU1 | tU2 | upg1 | upg2 | upg3 | tupg | du2 | unU | bad => 1
  | _ => 0

/-- exclusive access (all permits of `sem`) -/
def isW (p : PlPhase) : Bool :=
  match p with | hW | upg3 | tupg | du1 | du2 => true | _ => false

/-- shared access (one permit of `sem`), upgradable or not -/
def isShared (p : PlPhase) : Bool :=
  match p with | hR | hU | upg1 => true | _ => false

/-- the upgradable role (owner of the upgradable slot, including the operations in progress) -/
def isUp (p : PlPhase) : Bool := p.upPermits == 1

/-- the phase after a queued `sem` request is granted -/
def grantSem : PlPhase → PlPhase
  | wR => hR | wW => hW | wU2 => hU | upg2 => upg3 | upg1 => bad | p => p

/-- the phase after a queued `upgradable_sem` request is granted -/
def grantUp : PlPhase → PlPhase
  | wU1 => gU1 | du1 => du2 | p => p

/-- the request a queued task waits for on `sem` -/
def waitsSem (M : Nat) : PlPhase → Option Nat
  | wR | wU2 => some 1
  | wW | upg1 | upg2 => some M
  | _ => none

def waitsUp : PlPhase → Option Nat
  | wU1 | du1 => some 1
  | _ => none

end PlPhase

/-- the lock and its clients: `ph[t]` is the phase of task `t` -/
structure PlCfg where
  sem : FSem
  up : FSem
  ph : List PlPhase
deriving Repr, DecidableEq, Inhabited

namespace PlCfg

/-- `RawRwLock::INIT` with `n` idle client tasks -/
def init (M n : Nat) : PlCfg := { sem := { avail := M }, up := { avail := 1 }, ph := List.replicate n .idle }

def phase (c : PlCfg) (t : Nat) : PlPhase := (c.ph[t]?).getD .idle

def setPh (c : PlCfg) (t : Nat) (p : PlPhase) : PlCfg := { c with ph := c.ph.set t p }

/-- advance the tasks whose queued requests were granted -/
def advance (f : PlPhase → PlPhase) : List (Nat × Nat) → List PlPhase → List PlPhase
  | [], ph => ph
  | (t, _) :: gs, ph => advance f gs (ph.set t (f ((ph[t]?).getD .idle)))

/-- `sem.release(n)` by task `t`, which moves to phase `p` (before the grants are applied) -/
def relSem (c : PlCfg) (t : Nat) (p : PlPhase) (n : Nat) : PlCfg :=
  let r := c.sem.rel n
  { c with sem := r.1, ph := advance PlPhase.grantSem r.2 (c.ph.set t p) }

/-- `upgradable_sem.release(1)` by task `t`, which moves to phase `p` -/
def relUp (c : PlCfg) (t : Nat) (p : PlPhase) : PlCfg :=
  let r := c.up.rel 1
  { c with up := r.1, ph := advance PlPhase.grantUp r.2 (c.ph.set t p) }

/-- blocking acquire on `sem`: phase `ok` when the permits are taken at once, `wait` when queued -/
def acqSem (c : PlCfg) (t n : Nat) (ok wait : PlPhase) : PlCfg :=
  let r := c.sem.acq t n
  { c with sem := r.2, ph := c.ph.set t (if r.1 then ok else wait) }

def acqUp (c : PlCfg) (t : Nat) (ok wait : PlPhase) : PlCfg :=
  let r := c.up.acq t 1
  { c with up := r.2, ph := c.ph.set t (if r.1 then ok else wait) }

/-- One atomic step of task `t` (`none`: the step is not enabled — wrong guard, or the task is
queued).  A failing `try_*` returns the configuration unchanged. Mirrors raw_rwlock.rs:
which semaphore, which permit count, in which order. -/
def step (M : Nat) (c : PlCfg) (t : Nat) (a : PlAct) : Option PlCfg :=
  if t ≥ c.ph.length then none else
  match c.phase t, a with
  -- lock_shared / try_lock_shared / unlock_shared
  | .idle, .read => some (c.acqSem t 1 .hR .wR)
  | .idle, .tryRead =>
    match c.sem.tryAcq 1 with
    | some s => some { c with sem := s, ph := c.ph.set t .hR }
    | none => some c
  | .hR, .unread => some (c.relSem t .idle 1)
  -- lock_exclusive / try_lock_exclusive / unlock_exclusive
  | .idle, .write => some (c.acqSem t M .hW .wW)
  | .idle, .tryWrite =>
    match c.sem.tryAcq M with
    | some s => some { c with sem := s, ph := c.ph.set t .hW }
    | none => some c
  | .hW, .unwrite => some (c.relSem t .idle M)
  -- downgrade: release(MAX - 1)
  | .hW, .downgrade => some (c.relSem t .hR (M - 1))
  -- lock_upgradable: acquire(upgradable_sem, 1); acquire(sem, 1)
  | .idle, .upread => some (c.acqUp t .gU1 .wU1)
  | .gU1, .cont => some (c.acqSem t 1 .hU .wU2)
  -- try_lock_upgradable: try upgradable_sem; try sem; roll back
  | .idle, .tryUpread =>
    match c.up.tryAcq 1 with
    | some s => some { c with up := s, ph := c.ph.set t .tU1 }
    | none => some c
  | .tU1, .cont =>
    match c.sem.tryAcq 1 with
    | some s => some { c with sem := s, ph := c.ph.set t .hU }
    | none => some (c.setPh t .tU2)
  | .tU2, .cont => some (c.relUp t .idle)
  -- unlock_upgradable: sem.release(1); upgradable_sem.release(1)
  | .hU, .unupread => some (c.relSem t .unU 1)
  | .unU, .cont => some (c.relUp t .idle)
  -- upgrade: sem.upgrade(1, MAX) = poll an Acquire(MAX) once; release(1); then block_on; then
  -- upgradable_sem.release(1)
  | .hU, .upgrade => some (c.acqSem t M .bad .upg1)
  | .upg1, .cont => some (c.relSem t .upg2 1)
  | .upg3, .cont => some (c.relUp t .hW)
  -- try_upgrade: try_acquire(MAX - 1); upgradable_sem.release(1)
  | .hU, .tryUpgrade =>
    match c.sem.tryAcq (M - 1) with
    | some s => some { c with sem := s, ph := c.ph.set t .tupg }
    | none => some c
  | .tupg, .cont => some (c.relUp t .hW)
  -- downgrade_upgradable: upgradable_sem.release(1)
  | .hU, .toUpRead => some (c.relUp t .hR)
  -- downgrade_to_upgradable: acquire(upgradable_sem, 1) WHILE holding all of sem; release(MAX - 1)
  | .hW, .downUp => some (c.acqUp t .du2 .du1)
  | .du2, .cont => some (c.relSem t .hU (M - 1))
  | _, _ => none

/-- run a list of `(task, action)` steps; `none` as soon as one is not enabled -/
def run (M : Nat) : PlCfg → List (Nat × PlAct) → Option PlCfg
  | c, [] => some c
  | c, (t, a) :: rest =>
    match step M c t a with
    | some c' => run M c' rest
    | none => none

/-- no task can take a step: every task is idle-less and queued (`w…`, `upg2`, `du1`) -/
def stuck (c : PlCfg) : Bool :=
  c.ph.all fun p => match p with | .wR | .wW | .wU1 | .wU2 | .upg2 | .du1 => true | _ => false

end PlCfg

/-! ## `Prog` layer -/

structure PlMutexState where
  /-- `RawMutex::INIT`: `BatchSemaphore::const_new(1, Fairness::StrictlyFair)` -/
  sem : SemState := SemState.constNew 1 true
  value : Nat := 0
deriving Repr, Inhabited

structure PlRwLockState where
  /-- `BatchSemaphore::const_new(MAX_READERS, StrictlyFair)` -/
  sem : SemState := SemState.constNew PL_MAX true
  /-- `BatchSemaphore::const_new(1, StrictlyFair)` -/
  upSem : SemState := SemState.constNew 1 true
  value : Nat := 0
deriving Repr, Inhabited

namespace PlRaw
variable {U : Type}

/-- `RawRwLock::acquire` / the body of `RawMutex::lock`: `acquire_blocking(n).unwrap_or_else(|_| if
!thread::panicking() { unreachable!() })` -/
def acquire (L : Lens U SemState) (n : Nat) : Prog U Unit := do
  let ok ← Sem.acquireBlocking L n
  if ok then pure () else do
    let p ← K.isPanicking
    if p then pure () else K.panic "internal error: entered unreachable code"

/-- `sem.try_acquire(n).is_ok()` -/
def tryAcquire (L : Lens U SemState) (n : Nat) : Prog U Bool := do
  let r ← Sem.tryAcquire L n
  pure (match r with | .ok () => true | .error _ => false)

end PlRaw

namespace PlMutex
variable {U : Type}

def semL (L : Lens U PlMutexState) : Lens U SemState :=
  L.comp { get := (·.sem), set := fun s m => { m with sem := s } }

/-- `RawMutex::lock` -/
def lock (L : Lens U PlMutexState) : Prog U Unit := PlRaw.acquire (semL L) 1
/-- `RawMutex::try_lock` -/
def tryLock (L : Lens U PlMutexState) : Prog U Bool := PlRaw.tryAcquire (semL L) 1
/-- `RawMutex::unlock` -/
def unlock (L : Lens U PlMutexState) : Prog U Unit := Sem.release (semL L) 1

end PlMutex

namespace PlRwLock
variable {U : Type}

def semL (L : Lens U PlRwLockState) : Lens U SemState :=
  L.comp { get := (·.sem), set := fun s m => { m with sem := s } }
def upL (L : Lens U PlRwLockState) : Lens U SemState :=
  L.comp { get := (·.upSem), set := fun s m => { m with upSem := s } }

def lockShared (L : Lens U PlRwLockState) : Prog U Unit := PlRaw.acquire (semL L) 1
def tryLockShared (L : Lens U PlRwLockState) : Prog U Bool := PlRaw.tryAcquire (semL L) 1
def unlockShared (L : Lens U PlRwLockState) : Prog U Unit := Sem.release (semL L) 1

def lockExclusive (L : Lens U PlRwLockState) : Prog U Unit := PlRaw.acquire (semL L) PL_MAX
def tryLockExclusive (L : Lens U PlRwLockState) : Prog U Bool := PlRaw.tryAcquire (semL L) PL_MAX
def unlockExclusive (L : Lens U PlRwLockState) : Prog U Unit := Sem.release (semL L) PL_MAX

/-- `RawRwLockDowngrade::downgrade` -/
def downgrade (L : Lens U PlRwLockState) : Prog U Unit := Sem.release (semL L) (PL_MAX - 1)

/-- `lock_upgradable`: the upgradable slot first, then a shared permit -/
def lockUpgradable (L : Lens U PlRwLockState) : Prog U Unit := do
  PlRaw.acquire (upL L) 1
  PlRaw.acquire (semL L) 1

/-- `try_lock_upgradable`, with the rollback of the upgradable slot -/
def tryLockUpgradable (L : Lens U PlRwLockState) : Prog U Bool := do
  let a ← PlRaw.tryAcquire (upL L) 1
  if !a then pure false else do
    let b ← PlRaw.tryAcquire (semL L) 1
    if !b then do
      Sem.release (upL L) 1
      pure false
    else pure true

/-- `unlock_upgradable` -/
def unlockUpgradable (L : Lens U PlRwLockState) : Prog U Unit := do
  Sem.release (semL L) 1
  Sem.release (upL L) 1

/-- `upgrade`: `block_on(sem.upgrade(1, MAX_READERS))`, then release the upgradable slot -/
def upgrade (L : Lens U PlRwLockState) : Prog U Unit := do
  let wid ← Sem.upgrade (semL L) 1 PL_MAX
  let ok ← Sem.blockOnAcquire (semL L) wid Sem.loopFuel
  (if ok then pure () else do
    let p ← K.isPanicking
    if p then pure () else K.panic "internal error: entered unreachable code" : Prog U Unit)
  Sem.release (upL L) 1

/-- `try_upgrade` -/
def tryUpgrade (L : Lens U PlRwLockState) : Prog U Bool := do
  let a ← PlRaw.tryAcquire (semL L) (PL_MAX - 1)
  if a then do
    Sem.release (upL L) 1
    pure true
  else pure false

/-- `downgrade_upgradable` -/
def downgradeUpgradable (L : Lens U PlRwLockState) : Prog U Unit := Sem.release (upL L) 1

/-- `downgrade_to_upgradable`: acquires `upgradable_sem` while holding all of `sem` -/
def downgradeToUpgradable (L : Lens U PlRwLockState) : Prog U Unit := do
  PlRaw.acquire (upL L) 1
  Sem.release (semL L) (PL_MAX - 1)

end PlRwLock

/-! ## rand wrapper (wrappers/shuttle_rand_0.8): every RNG type forwards to `ExecutionState::next_u64` -/

namespace WRand
variable {U : Type}

/-- `UniformInt::<uN>::sample_single(0, 4)` of rand 0.8 (`range = 4`, `zone = (4 << lz) - 1`):
draw until bit `bits - 3` of the sample is clear; the result is its top two bits -/
def range4 (bits : Nat) : Nat → Prog U Nat
  | 0 => K.panic "model: gen_range fuel exhausted"
  | fuel + 1 => do
    let d ← K.rand
    let v := d % 2 ^ bits
    if (v * 4) % 2 ^ bits ≤ 2 ^ (bits - 1) - 1 then pure (v / 2 ^ (bits - 2)) else range4 bits fuel

/-- `wrand <kind>` of the harness: the value before `% 4` -/
def op (kind : String) : Prog U Nat := do
  match kind with
  | "u64" | "random" | "std" | "entropy" | "default" => K.rand
  | "u32" | "seed" => do let d ← K.rand; pure (d % 2 ^ 32)
  -- `Standard` for `bool`: `(rng.next_u32() as i32) < 0`
  | "bool" => do let d ← K.rand; pure ((d / 2 ^ 31) % 2)
  | "range" => range4 64 1000
  -- `SliceRandom::choose` on 4 elements: `gen_range(0..4u32)`
  | "choose" => range4 32 1000
  -- `fill_bytes_via_next` on 12 bytes: one `next_u64`, then one `next_u32` for the last 4
  | "fill" => do
    let a ← K.rand
    let b ← K.rand
    pure (a % 256 + b % 256)
  | other => K.panic s!"model: unknown wrand kind {other}"

end WRand
end ShuttleModel
