import ShuttleModel.Wrap.TokioBase
/-
  tokio::sync::mpsc under Shuttle — transcription of
  wrappers/tokio/impls/tokio/inner/src/sync/mpsc.rs (`Channel`, `ReceiverInternal`,
  `SenderInternal`; the bounded and unbounded front ends only forward).

  Two strictly fair `BatchSemaphore`s: `recv_semaphore` (one permit per queued message, closed when
  the last sender left an empty channel) and `send_semaphore` (`bound` permits, `usize::MAX` for an
  unbounded channel whose senders never touch it; closed = the channel is closed for sending).

  * pure transitions: `push` (`Channel::send`), `pop` (`Channel::recv` without its `close`),
    `cloneSenderPure`, `dropSenderPure`, `takeMessages`;
  * `Prog` wrappers with the scheduling points of the Rust code: `recv` / `tryRecv` /
    `blockingRecv` / `closeRx` / `dropReceiver` / `send` / `trySend` / `capacity` / `cloneSender` /
    `dropSender`.

  `fixedF4` selects the repaired `blocking_recv` (gives the capacity slot back like `recv` and
  `try_recv` do); the tree as it is has `fixedF4 = false` (mpsc.rs:254-261).

  Harness view of the handles (harness/src/tokio.rs): every channel object keeps a pool of `Sender`
  handles (`txCount`; `tclone_tx` pushes a clone, `tdrop_tx` pops and drops the LAST one — refused
  with `busy` while it is the only one and a send is in flight on it, `txBusy`) and one `Receiver`
  slot (`rxPresent`): a receiver operation takes the receiver out of the slot for its duration
  (another task sees `norecv` meanwhile) and puts it back; `tdrop_rx` takes it out and drops it.
-/
namespace ShuttleModel
namespace Tokio

/-- `Channel<T>` + `ChannelState<T>` (+ the harness's handle pool) -/
structure TMpsc where
  bound : Option Nat
  recvSem : SemState
  sendSem : SemState
  messages : List Nat := []
  knownSenders : Nat := 1
  txCount : Nat := 1
  txBusy : Nat := 0
  rxPresent : Bool := true
  /-- which `blocking_recv` this channel runs: the tree's (false, F4) or the repaired one (object
  declared as `tmpsc cap:<k> fixedF4`, for runs against a patched crate) -/
  fixedF4 : Bool := false
deriving Repr, Inhabited

def usizeMax : Nat := 2 ^ 64 - 1

namespace TMpsc

/-- `Channel::new(bound)` (run by task 0 at the start of the test body: clock `[0]`) -/
def new (bound : Option Nat) (c : Clock) : TMpsc :=
  { bound := bound
    recvSem := SemState.new 0 true c
    sendSem := SemState.new (bound.getD usizeMax) true c }

def isClosed (s : TMpsc) : Bool := s.sendSem.closed
def isBounded (s : TMpsc) : Bool := s.bound.isSome

inductive PushRes where
  | ok (s : TMpsc)
  | closed
  | overflow          -- `assert!(state.messages.len() < bound)`
deriving Repr, Inhabited

/-- `Channel::send` -/
def push (s : TMpsc) (v : Nat) : PushRes :=
  if s.isClosed then .closed
  else match s.bound with
    | some b => if s.messages.length < b then .ok { s with messages := s.messages ++ [v] } else .overflow
    | none => .ok { s with messages := s.messages ++ [v] }

/-- `Channel::recv` up to its `close`: the message, the new state, and whether
`recv_semaphore.close()` follows (last message of a channel without senders) -/
def pop (s : TMpsc) : Option (Nat × TMpsc × Bool) :=
  match s.messages with
  | [] => none
  | m :: rest => some (m, { s with messages := rest }, rest.isEmpty && s.knownSenders == 0)

/-- `Clone for SenderInternal` -/
def cloneSenderPure (s : TMpsc) : TMpsc := { s with knownSenders := s.knownSenders + 1 }

/-- first block of `Channel::drop_sender`: `Err` = `assert!(state.known_senders > 0)` -/
def dropSenderPure (s : TMpsc) : Except String (TMpsc × Bool) :=
  if s.knownSenders = 0 then .error "assertion failed: state.known_senders > 0"
  else .ok ({ s with knownSenders := s.knownSenders - 1 }, s.knownSenders - 1 == 0)

/-- `std::mem::take(&mut state.messages)` of `drop_receiver` -/
def takeMessages (s : TMpsc) : TMpsc := { s with messages := [] }

end TMpsc

variable {U : Type}

def recvSemL (L : Lens U TMpsc) : Lens U SemState :=
  L.comp { get := (·.recvSem), set := fun x s => { s with recvSem := x } }
def sendSemL (L : Lens U TMpsc) : Lens U SemState :=
  L.comp { get := (·.sendSem), set := fun x s => { s with sendSem := x } }

namespace Mpsc

/-- `Channel::recv` -/
def chanRecv (L : Lens U TMpsc) : Prog U (Option Nat) := do
  let s ← K.getL L
  match s.pop with
  | none => pure none
  | some (m, s', closeRecv) =>
    K.setL L s'
    if closeRecv then Sem.close (recvSemL L) else pure ()
    pure (some m)

/-- `ReceiverInternal::recv` (async): `none` = cancelled while pending, `some none` = `None` -/
def recv (mode : AwaitMode) (L : Lens U TMpsc) : Prog U (Option (Option Nat)) := do
  let s ← K.getL L
  if s.isClosed && s.messages.isEmpty then pure (some none) else do
  let r ← awaitAcquire mode (recvSemL L) 1
  match r with
  | none => pure none
  | some false => pure (some none)                 -- `.ok()?`
  | some true =>
    let m ← chanRecv L
    match m with
    | none => pure (some none)                     -- `self.chan.recv()?`
    | some v =>
      let s ← K.getL L
      if s.isBounded then Sem.release (sendSemL L) 1 else pure ()
      pure (some (some v))

inductive TryRecvRes where
  | ok (v : Nat)
  | empty
  | disconnected
deriving Repr, DecidableEq, Inhabited

/-- `ReceiverInternal::try_recv` -/
def tryRecv (L : Lens U TMpsc) : Prog U TryRecvRes := do
  let r ← Sem.tryAcquire (recvSemL L) 1
  match r with
  | .error .closed => pure .disconnected
  | .error .noPermits => pure .empty
  | .ok () =>
    let m ← chanRecv L
    match m with
    | none => K.panic "Internal Shuttle error. We acquired a permit for an empty channel. This should never happen."
    | some v =>
      let s ← K.getL L
      if s.isBounded then Sem.release (sendSemL L) 1 else pure ()
      pure (.ok v)

/-- `ReceiverInternal::blocking_recv` — as it is (F4: no `send_semaphore.release(1)`), or repaired -/
def blockingRecv (fixedF4 : Bool) (L : Lens U TMpsc) : Prog U (Option Nat) := do
  let s ← K.getL L
  if s.isClosed && s.messages.isEmpty then pure none else do
  let ok ← Sem.acquireBlocking (recvSemL L) 1
  if !ok then pure none else do
  let m ← chanRecv L
  match m with
  | none => pure none
  | some v =>
    if fixedF4 then do
      let s ← K.getL L
      if s.isBounded then Sem.release (sendSemL L) 1 else pure ()
    else pure ()
    pure (some v)

/-- `ReceiverInternal::close` = `Channel::close` -/
def closeRx (L : Lens U TMpsc) : Prog U Unit := Sem.close (sendSemL L)

/-- `Channel::drop_receiver` -/
def dropReceiver (L : Lens U TMpsc) : Prog U Unit := do
  Sem.close (sendSemL L)
  let s ← K.getL L
  K.setL L s.takeMessages

/-- `SenderInternal::send` (async; also `blocking_send` and `UnboundedSender::send`, which are
`block_on` of it): `none` = cancelled, `some true` = `Ok(())`, `some false` = `Err(SendError)` -/
def send (mode : AwaitMode) (L : Lens U TMpsc) (v : Nat) : Prog U (Option Bool) := do
  let s ← K.getL L
  let go : Prog U (Option Bool) := do
    let s ← K.getL L
    match s.push v with
    | .closed => pure (some false)
    | .overflow => K.panic "assertion failed: state.messages.len() < bound"
    | .ok s' =>
      K.setL L s'
      Sem.release (recvSemL L) 1
      pure (some true)
  if s.isBounded then do
    let r ← awaitAcquire mode (sendSemL L) 1
    match r with
    | none => pure none
    | some false => pure (some false)
    | some true => go
  else go

inductive TrySendRes where
  | ok
  | full
  | closed
deriving Repr, DecidableEq, Inhabited

/-- `SenderInternal::try_send` -/
def trySend (L : Lens U TMpsc) (v : Nat) : Prog U TrySendRes := do
  let r ← Sem.tryAcquire (sendSemL L) 1
  match r with
  | .error .closed => pure .closed
  | .error .noPermits => pure .full
  | .ok () =>
    let s ← K.getL L
    match s.push v with
    | .closed => pure .closed               -- `self.chan.send(message)?`
    | .overflow => K.panic "assertion failed: state.messages.len() < bound"
    | .ok s' =>
      K.setL L s'
      Sem.release (recvSemL L) 1
      pure .ok

/-- `SenderInternal::capacity` -/
def capacity (L : Lens U TMpsc) : Prog U Nat := do
  let s ← K.getL L
  pure s.sendSem.avail

/-- `Clone for SenderInternal` -/
def cloneSender (L : Lens U TMpsc) : Prog U Unit := do
  let s ← K.getL L
  K.setL L s.cloneSenderPure

/-- `Channel::drop_sender` -/
def dropSender (L : Lens U TMpsc) : Prog U Unit := do
  let s ← K.getL L
  match s.dropSenderPure with
  | .error msg => K.panic msg
  | .ok (s', last) =>
    K.setL L s'
    if last then do
      Sem.close (sendSemL L)
      let s ← K.getL L
      if s.messages.isEmpty then Sem.closeNoSwitch (recvSemL L) else pure ()
    else pure ()

end Mpsc

/-! ### the harness operations (`harness/src/tokio.rs`, `mpsc_op`) -/

namespace Mpsc

def optStr : Option Nat → String
  | some v => s!"v:{v}"
  | none => "none"

/-- run a sender operation on pool sender 0 -/
def withSender (L : Lens U TMpsc) (body : Prog U String) : Prog U String := do
  let s ← K.getL L
  if s.txCount = 0 then pure "nosender" else do
  K.setL L { s with txBusy := s.txBusy + 1 }
  let r ← body
  let s ← K.getL L
  K.setL L { s with txBusy := s.txBusy - 1 }
  pure r

/-- run a receiver operation with the receiver taken out of its slot -/
def withReceiver (L : Lens U TMpsc) (body : Prog U (String × Bool)) : Prog U String := do
  let s ← K.getL L
  if !s.rxPresent then pure "norecv" else do
  K.setL L { s with rxPresent := false }
  let (r, putBack) ← body
  if putBack then do
    let s ← K.getL L
    K.setL L { s with rxPresent := true }
  else pure ()
  pure r

/-- one mpsc operation of the IR; `mode = once` for `t_poll_once <op>` -/
def op (mode : AwaitMode) (L : Lens U TMpsc) (name : String) (v : Nat) : Prog U String :=
  match name with
  | "tsend" | "tblocking_send" => do
    let s ← K.getL L
    if name == "tblocking_send" && !s.isBounded then pure "na" else
    withSender L (do
      let r ← send mode L v
      pure (match r with | none => "pending-dropped" | some true => "ok" | some false => "err:closed"))
  | "ttry_send" => do
    let s ← K.getL L
    if !s.isBounded then pure "na" else
    withSender L (do
      let r ← trySend L v
      pure (match r with | .ok => "ok" | .full => "err:full" | .closed => "err:closed"))
  | "tcapacity" => do
    let s ← K.getL L
    if !s.isBounded then pure "na" else
    withSender L (do let c ← capacity L; pure s!"v:{c}")
  | "tclone_tx" => do
    let s ← K.getL L
    if s.txCount = 0 then pure "nosender" else do
    cloneSender L
    let s ← K.getL L
    K.setL L { s with txCount := s.txCount + 1 }
    pure "ok"
  | "tdrop_tx" => do
    let s ← K.getL L
    if s.txCount = 0 then pure "nosender"
    else if s.txCount = 1 && s.txBusy > 0 then pure "busy"
    else do
      K.setL L { s with txCount := s.txCount - 1 }
      dropSender L
      pure "ok"
  | "trecv" => withReceiver L (do
      let r ← recv mode L
      pure (match r with | none => "pending-dropped" | some x => optStr x, true))
  | "ttry_recv" => withReceiver L (do
      let r ← tryRecv L
      pure (match r with | .ok v => s!"v:{v}" | .empty => "err:empty" | .disconnected => "err:disconnected", true))
  | "tblocking_recv" => withReceiver L (do
      let s ← K.getL L
      let r ← blockingRecv s.fixedF4 L
      pure (optStr r, true))
  | "tclose" => withReceiver L (do closeRx L; pure ("ok", true))
  | "tlen" => withReceiver L (do let s ← K.getL L; pure (s!"v:{s.messages.length}", true))
  | "tdrop_rx" => withReceiver L (do dropReceiver L; pure ("ok", false))
  | other => K.panic s!"model: unknown mpsc op {other}"

end Mpsc

end Tokio
end ShuttleModel
