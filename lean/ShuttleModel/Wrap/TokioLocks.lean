import ShuttleModel.Wrap.TokioBase
/-
  tokio::sync::{Mutex, RwLock, Semaphore} under Shuttle — transcription of
  wrappers/tokio/impls/tokio/inner/src/sync/{mutex.rs,rwlock.rs,semaphore.rs}: each is ONE strictly
  fair `BatchSemaphore`.

  * `Mutex`: 1 permit; `lock().await` = `acquire(1).await`, `try_lock` = `try_acquire(1)`, the
    guard's drop = `release(1)`.
  * `RwLock`: `max_readers` permits (`usize::MAX >> 3` by default); read = 1 permit, write = all of
    them, `downgrade` = `release(max_readers - 1)`.
  * `Semaphore`: `acquire_many(n)` = `acquire(n).await`; a permit's drop = `add_permits(n)` =
    `release(n)`; `forget` sets `permits = 0` and then DROPS the permit: `release(0)`, which is still
    a scheduling point (batch_semaphore.rs:614-620).

  Harness view: guards / permits are kept inside the object, tagged with the body that obtained
  them (`guards`, `permits`, acquisition order); `tm_unlock` / `tr_unread` / `tr_unwrite` /
  `ts_release` / `ts_forget` act on the most recent one of the calling body.  Nothing is released
  implicitly at the end of a body.
-/
namespace ShuttleModel
namespace Tokio

def maxReaders : Nat := (2 ^ 64 - 1) / 8

structure TMutex where
  sem : SemState
  value : Nat := 0
  /-- bodies holding a `MutexGuard`, acquisition order -/
  guards : List Nat := []
deriving Repr, Inhabited

structure TRwLock where
  sem : SemState
  maxReaders : Nat
  value : Nat := 0
  /-- (body, isWrite) -/
  guards : List (Nat × Bool) := []
deriving Repr, Inhabited

structure TSem where
  sem : SemState
  /-- (body, permits) of the live `SemaphorePermit`s -/
  permits : List (Nat × Nat) := []
deriving Repr, Inhabited

def TMutex.new (v : Nat) (c : Clock) : TMutex := { sem := SemState.new 1 true c, value := v }
def TRwLock.new (v : Nat) (maxr : Nat) (c : Clock) : TRwLock :=
  { sem := SemState.new maxr true c, maxReaders := maxr, value := v }
def TSem.new (n : Nat) (c : Clock) : TSem := { sem := SemState.new n true c }

variable {U : Type}

/-- index of the most recent entry satisfying `p` -/
def lastIdx {α : Type} (l : List α) (p : α → Bool) : Option Nat :=
  (l.zipIdx.reverse.find? (fun e => p e.1)).map (·.2)

namespace Locks

def mSemL (L : Lens U TMutex) : Lens U SemState :=
  L.comp { get := (·.sem), set := fun x s => { s with sem := x } }
def rSemL (L : Lens U TRwLock) : Lens U SemState :=
  L.comp { get := (·.sem), set := fun x s => { s with sem := x } }
def sSemL (L : Lens U TSem) : Lens U SemState :=
  L.comp { get := (·.sem), set := fun x s => { s with sem := x } }

/-- `Mutex::lock().await` / `RwLock::read().await` / `RwLock::write().await`: the `Err(closed)` arm
is `unreachable!()` unless the thread is panicking -/
def lockAcquire (mode : AwaitMode) (S : Lens U SemState) (n : Nat) : Prog U (Option Unit) := do
  let r ← awaitAcquire mode S n
  match r with
  | none => pure none
  | some true => pure (some ())
  | some false =>
    let p ← K.isPanicking
    if p then pure (some ()) else K.panic "internal error: entered unreachable code"

/-- `try_lock` / `try_read` / `try_write` -/
def lockTry (S : Lens U SemState) (n : Nat) (closedUnreachable : Bool) : Prog U Bool := do
  let r ← Sem.tryAcquire S n
  match r with
  | .ok () => pure true
  | .error .noPermits => pure false
  | .error .closed =>
    if closedUnreachable then do
      let p ← K.isPanicking
      if p then pure false else K.panic "internal error: entered unreachable code"
    else pure false

def mutexOp (mode : AwaitMode) (L : Lens U TMutex) (k : Nat) (name : String) (v : Nat) : Prog U String :=
  match name with
  | "tm_lock" => do
    let r ← lockAcquire mode (mSemL L) 1
    match r with
    | none => pure "pending-dropped"
    | some () =>
      let s ← K.getL L
      K.setL L { s with guards := s.guards ++ [k] }
      pure s!"v:{s.value}"
  | "tm_try_lock" => do
    -- `Mutex::try_lock` maps every error to `TryLockError`
    let ok ← lockTry (mSemL L) 1 false
    if ok then do
      let s ← K.getL L
      K.setL L { s with guards := s.guards ++ [k] }
      pure s!"v:{s.value}"
    else pure "wouldblock"
  | "tm_set" => do
    let s ← K.getL L
    if s.guards.contains k then do K.setL L { s with value := v }; pure "ok" else pure "noguard"
  | "tm_unlock" => do
    let s ← K.getL L
    match lastIdx s.guards (· == k) with
    | none => pure "noguard"
    | some i =>
      K.setL L { s with guards := s.guards.eraseIdx i }
      Sem.release (mSemL L) 1
      pure "ok"
  | other => K.panic s!"model: unknown tokio mutex op {other}"

def rwlockOp (mode : AwaitMode) (L : Lens U TRwLock) (k : Nat) (name : String) (v : Nat) : Prog U String := do
  let s0 ← K.getL L
  let maxr := s0.maxReaders
  let push (w : Bool) : Prog U String := do
    let s ← K.getL L
    K.setL L { s with guards := s.guards ++ [(k, w)] }
    pure s!"v:{s.value}"
  match name with
  | "tr_read" | "tr_write" => do
    let w := name == "tr_write"
    let r ← lockAcquire mode (rSemL L) (if w then maxr else 1)
    match r with
    | none => pure "pending-dropped"
    | some () => push w
  | "tr_try_read" | "tr_try_write" => do
    let w := name == "tr_try_write"
    let ok ← lockTry (rSemL L) (if w then maxr else 1) true
    if ok then push w else pure "wouldblock"
  | "tr_set" =>
    if s0.guards.contains (k, true) then do K.setL L { s0 with value := v }; pure "ok" else pure "noguard"
  | "tr_unread" | "tr_unwrite" => do
    let w := name == "tr_unwrite"
    match lastIdx s0.guards (· == (k, w)) with
    | none => pure "noguard"
    | some i =>
      K.setL L { s0 with guards := s0.guards.eraseIdx i }
      Sem.release (rSemL L) (if w then maxr else 1)
      pure "ok"
  | "tr_downgrade" =>
    match lastIdx s0.guards (· == (k, true)) with
    | none => pure "noguard"
    | some i =>
      K.setL L { s0 with guards := (s0.guards.eraseIdx i) ++ [(k, false)] }
      Sem.release (rSemL L) (maxr - 1)
      pure "ok"
  | other => K.panic s!"model: unknown tokio rwlock op {other}"

def semOp (mode : AwaitMode) (L : Lens U TSem) (k : Nat) (name : String) (n : Nat) : Prog U String := do
  match name with
  | "ts_acquire" => do
    let r ← awaitAcquire mode (sSemL L) n
    match r with
    | none => pure "pending-dropped"
    | some false => pure "closed"
    | some true =>
      let s ← K.getL L
      K.setL L { s with permits := s.permits ++ [(k, n)] }
      pure "ok"
  | "ts_try_acquire" => do
    let r ← Sem.tryAcquire (sSemL L) n
    match r with
    | .ok () =>
      let s ← K.getL L
      K.setL L { s with permits := s.permits ++ [(k, n)] }
      pure "ok"
    | .error .noPermits => pure "nopermits"
    | .error .closed => pure "closed"
  | "ts_release" | "ts_forget" => do
    let s ← K.getL L
    match lastIdx s.permits (·.1 == k) with
    | none => pure "nopermit"
    | some i =>
      let p := ((s.permits[i]?).map (·.2)).getD 0
      K.setL L { s with permits := s.permits.eraseIdx i }
      Sem.release (sSemL L) (if name == "ts_forget" then 0 else p)
      pure "ok"
  | "ts_add" => do Sem.release (sSemL L) n; pure "ok"
  | "ts_close" => do Sem.close (sSemL L); pure "ok"
  | "ts_avail" => do let s ← K.getL L; pure s!"v:{s.sem.avail}"
  | "ts_is_closed" => do let s ← K.getL L; pure (if s.sem.closed then "true" else "false")
  | other => K.panic s!"model: unknown tokio semaphore op {other}"

end Locks
end Tokio
end ShuttleModel
