/-
  The DashMap/DashSet shim of `wrappers/dashmap/dashmap_impl` (`src/lib.rs`, `src/set.rs`):
  ONE `shuttle::sync::RwLock` around ONE deterministic `HashMap`; every operation is

        acquire the lock (read or write mode)  ;  a pure std-map computation  ;  release the lock.

  `lockMode` is the table "which lock mode does each method take", `dashOp` the pure computation, both read off
  the source:

      write : insert get_mut try_get_mut remove remove_if remove_if_mut entry(+or_insert/and_modify/remove/
              replace_entry_with) try_entry iter_mut clear shrink_to_fit retain alter alter_all  (+ `Extend`)
      read  : get try_get iter len is_empty capacity contains_key view  (+ `Clone`)

  The `try_*` methods return `Locked` instead of blocking when the lock is not available; a locked-out call has
  no effect on the map (`evalEv`).  Guards (`Ref`, `RefMut`, `Entry`, iterators) keep the lock until dropped;
  the model treats "call + use of the guard + drop" as the one operation (the closure arguments `f`, `p` stand for
  what the caller does through the guard).

  `DashSet<K>` is `DashMap<K, ()>` (set.rs forwards every method), so it needs no table of its own:
  `insert k = (insert k ()).is_none()`, `remove`, `remove_if`, `get`, `contains`, `iter`, `len`, `is_empty`,
  `clear`, `retain` map to the rows below with `V = Unit`.

  `Conc` is the concurrent semantics used by the linearizability theorem (C20Coll.lean): tasks run their op lists,
  a schedule picks which task moves next, an operation is two moves (acquire ; effect+release) and the lock admits
  either one writer or any number of readers.

  Core Lean only.
-/
import ShuttleModel.Wrap.DetMap

namespace ShuttleModel.DashMap
open ShuttleModel.DetMap

variable {K V : Type} [DecidableEq K]

inductive LockMode where
  | read
  | write
deriving DecidableEq, Repr

/-- the methods of the shim (closures are parameters) -/
inductive Op (K V : Type) where
  | insert (k : K) (v : V)
  | get (k : K)
  | getMut (k : K) (f : V → V)                 -- `get_mut` + `*guard = f(*guard)`
  | tryGet (k : K)
  | tryGetMut (k : K) (f : V → V)
  | remove (k : K)
  | removeIf (k : K) (p : K → V → Bool)
  | removeIfMut (k : K) (f : V → V) (p : K → V → Bool)   -- closure mutates (f) then decides (p on the new value)
  | entryOrInsert (k : K) (v : V)              -- `entry(k).or_insert(v)`
  | entryModifyOrInsert (k : K) (f : V → V) (v : V)   -- `entry(k).and_modify(f).or_insert(v)`
  | entryRemove (k : K)                        -- `entry(k)` then `Occupied::remove_entry`
  | tryEntryOrInsert (k : K) (v : V)
  | iter
  | iterMut (f : K → V → V)
  | len
  | isEmpty
  | clear
  | shrinkToFit
  | containsKey (k : K)
  | retain (p : K → V → Bool)
  | alter (k : K) (f : K → V → V)
  | alterAll (f : K → V → V)
  | view (k : K)

inductive Res (K V : Type) where
  | optVal (o : Option V)
  | optPair (o : Option (K × V))
  | bool (b : Bool)
  | nat (n : Nat)
  | unit
  | pairs (l : List (K × V))       -- what an iterator yields (as a collection; order = the map's order)
  | locked                         -- `TryResult::Locked` / `try_entry` = `None`
deriving DecidableEq, Repr

/-- which mode of the single RwLock the method takes -/
def lockMode : Op K V → LockMode
  | .get _ | .tryGet _ | .iter | .len | .isEmpty | .containsKey _ | .view _ => .read
  | .insert _ _ | .getMut _ _ | .tryGetMut _ _ | .remove _ | .removeIf _ _ | .removeIfMut _ _ _
  | .entryOrInsert _ _ | .entryModifyOrInsert _ _ _ | .entryRemove _ | .tryEntryOrInsert _ _
  | .iterMut _ | .clear | .shrinkToFit | .retain _ | .alter _ _ | .alterAll _ => .write

/-- does the method give up (`Locked`) instead of blocking? -/
def isTry : Op K V → Bool
  | .tryGet _ | .tryGetMut _ _ | .tryEntryOrInsert _ _ => true
  | _ => false

/-- update the value under `k` (if any) with `f` -/
def modify (k : K) (f : V → V) (m : Entries K V) : Entries K V :=
  match lookup k m with
  | some v => replaceVal k (f v) m
  | none => m

/-- the pure std-map computation performed under the lock -/
def dashOp (op : Op K V) (m : Entries K V) : Res K V × Entries K V :=
  match op with
  | .insert k v => let r := DetMap.insert k v m; (.optVal r.1, r.2)
  | .get k | .tryGet k | .view k => (.optVal (lookup k m), m)
  | .getMut k f | .tryGetMut k f => (.optVal (lookup k m), modify k f m)
  | .remove k | .entryRemove k => (.optPair ((lookup k m).map (fun v => (k, v))), eraseKey k m)
  | .removeIf k p =>
      -- `remove_entry`; if `!f(&k,&v)` re-`insert`
      match lookup k m with
      | some v => if p k v then (.optPair (some (k, v)), eraseKey k m)
                  else (.optPair none, eraseKey k m ++ [(k, v)])
      | none => (.optPair none, m)
  | .removeIfMut k f p =>
      match lookup k m with
      | some v => if p k (f v) then (.optPair (some (k, f v)), eraseKey k m)
                  else (.optPair none, eraseKey k m ++ [(k, f v)])
      | none => (.optPair none, m)
  | .entryOrInsert k v | .tryEntryOrInsert k v =>
      match lookup k m with
      | some old => (.optVal (some old), m)
      | none => (.optVal (some v), m ++ [(k, v)])
  | .entryModifyOrInsert k f v =>
      match lookup k m with
      | some old => (.optVal (some (f old)), replaceVal k (f old) m)
      | none => (.optVal (some v), m ++ [(k, v)])
  | .iter => (.pairs m, m)
  | .iterMut f => (.nat m.length, m.map (fun e => (e.1, f e.1 e.2)))
  | .len => (.nat m.length, m)
  | .isEmpty => (.bool m.isEmpty, m)
  | .clear => (.unit, [])
  | .shrinkToFit => (.unit, m)
  | .containsKey k => (.bool (lookup k m).isSome, m)
  | .retain p => (.unit, retain p m)
  | .alter k f =>
      -- `remove_entry` + `insert(k, f(&k, v))`
      match lookup k m with
      | some v => (.unit, eraseKey k m ++ [(k, f k v)])
      | none => (.unit, m)
  | .alterAll f => (.unit, m.map (fun e => (e.1, f e.1 e.2)))

/-- a completed call: the op and whether it was locked out (only possible for `try_*`) -/
abbrev Ev (K V : Type) := Op K V × Bool

def evalEv (e : Ev K V) (m : Entries K V) : Res K V × Entries K V :=
  if e.2 then (.locked, m) else dashOp e.1 m

/-- the plain map under a linear order of events: results and final contents -/
def seqRun : List (Ev K V) → Entries K V → List (Res K V) × Entries K V
  | [], m => ([], m)
  | e :: es, m =>
      let r := evalEv e m
      let rest := seqRun es r.2
      (r.1 :: rest.1, rest.2)

/-! ### concurrent semantics -/

/-- a task inside the lock: (task, sequence number of its acquisition, op) -/
abbrev Holder (K V : Type) := Nat × Nat × Op K V

structure Conc (K V : Type) where
  map : Entries K V
  holders : List (Holder K V)
  rest : Nat → List (Op K V)                       -- remaining program of each task
  acq : List (Nat × Ev K V)                        -- (task, event) in lock-acquisition order
  done : List (Nat × Nat × Op K V × Res K V)       -- (seq no, task, op, result) in completion order

/-- RwLock admission: a writer needs the lock free, a reader needs no writer inside -/
def canAcquire (mode : LockMode) (hs : List (Holder K V)) : Bool :=
  match mode with
  | .write => hs.isEmpty
  | .read => hs.all (fun h => lockMode h.2.2 == .read)

def setRest (rest : Nat → List (Op K V)) (t : Nat) (os : List (Op K V)) : Nat → List (Op K V) :=
  fun t' => if t' = t then os else rest t'

/-- one move of task `t` -/
def step (t : Nat) (σ : Conc K V) : Conc K V :=
  match σ.holders.find? (fun h => h.1 == t) with
  | some h =>
      -- inside the lock: perform the computation on the shared map, publish the result, release
      let r := dashOp h.2.2 σ.map
      { σ with map := r.2,
               holders := σ.holders.filter (fun h' => h'.1 != t),
               done := σ.done ++ [(h.2.1, t, h.2.2, r.1)] }
  | none =>
      match σ.rest t with
      | [] => σ
      | o :: os =>
          if canAcquire (lockMode o) σ.holders then
            { σ with holders := σ.holders ++ [(t, σ.acq.length, o)],
                     acq := σ.acq ++ [(t, (o, false))],
                     rest := setRest σ.rest t os }
          else if isTry o then
            -- `try_*`: give up at once, no effect
            { σ with acq := σ.acq ++ [(t, (o, true))],
                     done := σ.done ++ [(σ.acq.length, t, o, .locked)],
                     rest := setRest σ.rest t os }
          else σ   -- blocked

/-- run a schedule (a list of task ids) -/
def runSched : List Nat → Conc K V → Conc K V
  | [], σ => σ
  | t :: ts, σ => runSched ts (step t σ)

def Conc.init (progs : Nat → List (Op K V)) (m0 : Entries K V) : Conc K V :=
  { map := m0, holders := [], rest := progs, acq := [], done := [] }

end ShuttleModel.DashMap
