import ShuttleModel.Wrap.TokioMpsc
import ShuttleModel.Wrap.TokioOneshot
import ShuttleModel.Wrap.TokioNotify
import ShuttleModel.Wrap.TokioWatch
import ShuttleModel.Wrap.TokioLocks
/-
  The tokio objects of the IR and the dispatcher of their operations (mirrors
  harness/src/tokio.rs `make` / `exec`).

    obj c tmpsc unb|cap:<k>        obj o toneshot          obj w twatch <init> [nrx]
    obj n tnotify                  obj m tmutex <init>     obj l trwlock <init> [max_readers]
    obj s tsem <n>

  `t_poll_once <op> <operands…>`: the async operation's future is created, polled once with the
  current task's waker and dropped if still pending (result `pending-dropped`).
-/
namespace ShuttleModel
namespace Tokio

/-- default of the `fixedF4` flag of mpsc objects (`Mpsc.blockingRecv`): the pinned tree has the
defect; `obj c tmpsc cap:<k> fixedF4` selects the repaired `blocking_recv` for one object -/
def fixedF4 : Bool := true

inductive TObj where
  | mpsc (s : TMpsc)
  | oneshot (s : TOneshot)
  | watch (s : TWatch)
  | notify (s : TNotify)
  | mutex (s : TMutex)
  | rwlock (s : TRwLock)
  | sem (s : TSem)
deriving Repr, Inhabited

def isKind (k : String) : Bool :=
  k == "tmpsc" || k == "toneshot" || k == "twatch" || k == "tnotify" || k == "tmutex" || k == "trwlock" || k == "tsem"

/-- objects are created by task 0 at the start of the test body (clock `[0]`) -/
def mkObj (kind : String) (args : List String) : TObj :=
  let c0 := Clock.new.extend 0
  let a0 := (((args[0]?).bind String.toNat?).getD 0)
  match kind with
  | "tmpsc" =>
    let spec := (args[0]?).getD "unb"
    let bound : Option Nat := if spec.startsWith "cap:" then some ((((spec.drop 4).toString).toNat?).getD 1) else none
    .mpsc { TMpsc.new bound c0 with fixedF4 := fixedF4 || args.contains "fixedF4" }
  | "toneshot" => .oneshot {}
  | "twatch" => .watch (TWatch.new a0 (((args[1]?).bind String.toNat?).getD 1) c0)
  | "tnotify" => .notify {}
  | "tmutex" => .mutex (TMutex.new a0 c0)
  | "trwlock" => .rwlock (TRwLock.new a0 (((args[1]?).bind String.toNat?).getD maxReaders) c0)
  | _ => .sem (TSem.new a0 c0)

variable {U : Type}

def mpscL (L : Lens U TObj) : Lens U TMpsc :=
  L.comp { get := fun o => match o with | .mpsc s => s | _ => TMpsc.new none Clock.new, set := fun s _ => .mpsc s }
def oneshotL (L : Lens U TObj) : Lens U TOneshot :=
  L.comp { get := fun o => match o with | .oneshot s => s | _ => {}, set := fun s _ => .oneshot s }
def watchL (L : Lens U TObj) : Lens U TWatch :=
  L.comp { get := fun o => match o with | .watch s => s | _ => TWatch.new 0 1 Clock.new, set := fun s _ => .watch s }
def notifyL (L : Lens U TObj) : Lens U TNotify :=
  L.comp { get := fun o => match o with | .notify s => s | _ => {}, set := fun s _ => .notify s }
def mutexL (L : Lens U TObj) : Lens U TMutex :=
  L.comp { get := fun o => match o with | .mutex s => s | _ => TMutex.new 0 Clock.new, set := fun s _ => .mutex s }
def rwlockL (L : Lens U TObj) : Lens U TRwLock :=
  L.comp { get := fun o => match o with | .rwlock s => s | _ => TRwLock.new 0 1 Clock.new, set := fun s _ => .rwlock s }
def semL (L : Lens U TObj) : Lens U TSem :=
  L.comp { get := fun o => match o with | .sem s => s | _ => TSem.new 0 Clock.new, set := fun s _ => .sem s }

def isOp (n : String) : Bool :=
  n == "t_poll_once" || n.startsWith "ts_" || n.startsWith "tm_" || n.startsWith "tr_" || n.startsWith "os_" ||
  n.startsWith "w_" || n.startsWith "n_" ||
  ["tsend", "ttry_send", "tblocking_send", "trecv", "ttry_recv", "tblocking_recv", "tclose", "tcapacity",
   "tlen", "tclone_tx", "tdrop_tx", "tdrop_rx"].contains n

/-- the operations that are futures (the others ignore `t_poll_once`) -/
def isAsync (n : String) : Bool :=
  ["tsend", "trecv", "os_recv", "w_changed", "w_closed", "n_notified", "tm_lock", "tr_read", "tr_write",
   "ts_acquire"].contains n

/-- `name args` by body `k`; `objL` = lens to the object named by `args[0]` (`none` = it is not a
tokio object) -/
def exec (objL : String → Option (Lens U TObj)) (k : Nat) (name : String) (args : List String) : Prog U String :=
  let (mode, name, args) : AwaitMode × String × List String :=
    if name == "t_poll_once" then
      let n := args.headD ""
      (if isAsync n then .once else .block, n, args.drop 1)
    else (.block, name, args)
  let arg (i : Nat) : String := (args[i]?).getD ""
  let num (i : Nat) : Nat := ((args[i]?).bind String.toNat?).getD 0
  match objL (arg 0) with
  | none => K.panic s!"vh: not a tokio object {arg 0}"
  | some L => do
    let o ← K.getL L
    match o with
    | .mpsc _ => Mpsc.op mode (mpscL L) name (num 1)
    | .oneshot _ => Oneshot.op mode (oneshotL L) name (num 1)
    | .watch _ => Watch.op mode (watchL L) name (num 1)
    | .notify _ => Notify.op mode (notifyL L) name (arg 1)
    | .mutex _ => Locks.mutexOp mode (mutexL L) k name (num 1)
    | .rwlock _ => Locks.rwlockOp mode (rwlockL L) k name (num 1)
    | .sem _ => Locks.semOp mode (semL L) k name (num 1)

end Tokio
end ShuttleModel
