import ShuttleModel.Wrap.TokioBase
/-
  tokio::sync::oneshot under Shuttle — transcription of
  wrappers/tokio/impls/tokio/inner/src/sync/oneshot.rs: a `futures::channel::oneshot` channel
  (`OsCore`) whose visible operations are preceded by `shuttle::thread::yield_now()`; the
  receiving future yields AFTER it became ready (oneshot.rs:135-144).

  Harness view: one `Sender` slot and one `Receiver` slot per object; an operation takes the handle
  out of its slot for its duration (`os_send`, `os_recv`, `os_drop_*` consume it).
-/
namespace ShuttleModel
namespace Tokio

structure TOneshot where
  core : OsCore := {}
  txPresent : Bool := true
  rxPresent : Bool := true
deriving Repr, Inhabited

variable {U : Type}

namespace Oneshot

def coreL (L : Lens U TOneshot) : Lens U OsCore :=
  L.comp { get := (·.core), set := fun x s => { s with core := x } }

/-- `Sender::send(self, t)`: `yield_now(); self.0.send(t)` and the drop of the consumed sender -/
def send (C : Lens U OsCore) (v : Nat) : Prog U Bool := do
  yieldNow
  let c ← K.getL C
  let (ok, c) := c.send v
  let (c, effs) := c.dropTx
  K.setL C c
  runEffs effs
  pure ok

/-- `Drop for futures::oneshot::Sender` -/
def dropTx (C : Lens U OsCore) : Prog U Unit := do
  let c ← K.getL C
  let (c, effs) := c.dropTx
  K.setL C c
  runEffs effs

/-- `Drop for Receiver` -/
def dropRx (C : Lens U OsCore) : Prog U Unit := do
  let c ← K.getL C
  let (c, effs) := c.dropRx
  K.setL C c
  runEffs effs

/-- `Receiver::close` -/
def close (C : Lens U OsCore) : Prog U Unit := do
  yieldNow
  let c ← K.getL C
  let (c, effs) := c.closeRx
  K.setL C c
  runEffs effs

/-- `Receiver::try_recv` -/
def tryRecv (C : Lens U OsCore) : Prog U OsCore.TryRecv := do
  yieldNow
  let c ← K.getL C
  let (r, c) := c.tryRecv
  K.setL C c
  pure r

/-- `<Receiver as Future>::poll` -/
def poll (C : Lens U OsCore) (cx : Nat) : Prog U (Option (Option Nat)) := do
  let c ← K.getL C
  let (r, c) := c.recv cx
  K.setL C c
  match r with
  | some x => do yieldNow; pure (some x)
  | none => pure none

def resStr : Option Nat → String
  | some v => s!"v:{v}"
  | none => "err:closed"

/-- one oneshot operation of the IR -/
def op (mode : AwaitMode) (L : Lens U TOneshot) (name : String) (v : Nat) : Prog U String := do
  let C := coreL L
  let s ← K.getL L
  match name with
  | "os_send" =>
    if !s.txPresent then pure "nosender" else do
    K.setL L { s with txPresent := false }
    let ok ← send C v
    pure (if ok then "ok" else "err:closed")
  | "os_drop_tx" =>
    if !s.txPresent then pure "nosender" else do
    K.setL L { s with txPresent := false }
    dropTx C
    pure "ok"
  | "os_is_closed" =>
    if !s.txPresent then pure "nosender" else pure (if s.core.complete then "true" else "false")
  | "os_recv" =>
    if !s.rxPresent then pure "norecv" else do
    K.setL L { s with rxPresent := false }
    let r ← awaitLoop mode (poll C) (pure ()) loopFuel
    -- the receiver is dropped when `block_on` returns / when the pending future is cancelled
    dropRx C
    pure (match r with | none => "pending-dropped" | some x => resStr x)
  | "os_poll" =>
    if !s.rxPresent then pure "norecv" else do
    K.setL L { s with rxPresent := false }
    let me ← K.me
    let r ← poll C me
    let s ← K.getL L
    K.setL L { s with rxPresent := true }
    pure (match r with | none => "pending" | some x => resStr x)
  | "os_try_recv" =>
    if !s.rxPresent then pure "norecv" else do
    K.setL L { s with rxPresent := false }
    let r ← tryRecv C
    let s ← K.getL L
    K.setL L { s with rxPresent := true }
    pure (match r with | .value v => s!"v:{v}" | .empty => "err:empty" | .canceled => "err:closed")
  | "os_close" =>
    if !s.rxPresent then pure "norecv" else do
    K.setL L { s with rxPresent := false }
    close C
    let s ← K.getL L
    K.setL L { s with rxPresent := true }
    pure "ok"
  | "os_drop_rx" =>
    if !s.rxPresent then pure "norecv" else do
    K.setL L { s with rxPresent := false }
    dropRx C
    pure "ok"
  | other => K.panic s!"model: unknown oneshot op {other}"

end Oneshot
end Tokio
end ShuttleModel
