import ShuttleModel.Wrap.TokioNotify
import ShuttleModel.Wrap.TokioLocks
/-
  tokio::sync::watch under Shuttle — transcription of
  wrappers/tokio/impls/tokio/inner/src/sync/watch.rs (tokio 1.19.2's watch with the primitives
  replaced): `Shared { value: RwLock<T>, state: AtomicState, ref_count_rx, ref_count_tx,
  notify_rx: Notify, notify_tx: Notify }`.

  * `value` is the tokio-wrapper `RwLock` (a fair `BatchSemaphore` with `usize::MAX >> 3` permits),
    always taken with `blocking_read` / `blocking_write` (= `block_on` of the async versions);
  * `state` = `2 * version | CLOSED` and the two reference counts are plain std atomics (no
    scheduling point);
  * `Sender::send` = `blocking_write`; swap; `increment_version`; drop the guard (`release`);
    `notify_rx.notify_waiters()` (one scheduling point per registered waiter);
  * `Receiver::changed` = `changed_impl`: loop { `notified()`; `maybe_changed` → return (dropping the
    unpolled `Notified`); `notified.await` }.

  Harness view: one `Sender` slot, `nrx` `Receiver` slots (clones made at set-up); an operation takes
  its handle out of the slot for its duration.
-/
namespace ShuttleModel
namespace Tokio

/-- a `Receiver` slot: its `version`, and 0 = present, 1 = taken by an operation in flight,
2 = dropped -/
structure WRx where
  version : Nat := 0
  st : Nat := 0
deriving Repr, Inhabited

structure TWatch where
  sem : SemState
  value : Nat := 0
  state : Nat := 0
  refRx : Nat := 1
  refTx : Nat := 1
  notifyRx : TNotify := {}
  notifyTx : TNotify := {}
  txPresent : Bool := true
  rxs : List WRx := [{}]
deriving Repr, Inhabited

namespace TWatch

/-- `watch::channel(init)` followed by `nrx - 1` `Receiver::clone`s -/
def new (init : Nat) (nrx : Nat) (c : Clock) : TWatch :=
  let n := max nrx 1
  { sem := SemState.new maxReaders true c, value := init, refRx := n, rxs := List.replicate n {} }

/-- `StateSnapshot::version` -/
def version (s : TWatch) : Nat := s.state - s.state % 2
/-- `StateSnapshot::is_closed` -/
def closed (s : TWatch) : Bool := s.state % 2 == 1

inductive Changed where
  | ok
  | closed
deriving Repr, DecidableEq, Inhabited

/-- `maybe_changed`: the result and the receiver's new version -/
def maybeChanged (s : TWatch) (ver : Nat) : Option Changed × Nat :=
  if ver != s.version then (some .ok, s.version)
  else if s.closed then (some .closed, ver)
  else (none, ver)

/-- the write half of `send_if_modified` (value swapped, version incremented) -/
def store (s : TWatch) (v : Nat) : TWatch := { s with value := v, state := s.state + 2 }

end TWatch

variable {U : Type}

namespace Watch

def semL (L : Lens U TWatch) : Lens U SemState :=
  L.comp { get := (·.sem), set := fun x s => { s with sem := x } }
def nrxL (L : Lens U TWatch) : Lens U TNotify :=
  L.comp { get := (·.notifyRx), set := fun x s => { s with notifyRx := x } }
def ntxL (L : Lens U TWatch) : Lens U TNotify :=
  L.comp { get := (·.notifyTx), set := fun x s => { s with notifyTx := x } }

def rxVersion (s : TWatch) (r : Nat) : Nat := ((s.rxs[r]?).map (·.version)).getD 0
def setRxVersion (s : TWatch) (r : Nat) (v : Nat) : TWatch :=
  { s with rxs := s.rxs.modify r (fun e => { e with version := v }) }
def setRxSt (s : TWatch) (r : Nat) (st : Nat) : TWatch :=
  { s with rxs := s.rxs.modify r (fun e => { e with st := st }) }

/-- `Sender::send` -/
def send (L : Lens U TWatch) (v : Nat) : Prog U Bool := do
  let s ← K.getL L
  if s.refRx = 0 then pure false else do
  let _ ← Locks.lockAcquire .block (semL L) maxReaders       -- `blocking_write`
  let s ← K.getL L
  K.setL L (s.store v)
  Sem.release (semL L) maxReaders                            -- drop(lock)
  Notify.notifyWaiters (nrxL L)
  pure true

/-- `borrow` / `borrow_and_update`: `blocking_read`, look, drop the `Ref` -/
def borrow (L : Lens U TWatch) (r : Nat) (update : Bool) : Prog U Nat := do
  let _ ← Locks.lockAcquire .block (semL L) 1
  let s ← K.getL L
  if update then K.setL L (setRxVersion s r s.version) else pure ()
  let v := s.value
  Sem.release (semL L) 1
  pure v

/-- `changed_impl`: `none` = cancelled while pending -/
def changed (mode : AwaitMode) (L : Lens U TWatch) (r : Nat) : Nat → Prog U (Option TWatch.Changed)
  | 0 => K.panic "model: changed_impl fuel exhausted"
  | fuel + 1 => do
    let id ← Notify.notified (nrxL L)
    let s ← K.getL L
    let (res, ver) := s.maybeChanged (rxVersion s r)
    K.setL L (setRxVersion s r ver)
    match res with
    | some x => do
      Notify.dropNotified (nrxL L) id
      pure (some x)
    | none =>
      let w ← awaitLoop mode (Notify.poll (nrxL L) id) (pure ()) loopFuel
      Notify.dropNotified (nrxL L) id
      match w with
      | none => pure none
      | some () => changed mode L r fuel

/-- `Sender::closed`: `none` = cancelled -/
def senderClosed (mode : AwaitMode) (L : Lens U TWatch) : Nat → Prog U (Option Unit)
  | 0 => K.panic "model: closed fuel exhausted"
  | fuel + 1 => do
    let s ← K.getL L
    if s.refRx = 0 then pure (some ()) else do
    let id ← Notify.notified (ntxL L)
    let s ← K.getL L
    if s.refRx = 0 then do
      Notify.dropNotified (ntxL L) id
      pure (some ())
    else do
      let w ← awaitLoop mode (Notify.poll (ntxL L) id) (pure ()) loopFuel
      Notify.dropNotified (ntxL L) id
      match w with
      | none => pure none
      | some () => senderClosed mode L fuel

/-- `Drop for Sender` -/
def dropSender (L : Lens U TWatch) : Prog U Unit := do
  let s ← K.getL L
  K.setL L { s with refTx := s.refTx - 1 }
  if s.refTx = 1 then do
    let s ← K.getL L
    K.setL L { s with state := if s.state % 2 == 1 then s.state else s.state + 1 }
    Notify.notifyWaiters (nrxL L)
  else pure ()

/-- `Drop for Receiver` -/
def dropReceiver (L : Lens U TWatch) : Prog U Unit := do
  let s ← K.getL L
  K.setL L { s with refRx := s.refRx - 1 }
  if s.refRx = 1 then Notify.notifyWaiters (ntxL L) else pure ()

def withRx (L : Lens U TWatch) (r : Nat) (keep : Bool) (body : Prog U String) : Prog U String := do
  let s ← K.getL L
  match s.rxs[r]? with
  | none => pure "norecv"
  | some e =>
    if e.st != 0 then pure "norecv" else do
    K.setL L (setRxSt s r 1)
    let res ← body
    let s ← K.getL L
    K.setL L (setRxSt s r (if keep then 0 else 2))
    pure res

def withTx (L : Lens U TWatch) (keep : Bool) (body : Prog U String) : Prog U String := do
  let s ← K.getL L
  if !s.txPresent then pure "nosender" else do
  K.setL L { s with txPresent := false }
  let res ← body
  if keep then do
    let s ← K.getL L
    K.setL L { s with txPresent := true }
  else pure ()
  pure res

/-- one watch operation of the IR: `a` = the value (`w_send`) or the receiver index -/
def op (mode : AwaitMode) (L : Lens U TWatch) (name : String) (a : Nat) : Prog U String :=
  match name with
  | "w_send" => withTx L true (do
      let ok ← send L a
      pure (if ok then "ok" else "err:closed"))
  | "w_is_closed" => withTx L true (do
      let s ← K.getL L
      pure (if s.refRx = 0 then "true" else "false"))
  | "w_closed" => withTx L true (do
      let r ← senderClosed mode L loopFuel
      pure (match r with | none => "pending-dropped" | some () => "ok"))
  | "w_drop_tx" => withTx L false (do dropSender L; pure "ok")
  | "w_borrow" => withRx L a true (do let v ← borrow L a false; pure s!"v:{v}")
  | "w_borrow_and_update" => withRx L a true (do let v ← borrow L a true; pure s!"v:{v}")
  | "w_has_changed" => withRx L a true (do
      let s ← K.getL L
      if s.closed then pure "err:closed"
      else pure (if rxVersion s a != s.version then "true" else "false"))
  | "w_changed" => withRx L a true (do
      let r ← changed mode L a loopFuel
      pure (match r with | none => "pending-dropped" | some .ok => "ok" | some .closed => "err:closed"))
  | "w_drop_rx" => withRx L a false (do dropReceiver L; pure "ok")
  | other => K.panic s!"model: unknown watch op {other}"

end Watch
end Tokio
end ShuttleModel
