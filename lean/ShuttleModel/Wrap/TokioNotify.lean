import ShuttleModel.Wrap.TokioOneshot
/-
  tokio::sync::Notify under Shuttle — transcription of
  wrappers/tokio/impls/tokio/inner/src/sync/notify.rs.

  `NotifyState` (behind a *std* mutex that is never held across a scheduling point): `next_id`,
  `pending` (the stored permit), `waiters` (a `VecDeque<Waiter>`).  Every `notified()` call appends
  a `Waiter { flag, id, tx }` and returns `Notified { id, flag, rx }`; `flag` (shared) is
  INIT → ENABLED → NOTIFIED, `(tx, rx)` is a wrapped futures oneshot channel (`OsCore`) — every
  `tx.send(())` therefore starts with `thread::yield_now()`.

  * `notify_one` (notify.rs:131-160): collects the ids of the ENABLED waiters in queue order; none →
    `pending = true`; otherwise `state.rng.gen_range(0..len)` on Shuttle's `ThreadRng` picks one
    (one or more `R` lines / `random` schedule steps), which is removed, flagged NOTIFIED and sent to.
  * `notify_waiters` (notify.rs:170-190): takes ALL waiters (also the INIT ones), clears `pending`,
    flags all of them NOTIFIED first and then sends to each in queue order (a scheduling point per
    waiter).
  * `poll_inner` (`enable` and the first half of `poll`, notify.rs:224-247), `poll` (…:253-265),
    `Drop for Notified` (…:269-283): a NOTIFIED future that is dropped does nothing — a `notify_one`
    it had received is NOT passed on to another waiter (F14).

  Pure transitions: `TNotify.notified`, `enabledIds`, `notifyOneNone`, `notifyOneTake`,
  `notifyWaitersTake`, `pollInner`, `dropNotified`, `sendCell`.
-/
namespace ShuttleModel
namespace Tokio

def flagInit : Nat := 0
def flagEnabled : Nat := 1
def flagNotified : Nat := 2

/-- the shared `flag` and the oneshot channel of one `notified()` call -/
structure NCell where
  id : Nat
  flag : Nat := flagInit
  core : OsCore := {}
deriving Repr, Inhabited, DecidableEq

structure TNotify where
  nextId : Nat := 0
  pending : Bool := false
  /-- ids of the `waiters` deque, front first -/
  waiters : List Nat := []
  cells : List NCell := []
  /-- harness: `Notified` futures kept under a handle name (`n_new`): name, id, present (not taken
  out by an operation in flight) -/
  handles : List (String × Nat × Bool) := []
deriving Repr, Inhabited

namespace TNotify

def cell (s : TNotify) (id : Nat) : NCell := (s.cells.find? (·.id == id)).getD { id := id }
def setCell (s : TNotify) (c : NCell) : TNotify :=
  { s with cells := s.cells.map (fun x => if x.id == c.id then c else x) }
def flagOf (s : TNotify) (id : Nat) : Nat := (s.cell id).flag
def setFlag (s : TNotify) (id : Nat) (f : Nat) : TNotify := s.setCell { s.cell id with flag := f }

/-- `Notify::notified` -/
def notified (s : TNotify) : Nat × TNotify :=
  (s.nextId, { s with nextId := s.nextId + 1, waiters := s.waiters ++ [s.nextId],
                      cells := s.cells ++ [{ id := s.nextId }] })

/-- the `pending` vector of `notify_one`: ids of the ENABLED waiters, queue order -/
def enabledIds (s : TNotify) : List Nat := s.waiters.filter (fun id => s.flagOf id == flagEnabled)

/-- `notify_one`, no ENABLED waiter -/
def notifyOneNone (s : TNotify) : TNotify := { s with pending := true }

/-- `notify_one`, waiter `id` drawn: `remove_waiter`, `pending = false`, flag NOTIFIED -/
def notifyOneTake (s : TNotify) (id : Nat) : TNotify :=
  ({ s with waiters := s.waiters.erase id, pending := false }).setFlag id flagNotified

/-- `notify_waiters` up to its sends: the ids to send to, in order -/
def notifyWaitersTake (s : TNotify) : List Nat × TNotify :=
  (s.waiters, s.waiters.foldl (fun s id => s.setFlag id flagNotified) { s with waiters := [], pending := false })

inductive PollInner where
  | ready              -- flag was NOTIFIED
  | consumed           -- took the stored permit: the caller now sends to itself
  | notReady
  | lost               -- `remove_waiter` panics: the waiter is not in the queue
deriving Repr, DecidableEq, Inhabited

/-- `Notified::poll_inner` up to its send -/
def pollInner (s : TNotify) (id : Nat) : PollInner × TNotify :=
  if s.flagOf id == flagNotified then (.ready, s)
  else
    let s := if s.flagOf id == flagInit then s.setFlag id flagEnabled else s
    if s.pending then
      if s.waiters.contains id then
        (.consumed, ({ s with pending := false, waiters := s.waiters.erase id }).setFlag id flagNotified)
      else (.lost, { s with pending := false })
    else (.notReady, s)

/-- `inner.send(())` on the waiter's channel followed by the drop of the consumed `tx` -/
def sendCell (s : TNotify) (id : Nat) : Bool × TNotify × List Eff :=
  let c := s.cell id
  let (ok, core) := c.core.send 0
  let (core, effs) := core.dropTx
  (ok, s.setCell { c with core := core }, effs)

/-- `Drop for Notified`: `Err` = the panic of `remove_waiter` -/
def dropNotified (s : TNotify) (id : Nat) : Except String (TNotify × List Eff) :=
  let c := s.cell id
  if c.flag != flagNotified then
    if s.waiters.contains id then
      -- the removed `Waiter` is dropped at once: its `tx` goes (`drop_tx`), then the future's `rx`
      let (core, e1) := c.core.dropTx
      let (core, e2) := core.dropRx
      .ok (({ s with waiters := s.waiters.erase id }).setCell { c with core := core }, e1 ++ e2)
    else .error s!"could not find waiter with id {id}"
  else
    let (core, e2) := c.core.dropRx
    .ok (s.setCell { c with core := core }, e2)

end TNotify

variable {U : Type}

namespace Notify

def coreL (L : Lens U TNotify) (id : Nat) : Lens U OsCore :=
  L.comp { get := fun s => (s.cell id).core, set := fun x s => s.setCell { s.cell id with core := x } }

/-- `waiter.tx.send(())`: `yield_now`, the futures send, the drop of the sender.  `mustSucceed` =
the caller `unwrap()`s -/
def sendTo (L : Lens U TNotify) (id : Nat) (mustSucceed : Bool) : Prog U Unit := do
  yieldNow
  let s ← K.getL L
  let (ok, s, effs) := s.sendCell id
  K.setL L s
  runEffs effs
  if mustSucceed && !ok then K.panic "called `Result::unwrap()` on an `Err` value: ()" else pure ()

/-- `Notify::notified` -/
def notified (L : Lens U TNotify) : Prog U Nat := do
  let s ← K.getL L
  let (id, s) := s.notified
  K.setL L s
  pure id

/-- `Notify::notify_one` -/
def notifyOne (L : Lens U TNotify) : Prog U Unit := do
  let s ← K.getL L
  let en := s.enabledIds
  if en.isEmpty then K.setL L s.notifyOneNone
  else do
    let idx ← genRange en.length
    match en[idx]? with
    | none => K.panic "index out of bounds"
    | some id =>
      let s ← K.getL L
      K.setL L (s.notifyOneTake id)
      sendTo L id false

/-- `Notify::notify_waiters` -/
def notifyWaiters (L : Lens U TNotify) : Prog U Unit := do
  let s ← K.getL L
  let (ids, s) := s.notifyWaitersTake
  K.setL L s
  K.forM_ ids (fun id => sendTo L id false)

/-- `Notified::poll_inner` (= `enable`) -/
def pollInner (L : Lens U TNotify) (id : Nat) : Prog U Bool := do
  let s ← K.getL L
  let (r, s) := s.pollInner id
  K.setL L s
  match r with
  | .ready => pure true
  | .notReady => pure false
  | .lost => K.panic s!"could not find waiter with id {id}"
  | .consumed => do sendTo L id true; pure true

/-- `<Notified as Future>::poll` -/
def poll (L : Lens U TNotify) (id : Nat) (cx : Nat) : Prog U (Option Unit) := do
  let en ← pollInner L id
  if en then pure (some ())
  else do
    let r ← Oneshot.poll (coreL L id) cx
    pure (r.map (fun _ => ()))

/-- `Drop for Notified` -/
def dropNotified (L : Lens U TNotify) (id : Nat) : Prog U Unit := do
  let s ← K.getL L
  match s.dropNotified id with
  | .error msg => K.panic msg
  | .ok (s, effs) => do K.setL L s; runEffs effs

/-- `notify.notified().await` -/
def awaitNotified (mode : AwaitMode) (L : Lens U TNotify) : Prog U (Option Unit) := do
  let id ← notified L
  let r ← awaitLoop mode (poll L id) (pure ()) loopFuel
  dropNotified L id
  pure r

/-- take handle `h` out of the table for the duration of `body` -/
def withHandle (L : Lens U TNotify) (h : String) (body : Nat → Prog U String) : Prog U String := do
  let s ← K.getL L
  match s.handles.find? (·.1 == h) with
  | none => pure "nohandle"
  | some (_, _, false) => pure "nohandle"
  | some (_, id, true) =>
    K.setL L { s with handles := s.handles.map (fun e => if e.1 == h then (h, id, false) else e) }
    let r ← body id
    let s ← K.getL L
    K.setL L { s with handles := s.handles.map (fun e => if e.1 == h then (h, id, true) else e) }
    pure r

/-- one notify operation of the IR (`h` = handle name for the two-step API) -/
def op (mode : AwaitMode) (L : Lens U TNotify) (name : String) (h : String) : Prog U String :=
  match name with
  | "n_notified" => do
    let r ← awaitNotified mode L
    pure (match r with | none => "pending-dropped" | some () => "ok")
  | "n_notify_one" => do notifyOne L; pure "ok"
  | "n_notify_waiters" => do notifyWaiters L; pure "ok"
  | "n_new" => do
    let s ← K.getL L
    if s.handles.any (·.1 == h) then pure "exists" else do
    let id ← notified L
    let s ← K.getL L
    K.setL L { s with handles := s.handles ++ [(h, id, true)] }
    pure "ok"
  | "n_enable" => withHandle L h (fun id => do
      let b ← pollInner L id
      pure (if b then "true" else "false"))
  | "n_poll" => withHandle L h (fun id => do
      let me ← K.me
      let r ← poll L id me
      pure (match r with | some () => "ready" | none => "pending"))
  | "n_await" => withHandle L h (fun id => do
      let _ ← awaitLoop .block (poll L id) (pure ()) loopFuel
      pure "ok")
  | "n_drop" => do
    let s ← K.getL L
    match s.handles.find? (·.1 == h) with
    | some (_, id, true) =>
      K.setL L { s with handles := s.handles.filter (·.1 != h) }
      dropNotified L id
      pure "ok"
    | _ => pure "nohandle"
  | other => K.panic s!"model: unknown notify op {other}"

end Notify
end Tokio
end ShuttleModel
