/-
  ShuttleModel.Bits — bit-level helpers for the schedule wire format
  (`shuttle-engine/src/scheduler/serialization.rs`).

  The Rust code uses `bitvec` with `BitVec<u8, Lsb0>` / `BitSlice<u8, Lsb0>`:
  * bit `i` of the stream is bit `(i % 8)` of byte `(i / 8)`  (LSB-first inside each byte);
  * `slice.store(x)` / `slice.load()` on an `Lsb0` slice put the least significant bit of the integer
    at the lowest bit index of the slice (`store` truncates `x` to the slice's width).

  We model a bit stream as `List Bool`, head = bit index 0.
-/
namespace ShuttleModel

/-- The `w` low bits of `n`, least significant first (`BitSlice<_, Lsb0>::store` on a `w`-bit slice). -/
def natToBits : Nat → Nat → List Bool
  | 0, _ => []
  | w + 1, n => (n % 2 == 1) :: natToBits w (n / 2)

/-- The integer whose least significant bit is the head of the list (`BitSlice<_, Lsb0>::load`). -/
def bitsToNat : List Bool → Nat
  | [] => 0
  | b :: bs => (if b then 1 else 0) + 2 * bitsToNat bs

/-- View a byte buffer as an `Lsb0` bit stream (`BitSlice::<u8, Lsb0>::from_slice`):
    every byte contributes exactly 8 bits, least significant first. -/
def bytesToBits : List Nat → List Bool
  | [] => []
  | b :: bs => natToBits 8 b ++ bytesToBits bs

/-- The raw storage (`as_raw_slice`) of an `Lsb0` `BitVec<u8>` that occupies `nbytes` bytes, was
    created all-zero, and whose leading bits were then set to `bits`.  Bits of the storage that are
    not covered by `bits` stay `0`. -/
def packBytes : Nat → List Bool → List Nat
  | 0, _ => []
  | k + 1, bits => bitsToNat (bits.take 8) :: packBytes k (bits.drop 8)

end ShuttleModel
