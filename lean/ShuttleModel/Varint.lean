/-
  ShuttleModel.Varint — the `varint` module of `shuttle-engine/src/scheduler/serialization.rs`.

  LEB128-style: 7 payload bits per byte, little-endian groups, bit `0x80` = "more bytes follow".
  Bytes are modelled as `Nat`s `< 256`, `u64` values as `Nat`s `< 2^64`.
-/
namespace ShuttleModel

/-- Number of significant bits of `n` (`64 - n.leading_zeros()` for a `u64`/`usize`); `0` for `0`. -/
def bitLen (n : Nat) : Nat := if n = 0 then 0 else Nat.log2 n + 1

/-- `varint::space_needed` (only used by the Rust code as a `Vec::with_capacity` hint). -/
def spaceNeeded (v : Nat) : Nat := max ((bitLen v + 6) / 7) 1

/-- The `loop` of `write_u64_varint`.  `fuel` bounds the number of iterations; a `u64` needs at most
    10 (see `writeVarint`).  `current = val & 0x7F; val >>= 7; if val == 0 {push current; return}
    else {push (current | 0x80)}`. -/
def writeVarintAux : Nat → Nat → List Nat
  | 0, _ => []
  | fuel + 1, v =>
    if v / 128 = 0 then [v % 128]
    else (v % 128 + 128) :: writeVarintAux fuel (v / 128)

/-- `write_u64_varint(val)` for `val : u64` (i.e. `v < 2^64`; ten iterations always suffice then,
    see `ShuttleProofs.Lemmas.SerializeVarint.writeVarintAux_fuel`). -/
def writeVarint (v : Nat) : List Nat := writeVarintAux 10 v

/-- The `loop` of `read_u64_varint`, entered with `result`/`offset` after the first byte.
    Recursion is on the remaining input (each iteration consumes one byte).  Returns the value and
    the unread rest of the input; `none` = `Err` (unexpected EOF, or the "exceeded 64 bits" error).

    `result += u64::from(current & 0x7F) << offset` cannot overflow: the loop is only ever entered
    with `offset ∈ {7,14,…,56}` and `result < 2^offset`, so the sum stays `< 2^63`; the final
    `result + (1 << 63)` stays `< 2^64`. -/
def readVarintLoop (result offset : Nat) : List Nat → Option (Nat × List Nat)
  | [] => none                                            -- read_u8 fails: UnexpectedEof
  | current :: rest =>
    let result := result + (current % 128) * 2 ^ offset
    if current / 128 = 0 then some (result, rest)         -- current & 0x80 == 0
    else
      let offset := offset + 7
      if offset = 63 then
        match rest with
        | [] => none                                      -- read_u8 fails: UnexpectedEof
        | last :: rest' =>
          if last = 1 then some (result + 2 ^ offset, rest')
          else none                                       -- "varint exceeded 64 bits long"
      else readVarintLoop result offset rest

/-- `read_u64_varint` on a byte slice reader: value and remaining slice, or `none` on `Err`. -/
def readVarint : List Nat → Option (Nat × List Nat)
  | [] => none                                            -- read_u8 fails: UnexpectedEof
  | first :: rest =>
    if first / 128 = 0 then some (first, rest)            -- first & 0x80 == 0
    else readVarintLoop (first % 128) 7 rest

end ShuttleModel
