/-
  ShuttleModel.Failure — model of Shuttle's failure reporting / schedule persistence logic
  (property C12).  Transcribed from

    shuttle-engine/src/runtime/failure.rs      `persist_failure`, `SCHEDULE_PERSISTED_AT`, `init_panic_hook`
    shuttle-engine/src/runtime/execution.rs    `StepError::persist_failure`, `Execution::run` (error mapping)
    shuttle-engine/src/runtime/runner.rs       `PortfolioRunner::run` (join / re-raise logic)

  The model is a state machine over a *process history*: the sequence of `Runner::run` calls that
  happened so far in the process.  Two pieces of state survive from one run to the next:

    * `hookConfig`   — the `Config` captured by the panic hook.  `init_panic_hook` is guarded by a
                       process-wide `std::sync::Once`, so the hook closure owns (a clone of) the
                       configuration of the FIRST execution of the process, forever.
    * `persistedAt`  — the thread-local `SCHEDULE_PERSISTED_AT : Cell<usize>` (initially 0, never
                       reset): the length of the schedule that was last "persisted" on this OS
                       thread.  One value per OS thread (`thread : Nat`).

  Core Lean only; everything is total and executable.
-/
namespace ShuttleModel.Failure

/-- `FailurePersistence` (the directory argument of `File` is irrelevant to the logic). -/
inductive Persist where
  | none | print | file
  deriving DecidableEq, Repr, Inhabited

/-- How one `Runner::run` ends.
    * `taskPanic`          some task of the body panics (`StepError::TaskFailure`)
    * `deadlock`           `StepError::Deadlock`
    * `stepBoundFail`      `MaxSteps::FailAfter(n)` exceeded (`StepError::StepBoundExceeded`)
    * `stepBoundContinue`  `MaxSteps::ContinueAfter(n)` exceeded: the execution is stopped, no failure
    * `pass`               every execution ran to completion -/
inductive FailKind where
  | taskPanic | deadlock | stepBoundFail | stepBoundContinue | pass
  deriving DecidableEq, Repr, Inhabited

inductive Chan where
  | stderr | file
  deriving DecidableEq, Repr, Inhabited

/-- One emitted schedule: where it went, and how many steps the emitted schedule has. -/
structure Emission where
  chan : Chan
  len : Nat
  deriving DecidableEq, Repr, Inhabited

/-- What `Runner::run` raises (the class of the panic payload that leaves `run`). -/
inductive Raised where
  /-- `run` returns normally -/
  | nothing
  /-- `panic::resume_unwind(payload)` with the failing task's own payload -/
  | taskPayload
  /-- `panic!("deadlock! blocked tasks: [...]")` -/
  | deadlockMsg
  /-- `panic!("exceeded max_steps bound {n}. ...")` -/
  | stepBoundMsg
  deriving DecidableEq, Repr, Inhabited

/-- One `Runner::run` (up to and including its first failing execution).
    * `schedLen`  `CurrentSchedule::len()` when the failure is detected (task panic: when the panic
                  hook fires inside the task; deadlock / step bound: when `schedule()` reports it).
    * `unwind`    (task panic only) number of further schedule steps taken while the panicking task
                  unwinds: every scheduling point reached by a drop handler (`MutexGuard::drop` →
                  `BatchSemaphore::release` → `thread::switch()`) yields to the scheduler
                  (`maybe_yield` returns `true` while `std::thread::panicking()`), which takes one more
                  step before the panic finally leaves the continuation.  `0` if the task holds no guards.
    * `thread`    the OS thread `Runner::run` was called on. -/
structure Run where
  persist : Persist
  failure : FailKind
  schedLen : Nat
  unwind : Nat := 0
  thread : Nat := 0
  deriving DecidableEq, Repr, Inhabited

/-- Process state that outlives a run. -/
structure State where
  /-- config captured by the once-installed hook; `none` = hook not installed yet -/
  hookConfig : Option Persist
  /-- `SCHEDULE_PERSISTED_AT`, one cell per OS thread -/
  persistedAt : Nat → Nat

/-- A fresh process: no hook, every thread-local cell holds its initial value `0`. -/
def State.init : State := ⟨none, fun _ => 0⟩

def setAt (f : Nat → Nat) (t v : Nat) : Nat → Nat := fun t' => if t' = t then v else f t'

/-- What `persist_failure` writes for a given mode (the body of its `match`). -/
def emit : Persist → Nat → List Emission
  | .none, _ => []
  | .print, l => [⟨.stderr, l⟩]
  | .file, l => [⟨.file, l⟩]

/-- `failure::persist_failure(config)` executed on OS thread `t` while `CurrentSchedule::len() = l`:

    ```
    if SCHEDULE_PERSISTED_AT.get() == CurrentSchedule::len() { return; }
    match &config.failure_persistence { None => {}, File(..) => .., Print => .. }
    SCHEDULE_PERSISTED_AT.set(CurrentSchedule::len());      // also for `None`
    ``` -/
def persistFailure (cfg : Persist) (t l : Nat) (s : State) : List Emission × State :=
  if s.persistedAt t = l then ([], s)
  else (emit cfg l, { s with persistedAt := setAt s.persistedAt t l })

/-- `init_panic_hook(config)`: `INIT.call_once(..)` — only the first call of the process installs a
    hook, and that hook owns the config it was given. -/
def initHook (cfg : Persist) (s : State) : State :=
  match s.hookConfig with
  | some _ => s
  | none => { s with hookConfig := some cfg }

/-- The panic hook fires on thread `t` at schedule length `l`: `persist_failure(&config)` with the
    CAPTURED config.  (Without an installed hook nothing Shuttle-specific happens.) -/
def hookFire (t l : Nat) (s : State) : List Emission × State :=
  match s.hookConfig with
  | none => ([], s)
  | some c => persistFailure c t l s

/-- the schedule length when `Execution::run` handles the error -/
def Run.finalLen (r : Run) : Nat :=
  match r.failure with
  | .taskPanic => r.schedLen + r.unwind
  | _ => r.schedLen

def FailKind.failing : FailKind → Bool
  | .taskPanic | .deadlock | .stepBoundFail => true
  | .stepBoundContinue | .pass => false

structure Outcome where
  emissions : List Emission
  raised : Raised
  deriving DecidableEq, Repr, Inhabited

/-- One `Runner::run`, in source order.

    `Execution::run`:  `init_panic_hook(config.clone())` … `run_to_completion` … on `Err(e)`:
    `e.persist_failure(config)` then the `match e`.

    * task panic: the hook already fired INSIDE the task (captured config), then `Execution::run`
      calls `persist_failure` with the run's own config, then `panic::resume_unwind(payload)`
      (`resume_unwind` does not invoke the hook).
    * deadlock / `FailAfter`: `persist_failure` with the run's own config comes first; the `panic!`
      that follows fires the hook (captured config).
    * `ContinueAfter`: `schedule()` sets `next_task = Stopped` and returns `Ok`, no error, no panic.  -/
def execRun (s : State) (r : Run) : Outcome × State :=
  let s := initHook r.persist s
  match r.failure with
  | .pass => (⟨[], .nothing⟩, s)
  | .stepBoundContinue => (⟨[], .nothing⟩, s)
  | .taskPanic =>
    let (e1, s) := hookFire r.thread r.schedLen s
    let (e2, s) := persistFailure r.persist r.thread (r.schedLen + r.unwind) s
    (⟨e1 ++ e2, .taskPayload⟩, s)
  | .deadlock =>
    let (e1, s) := persistFailure r.persist r.thread r.schedLen s
    let (e2, s) := hookFire r.thread r.schedLen s
    (⟨e1 ++ e2, .deadlockMsg⟩, s)
  | .stepBoundFail =>
    let (e1, s) := persistFailure r.persist r.thread r.schedLen s
    let (e2, s) := hookFire r.thread r.schedLen s
    (⟨e1 ++ e2, .stepBoundMsg⟩, s)

/-- run a whole history from state `s` -/
def runFrom (s : State) : List Run → List Outcome × State
  | [] => ([], s)
  | r :: rs =>
    let (o, s1) := execRun s r
    let (os, s2) := runFrom s1 rs
    (o :: os, s2)

/-- the process state after a history of runs -/
def stateAfter (h : List Run) : State := (runFrom State.init h).2

/-- outcomes of all runs of a process, in order -/
def runHistory (h : List Run) : List (List Emission × Raised) :=
  (runFrom State.init h).1.map fun o => (o.emissions, o.raised)

/-- outcome of `r` when it runs in a process in which `h` already happened -/
def outcomeAfter (h : List Run) (r : Run) : Outcome := (execRun (stateAfter h) r).1

def emissionsAfter (h : List Run) (r : Run) : List Emission := (outcomeAfter h r).emissions

/-! ## The specification (the property text) -/

/-- what the run's OWN configuration asks for: one complete schedule, iff the run fails -/
def specEmissions (r : Run) : List Emission :=
  if r.failure.failing then emit r.persist r.finalLen else []

def specRaised : FailKind → Raised
  | .taskPanic => .taskPayload
  | .deadlock => .deadlockMsg
  | .stepBoundFail => .stepBoundMsg
  | .stepBoundContinue => .nothing
  | .pass => .nothing

/-- Replaying an emitted schedule of `e.len` steps reproduces the failure iff the schedule is the
    complete one: `ReplayScheduler` without `allow_incomplete` panics with "schedule ended early"
    when asked for a step beyond the recorded ones (which happens while the panicking task is still
    unwinding, if the schedule was emitted by the hook and `unwind > 0`). -/
def replaysSame (r : Run) (e : Emission) : Bool := e.len == r.finalLen

/-! ## The behaviour after the proposed fix (`/verif/work/c12_fix.diff`)

  * `SCHEDULE_PERSISTED_AT : Cell<Option<usize>>`, reset to `None` by `init_panic_hook`, i.e. at the
    start of every execution;
  * a thread-local `CURRENT_CONFIG` set by `init_panic_hook` at the start of every execution; the
    (still once-installed) hook reads it instead of a captured config.  -/
namespace Fixed

structure State where
  hookInstalled : Bool
  /-- thread-local `CURRENT_CONFIG` -/
  current : Nat → Option Persist
  /-- thread-local `SCHEDULE_PERSISTED_AT : Cell<Option<usize>>` -/
  persistedAt : Nat → Option Nat

def State.init : State := ⟨false, fun _ => none, fun _ => none⟩

def setAt {α : Type} (f : Nat → α) (t : Nat) (v : α) : Nat → α := fun t' => if t' = t then v else f t'

def persistFailure (cfg : Persist) (t l : Nat) (s : State) : List Emission × State :=
  if s.persistedAt t = some l then ([], s)
  else (emit cfg l, { s with persistedAt := setAt s.persistedAt t (some l) })

/-- `init_panic_hook(config)` after the fix -/
def initHook (cfg : Persist) (t : Nat) (s : State) : State :=
  { hookInstalled := true
    current := setAt s.current t (some cfg)
    persistedAt := setAt s.persistedAt t none }

def hookFire (t l : Nat) (s : State) : List Emission × State :=
  if s.hookInstalled then
    match s.current t with
    | none => ([], s)
    | some c => persistFailure c t l s
  else ([], s)

def execRun (s : State) (r : Run) : Outcome × State :=
  let s := initHook r.persist r.thread s
  match r.failure with
  | .pass => (⟨[], .nothing⟩, s)
  | .stepBoundContinue => (⟨[], .nothing⟩, s)
  | .taskPanic =>
    let (e1, s) := hookFire r.thread r.schedLen s
    let (e2, s) := persistFailure r.persist r.thread (r.schedLen + r.unwind) s
    (⟨e1 ++ e2, .taskPayload⟩, s)
  | .deadlock =>
    let (e1, s) := persistFailure r.persist r.thread r.schedLen s
    let (e2, s) := hookFire r.thread r.schedLen s
    (⟨e1 ++ e2, .deadlockMsg⟩, s)
  | .stepBoundFail =>
    let (e1, s) := persistFailure r.persist r.thread r.schedLen s
    let (e2, s) := hookFire r.thread r.schedLen s
    (⟨e1 ++ e2, .stepBoundMsg⟩, s)

def runFrom (s : State) : List Run → List Outcome × State
  | [] => ([], s)
  | r :: rs =>
    let (o, s1) := execRun s r
    let (os, s2) := runFrom s1 rs
    (o :: os, s2)

def stateAfter (h : List Run) : State := (runFrom State.init h).2

def runHistory (h : List Run) : List (List Emission × Raised) :=
  (runFrom State.init h).1.map fun o => (o.emissions, o.raised)

def outcomeAfter (h : List Run) (r : Run) : Outcome := (execRun (stateAfter h) r).1

def emissionsAfter (h : List Run) (r : Run) : List Emission := (outcomeAfter h r).emissions

end Fixed

/-! ## `PortfolioRunner::run` — join / re-raise logic only

  Every member runs `Runner::run` under `catch_unwind` on its own OS thread, sends `Passed`/`Failed`
  and (if failed) re-raises, so `thread.join()` is `Err(payload)` exactly for the failed members.
  The main thread sets `stop_signal` when it receives a `Failed` and `stop_on_first_failure` is set;
  then joins all threads keeping the LAST `Err`; then
  `assert!(stop_signal.load() == panic.is_some())`; then re-raises the kept payload. -/

/-- the result of one member, after whatever effect the stop signal had on it -/
inductive Member where
  | passed
  | failed (payload : Nat)
  deriving DecidableEq, Repr, Inhabited

def Member.isFailed : Member → Bool
  | .passed => false
  | .failed _ => true

inductive PortfolioRaised where
  /-- `resume_unwind(e)` with a member's payload -/
  | member (payload : Nat)
  /-- the `assert!(stop_signal == panic.is_some())` fails -/
  | assertion
  deriving DecidableEq, Repr, Inhabited

/-- `for thread in threads { if let Err(e) = thread.join() { panic = Some(e); } }` -/
def joinAll : Option Nat → List Member → Option Nat
  | acc, [] => acc
  | acc, .passed :: ms => joinAll acc ms
  | _, .failed p :: ms => joinAll (some p) ms

/-- `None` = `PortfolioRunner::run` returns normally -/
def portfolioRun (stopOnFirstFailure : Bool) (ms : List Member) : Option PortfolioRaised :=
  let stopSignal := stopOnFirstFailure && ms.any Member.isFailed
  let panic := joinAll none ms
  if stopSignal == panic.isSome then panic.map PortfolioRaised.member
  else some .assertion

/-! ## Steps of a process: plain runs and portfolio runs

  A portfolio member is an ordinary `Runner::run` on a freshly spawned OS thread (so its `thread` must
  be an id not used by any other run of the history); the members share the process-wide hook with
  everything else.  Members run concurrently, but they interact only through the hook's captured
  config (identical for all members) and through per-thread cells (distinct threads), so executing
  them one after the other is faithful. -/

inductive Step where
  | single (r : Run)
  | portfolio (stopOnFirstFailure : Bool) (members : List Run)
  deriving Repr, Inhabited

inductive StepRaised where
  | run (r : Raised)
  | portfolio (p : Option PortfolioRaised)
  deriving DecidableEq, Repr, Inhabited

structure StepOutcome where
  emissions : List Emission
  raised : StepRaised
  deriving DecidableEq, Repr, Inhabited

/-- the `thread.join()` results of the members, payload = member index -/
def toMembers : Nat → List Outcome → List Member
  | _, [] => []
  | j, o :: os => (if o.raised = .nothing then Member.passed else Member.failed j) :: toMembers (j + 1) os

def execStep (s : State) : Step → StepOutcome × State
  | .single r =>
    let (o, s') := execRun s r
    (⟨o.emissions, .run o.raised⟩, s')
  | .portfolio stop ms =>
    let (os, s') := runFrom s ms
    (⟨os.flatMap (·.emissions), .portfolio (portfolioRun stop (toMembers 0 os))⟩, s')

def runSteps (s : State) : List Step → List StepOutcome × State
  | [] => ([], s)
  | st :: sts =>
    let (o, s1) := execStep s st
    let (os, s2) := runSteps s1 sts
    (o :: os, s2)

def stepHistory (h : List Step) : List StepOutcome := (runSteps State.init h).1

namespace Fixed

def execStep (s : State) : Step → StepOutcome × State
  | .single r =>
    let (o, s') := execRun s r
    (⟨o.emissions, .run o.raised⟩, s')
  | .portfolio stop ms =>
    let (os, s') := runFrom s ms
    (⟨os.flatMap (·.emissions), .portfolio (portfolioRun stop (toMembers 0 os))⟩, s')

def runSteps (s : State) : List Step → List StepOutcome × State
  | [] => ([], s)
  | st :: sts =>
    let (o, s1) := execStep s st
    let (os, s2) := runSteps s1 sts
    (o :: os, s2)

def stepHistory (h : List Step) : List StepOutcome := (runSteps State.init h).1

end Fixed

/-! ## Spec strings (shared with the Rust harness `vh_c12`) and the prediction printer

  spec := item (',' item)*      item := persist ':' body ['+' k] ['@' t]

  Bodies are the fixed test bodies of `vh_c12.rs`, run under `RoundRobinScheduler`; `bodyShape`
  gives, for each, the failure kind and the schedule length at failure as a function of `k`
  (the number of extra `yield_now()` the main task performs first).  These constants are
  calibration data for the harness bodies, checked by the differential run (`len=` field).
  `pf_pass | pf_fail1 | pf_fail2` are `PortfolioRunner` runs (stop_on_first_failure = true) with two
  members of which 0 / 1 / 2 fail like `panic_main`. -/

structure BodyShape where
  kind : FailKind
  len : Nat
  unwind : Nat

def bodyShape (body : String) (k : Nat) : Option BodyShape :=
  match body with
  | "panic_main" => some ⟨.taskPanic, 1 + k, 0⟩
  | "panic_thread" => some ⟨.taskPanic, 4 + k, 0⟩
  | "panic_future" => some ⟨.taskPanic, if k = 0 then 4 else 5 + k, 0⟩   -- (measured; `block_on` after a yield takes one more step)
  | "panic_lock" => some ⟨.taskPanic, 7 + k, 2⟩
  | "deadlock" => some ⟨.deadlock, 12 + k, 0⟩
  | "stepfail" => some ⟨.stepBoundFail, 5 + k, 0⟩
  | "stepcont" => some ⟨.stepBoundContinue, 5 + k, 0⟩
  | "pass" => some ⟨.pass, 10 + k, 0⟩
  | _ => none

/-- number of failing members of the portfolio bodies -/
def portfolioShape (body : String) : Option Nat :=
  match body with
  | "pf_pass" => some 0
  | "pf_fail1" => some 1
  | "pf_fail2" => some 2
  | _ => none

def parsePersist : String → Option Persist
  | "none" => some .none
  | "print" => some .print
  | "file" => some .file
  | _ => none

/-- split `s` at the first occurrence of `sep`; `(s, none)` if there is none -/
def splitFirst (s : String) (sep : String) : String × Option String :=
  match s.splitOn sep with
  | [a] => (a, none)
  | a :: rest => (a, some (sep.intercalate rest))
  | [] => (s, none)

def optNat : Option String → Option Nat
  | none => some 0
  | some s => s.toNat?

/-- a parsed spec item: the step plus what the printer needs -/
structure Item where
  persist : Persist
  kindName : String
  step : Step
  /-- printed `len=` field -/
  lenStr : String
  /-- the length a complete schedule of this item has (for `replay=`) -/
  fullLen : Nat
  /-- the `n` of `stepbound-<n>` -/
  bound : Nat

def FailKind.name : FailKind → String
  | .taskPanic => "taskPanic" | .deadlock => "deadlock" | .stepBoundFail => "stepBoundFail"
  | .stepBoundContinue => "stepBoundContinue" | .pass => "pass"

/-- `i` = index of the item in the spec (used to give portfolio members fresh thread ids) -/
def parseItem (i : Nat) (s : String) : Option Item :=
  match splitFirst s ":" with
  | (_, none) => none
  | (p, some rest) =>
    let (rest, t) := splitFirst rest "@"
    let (b, k) := splitFirst rest "+"
    match parsePersist p, optNat k, optNat t with
    | some persist, some k, some t =>
      match bodyShape b k, portfolioShape b with
      | some sh, _ =>
        let r : Run := { persist, failure := sh.kind, schedLen := sh.len, unwind := sh.unwind, thread := t }
        some ⟨persist, sh.kind.name, .single r, toString r.finalLen, r.finalLen, sh.len⟩
      | none, some nfail =>
        let member (j : Nat) : Run :=
          { persist, failure := if j < nfail then .taskPanic else .pass, schedLen := 1 + k,
            thread := 1000 + 10 * i + j }
        some ⟨persist, "portfolio", .portfolio true [member 0, member 1], "-", 1 + k, 0⟩
      | none, none => none
    | _, _, _ => none

def parseItems : Nat → List String → Option (List Item)
  | _, [] => some []
  | i, s :: ss =>
    match parseItem i s, parseItems (i + 1) ss with
    | some it, some its => some (it :: its)
    | _, _ => none

def parseSpec (s : String) : Option (List Item) :=
  parseItems 0 ((s.splitOn ",").filter (· ≠ ""))

def Persist.name : Persist → String
  | .none => "none" | .print => "print" | .file => "file"

def raisedName (it : Item) : StepRaised → String
  | .run .nothing => "none"
  | .run .taskPayload => "payload"
  | .run .deadlockMsg => "deadlock"
  | .run .stepBoundMsg => s!"stepbound-{it.bound}"   -- the harness sets the bound to the failing length
  | .portfolio none => "none"
  | .portfolio (some (.member _)) => "payload"
  | .portfolio (some .assertion) => "assertion"

def countChan (c : Chan) (es : List Emission) : Nat := (es.filter (·.chan = c)).length

def replayName (it : Item) (es : List Emission) : String :=
  if es.isEmpty then "n/a" else if es.all (fun e => e.len == it.fullLen) then "same"
  -- only the last emission (the one `Execution::run` makes once unwinding is over) is the complete schedule
  else if (es.getLast?.map (fun e => e.len == it.fullLen)).getD false then "last" else "differs"

def formatLine (i : Nat) (it : Item) (o : StepOutcome) : String :=
  s!"run {i} persist={it.persist.name} kind={it.kindName} raised={raisedName it o.raised} " ++
  s!"emitted=stderr:{countChan .stderr o.emissions},file:{countChan .file o.emissions} " ++
  s!"replay={replayName it o.emissions} len={it.lenStr}"

def formatLines : Nat → List Item → List StepOutcome → List String
  | i, r :: rs, o :: os => formatLine i r o :: formatLines (i + 1) rs os
  | _, _, _ => []

def predictLines (fixed : Bool) (spec : String) : Option (List String) :=
  match parseSpec spec with
  | none => none
  | some items =>
    let steps := items.map (·.step)
    some (formatLines 0 items (if fixed then Fixed.stepHistory steps else stepHistory steps))

/-- spec ↦ the canonical lines `vh_c12 parent <spec>` is predicted to print (current code) -/
def predictLine (spec : String) : String :=
  match predictLines false spec with
  | none => s!"error: bad spec {spec}"
  | some ls => "\n".intercalate ls

/-- the same for the fixed behaviour -/
def predictLineFixed (spec : String) : String :=
  match predictLines true spec with
  | none => s!"error: bad spec {spec}"
  | some ls => "\n".intercalate ls

/-- like `predictLine`, every line prefixed by `spec=<spec> ` (the format of `vh_c12 sweep`) -/
def predictSweep (spec : String) : String :=
  match predictLines false spec with
  | none => s!"spec={spec} error: bad spec"
  | some ls => "\n".intercalate (ls.map fun l => s!"spec={spec} {l}")

def predictSweepFixed (spec : String) : String :=
  match predictLines true spec with
  | none => s!"spec={spec} error: bad spec"
  | some ls => "\n".intercalate (ls.map fun l => s!"spec={spec} {l}")

end ShuttleModel.Failure
