/-
  Vector clocks — transcription of shuttle-engine/src/runtime/task/clock.rs (`mod vector_clock`,
  the real implementation enabled by feature `vector-clocks`).
  A clock is the list of its components (`time: SmallVec<[u32; _]>`); components are `Nat`
  (u32 overflow is not reachable by the bounded programs the harness runs and is not the point
  of any property).
-/
namespace ShuttleModel

/-- `VectorClock.time` -/
def Clock := List Nat
deriving DecidableEq, Repr, Inhabited

namespace Clock

def new : Clock := ([] : List Nat)

def toList (c : Clock) : List Nat := c
def ofList (l : List Nat) : Clock := l

/-- `extend(task_id)`: zero-extend so that index `tid` exists. The Rust code computes
`1 + task_id - len` in `usize`, which underflows (panics in debug) when `len > task_id + 1`;
every call site extends a clock for a *new* task id (`= tasks.len()`), where `len ≤ tid`, so the
model extends by `tid + 1 - len` (natural subtraction: no-op when already long enough). -/
def extend (c : Clock) (tid : Nat) : Clock :=
  ofList (c.toList ++ List.replicate (tid + 1 - c.toList.length) 0)

/-- `increment(task_id)`: `self.time[task_id] += 1` — index panic if out of range; modelled as a
no-op there and the kernel only increments a task's own, already extended, component. -/
def increment (c : Clock) (tid : Nat) : Clock :=
  ofList (c.toList.modify tid (· + 1))

/-- `update(other)`: pointwise max on the common prefix, then append the rest of `other`. -/
def update : Clock → Clock → Clock
  | [], o => o
  | c, [] => c
  | a :: c, b :: o => (max a b) :: update c o

def get (c : Clock) (i : Nat) : Nat := (c.toList[i]?).getD 0

/-- `Ordering` unification from `partial_cmp`. -/
def unify : Ordering → Ordering → Option Ordering
  | .eq, .eq => some .eq
  | .lt, .gt => none
  | .gt, .lt => none
  | .lt, _ => some .lt
  | _, .lt => some .lt
  | .gt, _ => some .gt
  | _, .gt => some .gt

def cmpNat (a b : Nat) : Ordering := if a < b then .lt else if a = b then .eq else .gt

def partialCmpAux : Ordering → List Nat → List Nat → Option Ordering
  | ord, a :: c, b :: o =>
    match unify ord (cmpNat a b) with
    | none => none
    | some ord' => partialCmpAux ord' c o
  | ord, _, _ => some ord

/-- `PartialOrd::partial_cmp` -/
def partialCmp (c o : Clock) : Option Ordering :=
  partialCmpAux (cmpNat c.toList.length o.toList.length) c.toList o.toList

/-- `self <= other` as Rust derives it from `partial_cmp`: `Some(Less | Equal)`. -/
def le (c o : Clock) : Bool :=
  match partialCmp c o with
  | some .lt => true
  | some .eq => true
  | _ => false

/-- strip trailing zeros (log canonical form) -/
def strip (c : Clock) : List Nat :=
  (c.toList.reverse.dropWhile (· == 0)).reverse

end Clock
end ShuttleModel
