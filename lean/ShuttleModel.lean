import ShuttleModel.Clock
import ShuttleModel.Kernel
