import ShuttleModel.Clock
import ShuttleModel.Kernel
import ShuttleModel.Bits
import ShuttleModel.Varint
import ShuttleModel.Serialize
import ShuttleModel.Rng
import ShuttleModel.RngVectors
import ShuttleModel.Sched.Dfs
