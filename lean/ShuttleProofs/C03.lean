import ShuttleProofs.C13

/-!
# C03 — deadlock / termination verdicts of `run_to_completion`

Model: `ShuttleModel/Kernel.lean`; vocabulary as in `ShuttleProofs/C08.lean`.

`schedule()` (with `next_task = None` and the step bound not reached, `BoundOK`) sets `next_task = Finished` iff
`endsHere k = !any_runnable || (!unfinished_attached && all_runnable_detached)`; the loop then reports
`deadlock k.deadlockList` iff `k.unfinishedAttached`, else `ok`.  Tasks in state `Blocked{allow_spurious_wakeups}`
are *offered* but do not count as runnable.
-/

namespace ShuttleProofs.C03
open ShuttleModel ShuttleProofs.Kernel

variable {P : Program} {σ : Type}

/-- the condition under which the loop reports a deadlock at loop head `k` -/
def DeadlockAt (k : Kernel) : Prop :=
  BoundOK k ∧ k.anyRunnable = false ∧ k.unfinishedAttached = true

/-- `DeadlockAt` spelled out on the task table -/
theorem deadlockAt_iff (k : Kernel) :
    DeadlockAt k ↔ BoundOK k ∧ (∀ (i : Nat) (tk : Task), k.tasks[i]? = some tk → tk.state ≠ .runnable) ∧
      ∃ (i : Nat) (tk : Task), k.tasks[i]? = some tk ∧ tk.state ≠ .finished ∧ tk.detached = false := by
  unfold DeadlockAt
  rw [anyRunnable_false_iff, unfinishedAttached_iff]
  constructor
  · rintro ⟨h1, h2, i, tk, h3, h4, h5⟩
    refine ⟨h1, ?_, i, tk, h3, ?_, h5⟩
    · intro j tj hj hr
      have := h2 j tj hj
      rw [(Task.runnable_iff tj).mpr hr] at this; cases this
    · intro hf
      rw [(Task.finished_iff tk).mpr hf] at h4; cases h4
  · rintro ⟨h1, h2, i, tk, h3, h4, h5⟩
    refine ⟨h1, ?_, i, tk, h3, ?_, h5⟩
    · intro j tj hj
      cases hr : tj.runnable
      · rfl
      · exact absurd ((Task.runnable_iff tj).mp hr) (h2 j tj hj)
    · cases hf : tk.finished
      · rfl
      · exact absurd ((Task.finished_iff tk).mp hf) h4

/-- the list printed by the deadlock panic: exactly the unfinished tasks, ascending ids, each with its
`detached` flag and whether it is `Sleeping` -/
theorem deadlockList_exact (k : Kernel) :
    (∀ x : Nat × Bool × Bool, x ∈ k.deadlockList ↔
      ∃ tk, k.tasks[x.1]? = some tk ∧ tk.state ≠ .finished ∧ x.2.1 = tk.detached ∧
        x.2.2 = (tk.state == .sleeping)) ∧
    (k.deadlockList.map (·.1)).Pairwise (· < ·) := by
  refine ⟨?_, deadlockList_ids_pairwise k⟩
  intro x
  rw [mem_deadlockList]
  constructor
  · rintro ⟨tk, h1, h2, h3, h4⟩
    refine ⟨tk, h1, ?_, h3, h4⟩
    intro hf; rw [(Task.finished_iff tk).mpr hf] at h2; cases h2
  · rintro ⟨tk, h1, h2, h3, h4⟩
    refine ⟨tk, h1, ?_, h3, h4⟩
    cases hf : tk.finished
    · rfl
    · exact absurd ((Task.finished_iff tk).mp hf) h2

/-- **deadlock_iff** (iteration form): the iteration started at loop head `st` ends the run with
`deadlock L` iff the bound is not reached, no task is runnable, some attached task is unfinished, and `L` is
the list of unfinished tasks.  No scheduler consultation, no segment: the final state has the same tasks, log
and schedule. -/
theorem deadlock_iff {ms : MaxSteps} (S : Scheduler σ) (segFuel : Nat) {st : ExecState P σ}
    (hi : LoopInv ms st) (L : List (Nat × Bool × Bool)) :
    (∃ st', loopStep S segFuel st = .inl ⟨.deadlock L, st'⟩) ↔ DeadlockAt st.k ∧ L = st.k.deadlockList := by
  constructor
  · rintro ⟨st', h⟩
    have hf := loopStep_inl_final hi h
    generalize hr : (⟨.deadlock L, st'⟩ : Result P σ) = r at hf
    cases hf with
    | deadlock h1 h2 h3 =>
      cases hr
      exact ⟨⟨h1, (endsHere_of_unfinishedAttached h3).mp h2, h3⟩, rfl⟩
    | seg t s' p r h1 h2 h3 h4 h5 =>
      obtain ⟨_, ho, _⟩ := finishSeg_inl h5
      rw [← hr] at ho
      rcases ho with ho | ⟨_, ho⟩ | ⟨_, ho, _⟩ | ⟨_, ho⟩ <;> cases ho
    | _ => cases hr
  · rintro ⟨⟨h1, h2, h3⟩, rfl⟩
    have := loopStep_ends S segFuel hi.next hi.conts h1 ((endsHere_of_unfinishedAttached h3).mpr h2)
    rw [h3] at this
    exact ⟨_, this⟩

/-- **deadlock_iff**, ⇒ for executions: if `execute` reports `deadlock L`, then in the final kernel state (whose
task table is the one `schedule()` examined) no task is runnable, some non-detached task is unfinished, the
step bound was not reached, and `L` is exactly the list of unfinished tasks with their flags. -/
theorem deadlock_verdict_sound (P : Program) (S : Scheduler σ) (ms : MaxSteps) (seed : Nat) (s : σ)
    (fuel segFuel : Nat) (L : List (Nat × Bool × Bool))
    (h : (execute P S ms seed s fuel segFuel).outcome = .deadlock L) :
    let k := (execute P S ms seed s fuel segFuel).st.k
    (∀ (i : Nat) (tk : Task), k.tasks[i]? = some tk → tk.state ≠ .runnable) ∧
    (∃ (i : Nat) (tk : Task), k.tasks[i]? = some tk ∧ tk.state ≠ .finished ∧ tk.detached = false) ∧
    L = k.deadlockList ∧ k.current = .finished := by
  obtain ⟨stf, _, hi, hf⟩ := execute_final P S ms seed s fuel segFuel
  generalize execute P S ms seed s fuel segFuel = r at h hf
  cases hf with
  | deadlock h1 h2 h3 =>
    cases h
    have hd : DeadlockAt stf.k := ⟨h1, (endsHere_of_unfinishedAttached h3).mp h2, h3⟩
    obtain ⟨_, h4, h5⟩ := (deadlockAt_iff stf.k).mp hd
    exact ⟨h4, h5, rfl, rfl⟩
  | seg t s' p r h1 h2 h3 h4 h5 =>
    obtain ⟨_, ho, _⟩ := finishSeg_inl h5
    rw [h] at ho
    rcases ho with ho | ⟨_, ho⟩ | ⟨_, ho, _⟩ | ⟨_, ho⟩ <;> cases ho
  | _ => cases h

/-- **deadlock_iff**, ⇐ for executions: if a loop head with no runnable task and an unfinished attached task
(bound not reached) is reached after `m` iterations, every run with more than `m` units of loop fuel reports
`deadlock` with that state's list. -/
theorem deadlock_verdict_complete (P : Program) (S : Scheduler σ) (ms : MaxSteps) (seed : Nat) (s : σ)
    (segFuel m : Nat) (st : ExecState P σ) (hr : ReachN S segFuel m (initState P ms seed s) st)
    (hd : DeadlockAt st.k) (fuel : Nat) (hfuel : m < fuel) :
    (execute P S ms seed s fuel segFuel).outcome = .deadlock st.k.deadlockList := by
  have hi : LoopInv ms st := (LoopInv.init P ms seed s).reach ⟨m, hr⟩
  obtain ⟨st', h⟩ := (deadlock_iff S segFuel hi _).mpr ⟨hd, rfl⟩
  rw [execute_eq, runLoop_of_reach hr h fuel hfuel]

/-- the `!unfinished_attached && all_runnable_detached` branch (even with runnable — detached — tasks left)
never produces a deadlock: it yields `ok`. -/
theorem detached_leftovers_ok {ms : MaxSteps} (S : Scheduler σ) (segFuel : Nat) {st : ExecState P σ}
    (hi : LoopInv ms st) (hb : BoundOK st.k) (hu : st.k.unfinishedAttached = false)
    (hd : st.k.allRunnableDetached = true) :
    ∃ st', loopStep S segFuel st = .inl ⟨.ok, st'⟩ := by
  have := loopStep_ends S segFuel hi.next hi.conts hb
    ((endsHere_of_not_unfinishedAttached hu).mpr (Or.inr hd))
  rw [hu] at this
  exact ⟨_, this⟩

/-- **ok_iff** (iteration form): the iteration ends the run with `ok` iff the bound is not reached, every
attached task is finished, and (no task is runnable or all runnable tasks are detached). -/
theorem ok_iff {ms : MaxSteps} (S : Scheduler σ) (segFuel : Nat) {st : ExecState P σ} (hi : LoopInv ms st) :
    (∃ st', loopStep S segFuel st = .inl ⟨.ok, st'⟩) ↔
      BoundOK st.k ∧ st.k.unfinishedAttached = false ∧
        (st.k.anyRunnable = false ∨ st.k.allRunnableDetached = true) := by
  constructor
  · rintro ⟨st', h⟩
    have hf := loopStep_inl_final hi h
    generalize hr : (⟨.ok, st'⟩ : Result P σ) = r at hf
    cases hf with
    | ok h1 h2 h3 => exact ⟨h1, h3, (endsHere_of_not_unfinishedAttached h3).mp h2⟩
    | seg t s' p r h1 h2 h3 h4 h5 =>
      obtain ⟨_, ho, _⟩ := finishSeg_inl h5
      rw [← hr] at ho
      rcases ho with ho | ⟨_, ho⟩ | ⟨_, ho, _⟩ | ⟨_, ho⟩ <;> cases ho
    | _ => cases hr
  · rintro ⟨h1, h2, h3⟩
    have := loopStep_ends S segFuel hi.next hi.conts h1 ((endsHere_of_not_unfinishedAttached h2).mpr h3)
    rw [h2] at this
    exact ⟨_, this⟩

/-- **ok_iff** for executions: outcome `ok` ⇒ every non-detached task is finished (and every task still
runnable is detached). -/
theorem ok_verdict_sound (P : Program) (S : Scheduler σ) (ms : MaxSteps) (seed : Nat) (s : σ)
    (fuel segFuel : Nat) (h : (execute P S ms seed s fuel segFuel).outcome = .ok) :
    let k := (execute P S ms seed s fuel segFuel).st.k
    (∀ (i : Nat) (tk : Task), k.tasks[i]? = some tk → tk.detached = false → tk.state = .finished) ∧
    (∀ (i : Nat) (tk : Task), k.tasks[i]? = some tk → tk.state = .runnable → tk.detached = true) ∧
    k.current = .finished := by
  obtain ⟨stf, _, hi, hf⟩ := execute_final P S ms seed s fuel segFuel
  generalize execute P S ms seed s fuel segFuel = r at h hf
  cases hf with
  | ok h1 h2 h3 =>
    refine ⟨?_, ?_, rfl⟩
    · intro i tk hk hd
      exact (Task.finished_iff tk).mp (unfinishedAttached_false_iff.mp h3 i tk hk hd)
    · intro i tk hk hr
      rcases (endsHere_of_not_unfinishedAttached h3).mp h2 with h4 | h4
      · have := anyRunnable_false_iff.mp h4 i tk hk
        rw [(Task.runnable_iff tk).mpr hr] at this; cases this
      · exact allRunnableDetached_iff.mp h4 i tk hk ((Task.runnable_iff tk).mpr hr)
  | seg t s' p r h1 h2 h3 h4 h5 =>
    obtain ⟨_, ho, _⟩ := finishSeg_inl h5
    rw [h] at ho
    rcases ho with ho | ⟨_, ho⟩ | ⟨_, ho, _⟩ | ⟨_, ho⟩ <;> cases ho
  | _ => cases h

/-- **no_early_end**: at a loop head where some non-detached task is unfinished and some task is runnable, and
the step bound is not reached, `schedule()` consults the scheduler; the loop cannot end there with `ok`,
`deadlock`, `abandoned` or `stepBoundFail` (only the scheduler — `None` or a panic — or the chosen task's own
segment can end it). -/
theorem no_early_end {ms : MaxSteps} (S : Scheduler σ) (segFuel : Nat) {st : ExecState P σ}
    (hi : LoopInv ms st) (hb : BoundOK st.k)
    (hu : ∃ (i : Nat) (tk : Task), st.k.tasks[i]? = some tk ∧ tk.state ≠ .finished ∧ tk.detached = false)
    (hr : ∃ (i : Nat) (tk : Task), st.k.tasks[i]? = some tk ∧ tk.state = .runnable) :
    Consults st.k ∧ ∀ r, loopStep S segFuel st = .inl r →
      r.outcome ≠ .ok ∧ (∀ L, r.outcome ≠ .deadlock L) ∧ r.outcome ≠ .abandoned ∧
        ∀ n, r.outcome ≠ .stepBoundFail n := by
  have hua : st.k.unfinishedAttached = true := by
    obtain ⟨i, tk, h1, h2, h3⟩ := hu
    refine unfinishedAttached_iff.mpr ⟨i, tk, h1, ?_, h3⟩
    cases hf : tk.finished
    · rfl
    · exact absurd ((Task.finished_iff tk).mp hf) h2
  have har : st.k.anyRunnable = true := by
    obtain ⟨i, tk, h1, h2⟩ := hr
    exact anyRunnable_iff.mpr ⟨i, tk, h1, (Task.runnable_iff tk).mpr h2⟩
  have hne : endsHere st.k = false := by
    cases he : endsHere st.k
    · rfl
    · rw [(endsHere_of_unfinishedAttached hua).mp he] at har; cases har
  have hc : Consults st.k := ⟨hi.next, hb, hne⟩
  refine ⟨hc, ?_⟩
  intro r h
  have hf := loopStep_inl_final hi h
  cases hf with
  | loopFuel =>
    exact ⟨fun h => (by cases h), fun L h => (by cases h), fun h => (by cases h), fun n h => (by cases h)⟩
  | boundFail n h1 h2 => exact (hb.not_failAfter h1 h2).elim
  | boundStop n h1 h2 => exact (hb.not_continueAfter h1 h2).elim
  | deadlock h1 h2 h3 => exact (hc.not_ends h2).elim
  | ok h1 h2 h3 => exact (hc.not_ends h2).elim
  | schedPanic msg s' h1 h2 =>
    exact ⟨fun h => (by cases h), fun L h => (by cases h), fun h => (by cases h), fun n h => (by cases h)⟩
  | choseBad t msg s' h1 h2 h3 =>
    exact ⟨fun h => (by cases h), fun L h => (by cases h), fun h => (by cases h), fun n h => (by cases h)⟩
  | choseNone s' h1 h2 =>
    exact ⟨fun h => (by cases h), fun L h => (by cases h), fun h => (by cases h), fun n h => (by cases h)⟩
  | seg t s' p r h1 h2 h3 h4 h5 =>
    obtain ⟨_, ho, _⟩ := finishSeg_inl h5
    refine ⟨?_, ?_, ?_, ?_⟩
    · intro h; rw [h] at ho
      rcases ho with ho | ⟨_, ho⟩ | ⟨_, ho, _⟩ | ⟨_, ho⟩ <;> cases ho
    · intro L h; rw [h] at ho
      rcases ho with ho | ⟨_, ho⟩ | ⟨_, ho, _⟩ | ⟨_, ho⟩ <;> cases ho
    · intro h; rw [h] at ho
      rcases ho with ho | ⟨_, ho⟩ | ⟨_, ho, _⟩ | ⟨_, ho⟩ <;> cases ho
    · intro n h; rw [h] at ho
      rcases ho with ho | ⟨_, ho⟩ | ⟨_, ho, _⟩ | ⟨_, ho⟩ <;> cases ho

/-- **spurious_not_progress**: a task in state `Blocked{allow_spurious_wakeups: true}` is offered to the
scheduler, yet it does not count as runnable: if no task is `Runnable`, `schedule()` ends the execution without
consulting the scheduler — with a deadlock verdict whenever an attached task is unfinished — however many
spuriously-wakeable tasks there are. -/
theorem spurious_not_progress {ms : MaxSteps} (S : Scheduler σ) (segFuel : Nat) {st : ExecState P σ}
    (hi : LoopInv ms st) (hb : BoundOK st.k)
    (hno : ∀ (i : Nat) (tk : Task), st.k.tasks[i]? = some tk → tk.state ≠ .runnable) :
    (∀ (i : Nat) (tk : Task), st.k.tasks[i]? = some tk → tk.state = .blocked true → i ∈ st.k.offered) ∧
    ¬ Consults st.k ∧
    ∃ st', loopStep S segFuel st =
      .inl ⟨if st.k.unfinishedAttached then .deadlock st.k.deadlockList else .ok, st'⟩ := by
  have har : st.k.anyRunnable = false := by
    apply anyRunnable_false_iff.mpr
    intro i tk hk
    cases hr : tk.runnable
    · rfl
    · exact absurd ((Task.runnable_iff tk).mp hr) (hno i tk hk)
  have he : endsHere st.k = true := by simp [endsHere, har]
  refine ⟨?_, fun hc => hc.not_ends he, _, loopStep_ends S segFuel hi.next hi.conts hb he⟩
  intro i tk hk hs
  exact mem_offered.mpr ⟨tk, hk, Or.inr ((Task.canSpuriouslyWakeup_iff tk).mpr hs)⟩

/-- **terminates_under_bound** (proved in C13): under a step bound `n`, a program without `reset_step_count`
consults the scheduler at most `n` times; the loop makes at most `n` continuing iterations. -/
theorem terminates_under_bound (P : Program) (hP : NoReset P) (S : Scheduler σ) (ms : MaxSteps) (n : Nat)
    (hb : boundOf ms = some n) (seed : Nat) (s : σ) (fuel segFuel : Nat) :
    decCount (execute P S ms seed s fuel segFuel).st.log.toList ≤ n ∧
      ∀ m st, ReachN S segFuel m (initState P ms seed s) st → m ≤ n :=
  ⟨C13.terminates_under_bound P hP S ms n hb seed s fuel segFuel,
   (C13.terminates_under_bound_iterations P hP S ms n hb seed s segFuel).1⟩

/-! ### non-vacuity -/

/-- main blocks itself for good after spawning a child that just ends: `deadlock` listing main (attached, not
sleeping); no task runnable in the final state -/
example :
    (execute exDeadlock firstSched .none 0 () 20 20).outcome = .deadlock [(0, false, false)] ∧
    (execute exDeadlock firstSched .none 0 () 20 20).st.k.anyRunnable = false ∧
    (execute exDeadlock firstSched .none 0 () 20 20).st.k.unfinishedAttached = true := by decide

/-- main parks with nobody to unpark it: it is offered (`offered = [0]`) but the verdict is `deadlock` and the
scheduler is not consulted a second time -/
example :
    (execute exPark firstSched .none 0 () 20 20).outcome = .deadlock [(0, false, false)] ∧
    (execute exPark firstSched .none 0 () 20 20).st.k.offered = [0] ∧
    (execute exPark firstSched .none 0 () 20 20).st.log.toList = [.dec [0] none false (some 0)] := by decide

/-- main ends with a detached runnable child left: `ok`, the child is never run (`detached_leftovers_ok`) -/
example :
    (execute exDetached firstSched .none 0 () 20 20).outcome = .ok ∧
    (execute exDetached firstSched .none 0 () 20 20).st.k.anyRunnable = true ∧
    (execute exDetached firstSched .none 0 () 20 20).st.k.allRunnableDetached = true := by decide

/-- `DeadlockAt` holds in the final state of the deadlocking example -/
example : DeadlockAt (execute exDeadlock firstSched .none 0 () 20 20).st.k :=
  ⟨trivial, by decide, by decide⟩

end ShuttleProofs.C03
