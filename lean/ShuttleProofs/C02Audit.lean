import ShuttleProofs.C02

open ShuttleProofs.C02

#print axioms complete_switch_normal
#print axioms complete_outcomes
#print axioms incomplete_witness_mpsc_drop_ref
#print axioms mpscDropMissing_str
#print axioms runPath_hasOutcome
#print axioms Example.h_offer
#print axioms Example.h_enabled
#print axioms Example.h_step
#print axioms Example.run_true_first
#print axioms Spec.Run.append
#print axioms Runtime.Exec.choices_eq
