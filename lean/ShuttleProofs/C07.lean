import ShuttleProofs.Lemmas.Storage
/-
  C07 — threads and thread-locals.  Part 1: the storage map behind `thread_local!`
  (shuttle-engine/src/runtime/storage.rs, `LocalKey` in thread_support.rs), over the transcription
  `ShuttleModel/Storage.lean`.
-/
namespace ShuttleProofs.C07
open ShuttleModel ShuttleModel.Storage ShuttleModel.Storage.StorageMap

/-! ### Storage -/

/-- **A slot is initialised at most once.**  `init` succeeds exactly on a key that was never initialised
(the value is then readable and the key joins the end of the destruction order); on an initialised slot —
whether its value is still alive or it is a tombstone left by `pop` — it is the documented panic
"cannot reinitialize a storage slot". -/
theorem storage_init_once {α : Type} (m : StorageMap α) (k : StorageKey) (v : α) :
    (m.get k = none →
        ∃ m', m.init k v = .ok m' ∧ m'.get k = some (.ok v) ∧ m'.order = m.order ++ [k] ∧
          ∀ w, m'.init k w = .error "cannot reinitialize a storage slot") ∧
    (∀ x, m.get k = some (.ok x) → m.init k v = .error "cannot reinitialize a storage slot") ∧
    (m.get k = some (.error .alreadyDestructed) → m.init k v = .error "cannot reinitialize a storage slot") := by
  refine ⟨fun h => ?_, fun x h => ?_, fun h => ?_⟩
  · have hk := (get_eq_none_iff m k).1 h
    refine ⟨m.pushed k v, init_fresh m k v hk, ?_, rfl, fun w => init_present _ k w (by simp)⟩
    simp [StorageMap.get, lookup_pushed_self m k v hk]
  · exact init_present m k v (by
      apply Classical.byContradiction; intro hn; rw [(get_eq_none_iff m k).2 hn] at h; cases h)
  · exact init_present m k v (by
      apply Classical.byContradiction; intro hn; rw [(get_eq_none_iff m k).2 hn] at h; cases h)

example : ∃ m : StorageMap Nat, m.get ⟨1, 0⟩ = none ∧ m.get ⟨0, 0⟩ = some (.ok 7) ∧
    (∃ v m', m.pop = .popped v m' ∧ m'.get ⟨0, 0⟩ = some (.error .alreadyDestructed) ∧
      m'.init ⟨0, 0⟩ 9 = .error "cannot reinitialize a storage slot") :=
  ⟨{ locals := [(⟨0, 0⟩, some 7)], order := [⟨0, 0⟩] }, rfl, rfl, 7, _, rfl, rfl, rfl⟩

/-- **`pop` follows initialisation order.**  One step: on a well-formed map `pop` never hits its `expect`s;
it returns `None` exactly when no value is alive, and otherwise the oldest live value, which it removes
from the live values (so no value is returned twice) while keeping the slot as a tombstone.  Iterated:
repeated `pop` returns exactly the live values in initialisation order, each once, then `None`; and for a
map built by `init`ialising distinct keys `k₁…kₙ` with `v₁…vₙ`, that is `v₁…vₙ`. -/
theorem storage_pop_in_insertion_order {α : Type} {m : StorageMap α} (h : m.WF) :
    ((m.pop = .empty ∧ m.liveVals = []) ∨
      (∃ v m', m.pop = .popped v m' ∧ m.liveVals = v :: m'.liveVals ∧ m'.WF ∧ m'.keys = m.keys)) ∧
    (let r := drain (fun _ => []) (m.order.length + 1) m []
     r.dropped = m.liveVals ∧ r.completed = true ∧ r.panic = none ∧ r.final.pop = .empty ∧
       r.final.keys = m.keys) ∧
    (∀ kvs : List (StorageKey × α), (kvs.map (·.1)).Nodup →
      ∃ m0, initAll (new : StorageMap α) kvs = .ok m0 ∧
        (drain (fun _ => []) (kvs.length + 1) m0 []).dropped = kvs.map (·.2)) := by
  have gen : ∀ {m : StorageMap α}, m.WF →
      (let r := drain (fun _ => []) (m.order.length + 1) m []
       r.dropped = m.liveVals ∧ r.completed = true ∧ r.panic = none ∧ r.final.pop = .empty ∧
         r.final.keys = m.keys) := by
    intro m h
    have hs := drain_spec (K := []) (fun _ : α => []) (by simp) (m.order.length + 1) m [] h
      (by simp [Storage.measure])
    obtain ⟨late, hl⟩ := hs.order
    obtain ⟨ks, hk, hks⟩ := hs.keys
    have hks' : ks = [] := by
      cases ks with
      | nil => rfl
      | cons a _ => exact absurd (hks a List.mem_cons_self) (by simp)
    subst hks'
    have hc := hs.count
    have hlen := keys_length m
    simp only [List.append_nil] at hk
    rw [hk, hlen, hl] at hc
    simp at hc
    have : late = [] := by
      cases late with
      | nil => rfl
      | cons _ _ => simp at hc; omega
    subst this
    exact ⟨by simpa using hl, hs.completed, hs.noPanic, (pop_empty_iff _).2 hs.drained.1, hk⟩
  refine ⟨?_, gen h, ?_⟩
  · cases ho : m.order with
    | nil => exact .inl ⟨(pop_empty_iff m).2 ho, (liveVals_nil_of_order_nil h ho).1⟩
    | cons k rest =>
      obtain ⟨v, m', hp, hwf, _, hk, hv, _⟩ := pop_wf h ho
      exact .inr ⟨v, m', hp, hv, hwf, hk⟩
  · intro kvs hn
    obtain ⟨m0, e, wf, ks, vs, _⟩ := initAll_spec kvs (m := new) new_wf (by simpa [new, keys] using hn)
    refine ⟨m0, e, ?_⟩
    have := gen wf
    have hlen : m0.order.length = kvs.length := by
      rw [wf.order_eq]
      have h1 := keys_length m0
      have : m0.liveKeys.length = m0.liveVals.length := by
        unfold liveKeys liveVals
        induction m0.locals with
        | nil => rfl
        | cons hd tl ih => obtain ⟨k, o⟩ := hd; cases o <;> simp [List.filter_cons] at ih ⊢ <;> exact ih
      rw [this, vs]; simp [new, liveVals]
    rw [hlen] at this
    rw [this.1, vs]; simp [new, liveVals]

example : (drain (fun _ : Nat => []) 4
    { locals := [(⟨5, 0⟩, some 50), (⟨2, 0⟩, none), (⟨9, 1⟩, some 90)], order := [⟨5, 0⟩, ⟨9, 1⟩] } []).dropped
    = [50, 90] := by decide

/-- **No resurrection.**  After `pop` has destructed the slot of key `k`, `get k` is
`Some(Err(AlreadyDestructedError))` — not `None`, which would make `try_with` run the initialiser again —;
`LocalKey::try_with` reports `AccessError` without touching the map, `LocalKey::with` panics with the
documented message, `init` panics; and the tombstone survives every later `pop`, `init` of other keys and
`try_with` access. -/
theorem storage_tombstone_access_is_error {α : Type} {m : StorageMap α} (h : m.WF) {k : StorageKey}
    {rest : List StorageKey} (ho : m.order = k :: rest) :
    ∃ v m', m.pop = .popped v m' ∧ m.get k = some (.ok v) ∧
      m'.get k = some (.error .alreadyDestructed) ∧
      (∀ w, m'.init k w = .error "cannot reinitialize a storage slot") ∧
      (∀ w, tryWith m' k w = .ok (.error .accessError, m')) ∧
      (∀ w, withKey m' k w = .error "cannot access a Thread Local Storage value during or after destruction") ∧
      (∀ (K : List StorageKey) (dtor : α → List (StorageKey × α)), (∀ v, ∀ p ∈ dtor v, p.1 ∈ K) →
        ∀ fuel, Storage.measure K m' < fuel →
          (drain dtor fuel m' []).final.get k = some (.error .alreadyDestructed)) := by
  obtain ⟨v, m', hp, hwf, _, hk, _, _, hl, hl', _⟩ := pop_wf h ho
  have hmem : k ∈ m'.keys := by
    apply Classical.byContradiction; intro hn; rw [(lookup_eq_none_iff m' k).2 hn] at hl'; cases hl'
  have htw : ∀ w, tryWith m' k w = .ok (.error .accessError, m') := by
    intro w
    rcases tryWith_spec hwf k w with ⟨hn, _⟩ | ⟨_, ⟨x, hx, _⟩ | ⟨_, e⟩⟩
    · exact absurd hmem hn
    · rw [hl'] at hx; cases hx
    · exact e
  refine ⟨v, m', hp, by simp [StorageMap.get, hl], by simp [StorageMap.get, hl'],
    fun w => init_present m' k w hmem, htw, fun w => by simp [withKey, htw w], ?_⟩
  intro K dtor hK fuel hf
  have := (drain_spec dtor hK fuel m' [] hwf hf).dead k hl'
  simp [StorageMap.get, this]

example : ∃ (m : StorageMap Nat) (k : StorageKey) (rest : List StorageKey), m.WF ∧ m.order = k :: rest :=
  ⟨{ locals := [(⟨0, 0⟩, some 7), (⟨1, 0⟩, some 8)], order := [⟨0, 0⟩, ⟨1, 0⟩] }, ⟨0, 0⟩, [⟨1, 0⟩],
    ⟨by decide, by decide⟩, rfl⟩

/-- **The destructor loop terminates, also when destructors initialise new slots.**  Let every destructor
access (with `try_with`) only keys from a finite set `K` — the `thread_local!` statics of the program.  The
loop `while let Some(v) = pop() { drop(v) }` then ends after at most
`|K \ keys(m)| + |live slots|` iterations, without panicking, with no live value left, having run one
destructor per value that was ever initialised: those alive at the start first, in initialisation order,
then those the destructors initialised, so that
`#destructors run + #tombstones at the start = #slots ever initialised`.  Tombstones present at the start
are still tombstones at the end. -/
theorem storage_pop_loop_terminates_with_late_inits {α : Type} (K : List StorageKey)
    (dtor : α → List (StorageKey × α)) (hK : ∀ v, ∀ p ∈ dtor v, p.1 ∈ K)
    {m : StorageMap α} (h : m.WF) (fuel : Nat) (hf : Storage.measure K m < fuel) :
    let r := drain dtor fuel m []
    r.completed = true ∧ r.panic = none ∧ r.final.WF ∧ r.final.pop = .empty ∧ r.final.liveVals = [] ∧
      r.dropped.length + m.tombstones = r.final.keys.length ∧
      (∃ late, r.dropped = m.liveVals ++ late) ∧
      (∃ ks, r.final.keys = m.keys ++ ks ∧ ∀ k ∈ ks, k ∈ K) ∧
      (∀ k, m.get k = some (.error .alreadyDestructed) → r.final.get k = some (.error .alreadyDestructed)) := by
  have hs := drain_spec dtor hK fuel m [] h hf
  refine ⟨hs.completed, hs.noPanic, hs.wf, (pop_empty_iff _).2 hs.drained.1, hs.drained.2, by simpa using hs.count,
    by simpa using hs.order, hs.keys, ?_⟩
  intro k hk
  have : m.lookup k = some none := by
    unfold StorageMap.get at hk
    cases hl : m.lookup k with
    | none => simp [hl] at hk
    | some o => cases o with
      | none => rfl
      | some x => simp [hl] at hk
  simp [StorageMap.get, hs.dead k this]

/-- non-vacuity: the destructor of value 10 initialises key 2 (value 30) and touches the already destructed
key 0; the destructor of 30 initialises key 3 (value 40): four destructors run, 10, 20, 30, 40 -/
example :
    let dtor : Nat → List (StorageKey × Nat) := fun v =>
      if v = 10 then [(⟨2, 0⟩, 30), (⟨0, 0⟩, 99)] else if v = 30 then [(⟨3, 0⟩, 40)] else []
    let m : StorageMap Nat := { locals := [(⟨0, 0⟩, some 10), (⟨1, 0⟩, some 20)], order := [⟨0, 0⟩, ⟨1, 0⟩] }
    Storage.measure [⟨0, 0⟩, ⟨1, 0⟩, ⟨2, 0⟩, ⟨3, 0⟩] m = 4 ∧
    (drain dtor 5 m []).dropped = [10, 20, 30, 40] ∧ (drain dtor 5 m []).completed = true := by decide

end ShuttleProofs.C07
