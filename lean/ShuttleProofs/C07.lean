import ShuttleProofs.Lemmas.Storage
import ShuttleProofs.Lemmas.ThreadLang
import ShuttleProofs.Lemmas.TlsRefine
import ShuttleProofs.Lemmas.KernelExamples
/-
  C07 — threads and thread-locals.  Part 1: the storage map behind `thread_local!`
  (shuttle-engine/src/runtime/storage.rs, `LocalKey` in thread_support.rs), over the transcription
  `ShuttleModel/Storage.lean`.
-/
namespace ShuttleProofs.C07
open ShuttleModel ShuttleModel.Storage ShuttleModel.Storage.StorageMap

/-! ### Storage -/

/-- **A slot is initialised at most once.**  `init` succeeds exactly on a key that was never initialised
(the value is then readable and the key joins the end of the destruction order); on an initialised slot —
whether its value is still alive or it is a tombstone left by `pop` — it is the documented panic
"cannot reinitialize a storage slot". -/
theorem storage_init_once {α : Type} (m : StorageMap α) (k : StorageKey) (v : α) :
    (m.get k = none →
        ∃ m', m.init k v = .ok m' ∧ m'.get k = some (.ok v) ∧ m'.order = m.order ++ [k] ∧
          ∀ w, m'.init k w = .error "cannot reinitialize a storage slot") ∧
    (∀ x, m.get k = some (.ok x) → m.init k v = .error "cannot reinitialize a storage slot") ∧
    (m.get k = some (.error .alreadyDestructed) → m.init k v = .error "cannot reinitialize a storage slot") := by
  refine ⟨fun h => ?_, fun x h => ?_, fun h => ?_⟩
  · have hk := (get_eq_none_iff m k).1 h
    refine ⟨m.pushed k v, init_fresh m k v hk, ?_, rfl, fun w => init_present _ k w (by simp)⟩
    simp [StorageMap.get, lookup_pushed_self m k v hk]
  · exact init_present m k v (by
      apply Classical.byContradiction; intro hn; rw [(get_eq_none_iff m k).2 hn] at h; cases h)
  · exact init_present m k v (by
      apply Classical.byContradiction; intro hn; rw [(get_eq_none_iff m k).2 hn] at h; cases h)

example : ∃ m : StorageMap Nat, m.get ⟨1, 0⟩ = none ∧ m.get ⟨0, 0⟩ = some (.ok 7) ∧
    (∃ v m', m.pop = .popped v m' ∧ m'.get ⟨0, 0⟩ = some (.error .alreadyDestructed) ∧
      m'.init ⟨0, 0⟩ 9 = .error "cannot reinitialize a storage slot") :=
  ⟨{ locals := [(⟨0, 0⟩, some 7)], order := [⟨0, 0⟩] }, rfl, rfl, 7, _, rfl, rfl, rfl⟩

/-- **`pop` follows initialisation order.**  One step: on a well-formed map `pop` never hits its `expect`s;
it returns `None` exactly when no value is alive, and otherwise the oldest live value, which it removes
from the live values (so no value is returned twice) while keeping the slot as a tombstone.  Iterated:
repeated `pop` returns exactly the live values in initialisation order, each once, then `None`; and for a
map built by `init`ialising distinct keys `k₁…kₙ` with `v₁…vₙ`, that is `v₁…vₙ`. -/
theorem storage_pop_in_insertion_order {α : Type} {m : StorageMap α} (h : m.WF) :
    ((m.pop = .empty ∧ m.liveVals = []) ∨
      (∃ v m', m.pop = .popped v m' ∧ m.liveVals = v :: m'.liveVals ∧ m'.WF ∧ m'.keys = m.keys)) ∧
    (let r := drain (fun _ => []) (m.order.length + 1) m []
     r.dropped = m.liveVals ∧ r.completed = true ∧ r.panic = none ∧ r.final.pop = .empty ∧
       r.final.keys = m.keys) ∧
    (∀ kvs : List (StorageKey × α), (kvs.map (·.1)).Nodup →
      ∃ m0, initAll (new : StorageMap α) kvs = .ok m0 ∧
        (drain (fun _ => []) (kvs.length + 1) m0 []).dropped = kvs.map (·.2)) := by
  have gen : ∀ {m : StorageMap α}, m.WF →
      (let r := drain (fun _ => []) (m.order.length + 1) m []
       r.dropped = m.liveVals ∧ r.completed = true ∧ r.panic = none ∧ r.final.pop = .empty ∧
         r.final.keys = m.keys) := by
    intro m h
    have hs := drain_spec (K := []) (fun _ : α => []) (by simp) (m.order.length + 1) m [] h
      (by simp [Storage.measure])
    obtain ⟨late, hl⟩ := hs.order
    obtain ⟨ks, hk, hks⟩ := hs.keys
    have hks' : ks = [] := by
      cases ks with
      | nil => rfl
      | cons a _ => exact absurd (hks a List.mem_cons_self) (by simp)
    subst hks'
    have hc := hs.count
    have hlen := keys_length m
    simp only [List.append_nil] at hk
    rw [hk, hlen, hl] at hc
    simp at hc
    have : late = [] := by
      cases late with
      | nil => rfl
      | cons _ _ => simp at hc; omega
    subst this
    exact ⟨by simpa using hl, hs.completed, hs.noPanic, (pop_empty_iff _).2 hs.drained.1, hk⟩
  refine ⟨?_, gen h, ?_⟩
  · cases ho : m.order with
    | nil => exact .inl ⟨(pop_empty_iff m).2 ho, (liveVals_nil_of_order_nil h ho).1⟩
    | cons k rest =>
      obtain ⟨v, m', hp, hwf, _, hk, hv, _⟩ := pop_wf h ho
      exact .inr ⟨v, m', hp, hv, hwf, hk⟩
  · intro kvs hn
    obtain ⟨m0, e, wf, ks, vs, _⟩ := initAll_spec kvs (m := new) new_wf (by simpa [new, keys] using hn)
    refine ⟨m0, e, ?_⟩
    have := gen wf
    have hlen : m0.order.length = kvs.length := by
      rw [wf.order_eq]
      have h1 := keys_length m0
      have : m0.liveKeys.length = m0.liveVals.length := by
        unfold liveKeys liveVals
        induction m0.locals with
        | nil => rfl
        | cons hd tl ih => obtain ⟨k, o⟩ := hd; cases o <;> simp [List.filter_cons] at ih ⊢ <;> exact ih
      rw [this, vs]; simp [new, liveVals]
    rw [hlen] at this
    rw [this.1, vs]; simp [new, liveVals]

example : (drain (fun _ : Nat => []) 4
    { locals := [(⟨5, 0⟩, some 50), (⟨2, 0⟩, none), (⟨9, 1⟩, some 90)], order := [⟨5, 0⟩, ⟨9, 1⟩] } []).dropped
    = [50, 90] := by decide

/-- **No resurrection.**  After `pop` has destructed the slot of key `k`, `get k` is
`Some(Err(AlreadyDestructedError))` — not `None`, which would make `try_with` run the initialiser again —;
`LocalKey::try_with` reports `AccessError` without touching the map, `LocalKey::with` panics with the
documented message, `init` panics; and the tombstone survives every later `pop`, `init` of other keys and
`try_with` access. -/
theorem storage_tombstone_access_is_error {α : Type} {m : StorageMap α} (h : m.WF) {k : StorageKey}
    {rest : List StorageKey} (ho : m.order = k :: rest) :
    ∃ v m', m.pop = .popped v m' ∧ m.get k = some (.ok v) ∧
      m'.get k = some (.error .alreadyDestructed) ∧
      (∀ w, m'.init k w = .error "cannot reinitialize a storage slot") ∧
      (∀ w, tryWith m' k w = .ok (.error .accessError, m')) ∧
      (∀ w, withKey m' k w = .error "cannot access a Thread Local Storage value during or after destruction") ∧
      (∀ (K : List StorageKey) (dtor : α → List (StorageKey × α)), (∀ v, ∀ p ∈ dtor v, p.1 ∈ K) →
        ∀ fuel, Storage.measure K m' < fuel →
          (drain dtor fuel m' []).final.get k = some (.error .alreadyDestructed)) := by
  obtain ⟨v, m', hp, hwf, _, hk, _, _, hl, hl', _⟩ := pop_wf h ho
  have hmem : k ∈ m'.keys := by
    apply Classical.byContradiction; intro hn; rw [(lookup_eq_none_iff m' k).2 hn] at hl'; cases hl'
  have htw : ∀ w, tryWith m' k w = .ok (.error .accessError, m') := by
    intro w
    rcases tryWith_spec hwf k w with ⟨hn, _⟩ | ⟨_, ⟨x, hx, _⟩ | ⟨_, e⟩⟩
    · exact absurd hmem hn
    · rw [hl'] at hx; cases hx
    · exact e
  refine ⟨v, m', hp, by simp [StorageMap.get, hl], by simp [StorageMap.get, hl'],
    fun w => init_present m' k w hmem, htw, fun w => by simp [withKey, htw w], ?_⟩
  intro K dtor hK fuel hf
  have := (drain_spec dtor hK fuel m' [] hwf hf).dead k hl'
  simp [StorageMap.get, this]

example : ∃ (m : StorageMap Nat) (k : StorageKey) (rest : List StorageKey), m.WF ∧ m.order = k :: rest :=
  ⟨{ locals := [(⟨0, 0⟩, some 7), (⟨1, 0⟩, some 8)], order := [⟨0, 0⟩, ⟨1, 0⟩] }, ⟨0, 0⟩, [⟨1, 0⟩],
    ⟨by decide, by decide⟩, rfl⟩

/-- **The destructor loop terminates, also when destructors initialise new slots.**  Let every destructor
access (with `try_with`) only keys from a finite set `K` — the `thread_local!` statics of the program.  The
loop `while let Some(v) = pop() { drop(v) }` then ends after at most
`|K \ keys(m)| + |live slots|` iterations, without panicking, with no live value left, having run one
destructor per value that was ever initialised: those alive at the start first, in initialisation order,
then those the destructors initialised, so that
`#destructors run + #tombstones at the start = #slots ever initialised`.  Tombstones present at the start
are still tombstones at the end. -/
theorem storage_pop_loop_terminates_with_late_inits {α : Type} (K : List StorageKey)
    (dtor : α → List (StorageKey × α)) (hK : ∀ v, ∀ p ∈ dtor v, p.1 ∈ K)
    {m : StorageMap α} (h : m.WF) (fuel : Nat) (hf : Storage.measure K m < fuel) :
    let r := drain dtor fuel m []
    r.completed = true ∧ r.panic = none ∧ r.final.WF ∧ r.final.pop = .empty ∧ r.final.liveVals = [] ∧
      r.dropped.length + m.tombstones = r.final.keys.length ∧
      (∃ late, r.dropped = m.liveVals ++ late) ∧
      (∃ ks, r.final.keys = m.keys ++ ks ∧ ∀ k ∈ ks, k ∈ K) ∧
      (∀ k, m.get k = some (.error .alreadyDestructed) → r.final.get k = some (.error .alreadyDestructed)) := by
  have hs := drain_spec dtor hK fuel m [] h hf
  refine ⟨hs.completed, hs.noPanic, hs.wf, (pop_empty_iff _).2 hs.drained.1, hs.drained.2, by simpa using hs.count,
    by simpa using hs.order, hs.keys, ?_⟩
  intro k hk
  have : m.lookup k = some none := by
    unfold StorageMap.get at hk
    cases hl : m.lookup k with
    | none => simp [hl] at hk
    | some o => cases o with
      | none => rfl
      | some x => simp [hl] at hk
  simp [StorageMap.get, hs.dead k this]

/-- non-vacuity: the destructor of value 10 initialises key 2 (value 30) and touches the already destructed
key 0; the destructor of 30 initialises key 3 (value 40): four destructors run, 10, 20, 30, 40 -/
example :
    let dtor : Nat → List (StorageKey × Nat) := fun v =>
      if v = 10 then [(⟨2, 0⟩, 30), (⟨0, 0⟩, 99)] else if v = 30 then [(⟨3, 0⟩, 40)] else []
    let m : StorageMap Nat := { locals := [(⟨0, 0⟩, some 10), (⟨1, 0⟩, some 20)], order := [⟨0, 0⟩, ⟨1, 0⟩] }
    Storage.measure [⟨0, 0⟩, ⟨1, 0⟩, ⟨2, 0⟩, ⟨3, 0⟩] m = 4 ∧
    (drain dtor 5 m []).dropped = [10, 20, 30, 40] ∧ (drain dtor 5 m []).completed = true := by decide

/-! ## Part 2 — threads over the kernel model

Vocabulary: `ShuttleProofs/Lemmas/ThreadFine.lean` (`FineStep`/`FineTrace`: the relational semantics of
`runSegment` that remembers which task a request updates), `ThreadInv.lean` (`HardBlocked`, `isUnblockOf`,
`iter_*`, `reach_*`), `ThreadLang.lean` (`exitSwitch`, `joinTail`, `scopeExit`, `afterScopeExit`, `withMainWaiting`,
shapes of `threadFn` / `IR.scopedBody` / `scopeClose`).

Not modelled, hence not covered: the *value* a closure returns and `JoinHandle::join` hands back (the model's
bodies are `Prog U Unit`; in Rust the value travels through `result: Arc<Mutex<Option<Result<T>>>>`, written by
`thread_fn` after the destructor loop and before `take_waiter`, and taken by `join` with
`expect("target should have finished")`), and thread *names* (`Task.name`, fixed at spawn, not in the model's
`Task`).  `ThreadId` is the task id, which is modelled.
-/

section threads
open ShuttleProofs.Kernel ShuttleProofs.Thread

variable {P : Program} {σ : Type}

/-- **thread_fn_order.**  `thread_fn` is, in this order: the closure, the optional pre-exit switch, the
thread-local destructor loop, and the `take_waiter`/`unblock` pair.  The loop falls through to that pair only
from a round that has just read an *empty* destruction order (otherwise it pops the oldest key, leaves a
tombstone, runs the destructor and goes round again), and the pair unblocks exactly the registered joiner.
(The model's loop also carries a round bound `ir.objs.length + 1`; by
`storage_pop_loop_terminates_with_late_inits` the number of rounds is at most the number of thread-local keys,
which are among the `ir.objs.length` objects.) -/
theorem thread_fn_order (ir : IR) (k : Nat) (f : ShuttleModel.P Unit) (sbe : Bool) :
    threadFn ir k f sbe =
      Prog.bind f (fun _ => Prog.bind (exitSwitch sbe) (fun _ =>
        Prog.bind (tlsPopLoop ir k (ir.objs.length + 1)) (fun _ => joinTail))) ∧
    (∀ n, tlsPopLoop ir k (n + 1) =
      Prog.bind (K.getL (Heap.localL k)) (fun l =>
        match l.tlsOrder with
        | [] => Prog.pure ()
        | key :: rest =>
          Prog.bind (K.setL (Heap.localL k) { l with
              tlsOrder := rest,
              tlsSlots := l.tlsSlots.map (fun p => if p.1 == key then (key, false) else p) })
            (fun _ => Prog.bind (tlsDtor ir k key) (fun _ => tlsPopLoop ir k n)))) ∧
    (∀ (S : Scheduler σ) (me fuel : Nat) (st : ExecState ir.program σ) (tk : Task),
      st.k.tasks[me]? = some tk →
      (tk.waiter = none →
        runSegment S me (fuel + 1) st joinTail =
          runSegment S me fuel { st with k := st.k.setTask me { tk with waiter := none } } (.pure ())) ∧
      (∀ j, tk.waiter = some j →
        runSegment S me (fuel + 2) st joinTail =
          match (st.k.setTask me { tk with waiter := none }).modTask j (·.unblock) with
          | .ok k' => runSegment S me fuel { st with k := k' } (.pure ())
          | .error e => .panicked e { st with k := st.k.setTask me { tk with waiter := none } })) :=
  ⟨threadFn_eq ir k f sbe, tlsPopLoop_succ ir k, fun S me fuel st _ h => runSegment_joinTail S me fuel st h⟩

example : ∃ ir : IR, ir.objs.length = 1 ∧ (ir.tasks.length = 2) :=
  ⟨{ objs := [{ name := "t", kind := "tls", args := ["log"] }], tasks := [{}, {}] }, rfl, rfl⟩

/-- **join_returns_only_when_finished.**
(a) `Task::set_waiter` answers "do not block" only for a `Finished` target, and otherwise records the joiner
    without touching the target's state;
(b) a task `j` blocked by `block(false)` (what `join` does after `set_waiter` returned `true`) and not parked
    is not offered to the scheduler, and is still blocked after any loop iteration whose segment issues no
    `unblock(j)` request before its next scheduling point — no other request (`wake`, `unpark`, `block`, …, of
    any task) and no scheduler decision resumes it;
(c) the tail of the target's `thread_fn` is such a request, for exactly the registered joiner
    (`thread_fn_order`), and it comes after the destructor loop.
What is **not** claimed here: that no *other* code issues `unblock(j)` while `j` waits in `join`.  In the pinned
tree the last scoped thread of a `thread::scope` did (F10, repaired in /repo 9ec3e7a); for the repaired code see
`scope_unblock_only_when_waiting`: a scoped thread's exit issues `unblock(main)` only when `main` has blocked at
the end of the scope. -/
theorem join_returns_only_when_finished :
    (∀ (tk tk' : Task) (w : Nat) (b : Bool), tk.setWaiter w = .ok (b, tk') →
      (b = false → tk.finished = true ∧ tk' = tk) ∧
      (b = true → tk.finished = false ∧ tk'.waiter = some w ∧ tk'.state = tk.state)) ∧
    (∀ (S : Scheduler σ) (segFuel : Nat) (st b : ExecState P σ) (j : Nat) (tk : Task),
      st.k.next = .none → st.conts.length = st.k.tasks.length → loopStep S segFuel st = .inr b →
      st.k.tasks[j]? = some tk → HardBlocked tk →
      j ∉ st.k.offered ∧
      ((∀ t p, t ∈ st.k.offered → st.conts[t]? = some p →
          UntilSwitch (P := P) (isUnblockOf j) p ∧ UntilSwitch (P := P) (isUnblockOf j) (P.unwind t)) →
        ∃ tk', b.k.tasks[j]? = some tk' ∧ HardBlocked tk')) := by
  refine ⟨?_, ?_⟩
  · intro tk tk' w b h
    unfold Task.setWaiter at h
    split at h
    · cases h
    · split at h
      · rename_i hf
        cases h
        exact ⟨fun _ => ⟨hf, rfl⟩, fun hb => (by cases hb)⟩
      · rename_i hf
        cases h
        exact ⟨fun hb => (by cases hb), fun _ => ⟨by simpa using hf, rfl, rfl⟩⟩
  · intro S segFuel st b j tk hn hc hs hj hb
    exact ⟨not_offered_of_hardBlocked hj hb, fun hprog => iter_blocked hn hc hs hj hb hprog⟩

/-- non-vacuity of (b): in `exDeadlock` main blocks itself with `block(false)`; at the second loop head it is
`HardBlocked` and not offered -/
example : ∃ tk, (runLoop firstSched 20 1 (initState exDeadlock .none 0 ())).st.k.tasks[0]? = some tk ∧
    tk.state = .blocked false ∧ tk.blockedInPark = false := ⟨_, rfl, by decide, by decide⟩

/-- **task_ids_unique.**  A task id is the index of its entry in the append-only task table:
`spawn` (all of `spawn_thread` / `spawn_future` / `spawn_main_thread`) returns the current length of the table,
a spawn by an existing task lengthens the table by exactly one, no request and no loop iteration shortens it —
so an id is never handed out twice in an execution —, and the id a thread reads for itself (`ExecutionState::me()`,
hence `thread::current().id()`) is the index under which the run loop resumed it. -/
theorem task_ids_unique :
    (∀ (k : Kernel) (parent : Option Nat), (k.spawnTask parent).1 = k.tasks.length) ∧
    (∀ (k : Kernel), (k.spawnTask none).2.tasks.length = k.tasks.length + 1) ∧
    (∀ (k : Kernel) (p : Nat), p < k.tasks.length → (k.spawnTask (some p)).2.tasks.length = k.tasks.length + 1) ∧
    (∀ (S : Scheduler σ) (me fuel : Nat) (st : ExecState P σ) (fut : Bool) (body : Nat) (kont : Nat → Prog P.U Unit),
      runSegment S me (fuel + 1) st (.op (.spawn fut body) kont) =
        runSegment S me fuel { st with k := (st.k.spawnTask (some me)).2, conts := st.conts ++ [P.bodies body] }
          (kont st.k.tasks.length)) ∧
    (∀ (S : Scheduler σ) (me fuel : Nat) (st : ExecState P σ) (p : Prog P.U Unit),
      st.k.tasks.length ≤ (runSegment S me fuel st p).st.k.tasks.length) ∧
    (∀ (S : Scheduler σ) (segFuel : Nat) (ms : MaxSteps) (a b : ExecState P σ), LoopInv ms a →
      Reach S segFuel a b → a.k.tasks.length ≤ b.k.tasks.length) ∧
    (∀ (S : Scheduler σ) (me fuel : Nat) (st : ExecState P σ) (kont : Nat → Prog P.U Unit),
      runSegment S me (fuel + 1) st (.op .me kont) = runSegment S me fuel st (kont me)) := by
  refine ⟨spawnTask_fst, ?_, ?_, ?_, ?_, ?_, ?_⟩
  · intro k; simp [Kernel.spawnTask]
  · intro k p hp
    obtain ⟨ts, heq, _, hlt⟩ := spawnTask_some_spec k p
    rw [heq]; exact hlt hp
  · intro S me fuel st fut body kont
    rw [runSegment]
    have h1 := spawnTask_fst st.k (some me)
    rcases hsp : st.k.spawnTask (some me) with ⟨tid, k'⟩
    rw [hsp] at h1
    simp only at h1
    subst h1
    rfl
  · intro S me fuel st p
    exact (runSegment_trace S me fuel st p).frame.tasksLen
  · intro S segFuel ms a b hi h
    exact reach_tasks_length hi h
  · intro S me fuel st kont
    rw [runSegment]

example : ((({} : Kernel).spawnTask none).2.spawnTask (some 0)).1 = 1 := by decide

/-- **closure_runs_once.**
(a) the program of body `b` enters the continuation table only through a `spawn … b` request, as a new last
    entry whose index is the id that request returns (the table has one entry per task);
(b) a loop iteration resumes exactly one task, one the scheduler was offered — hence not `Finished` — from the
    continuation stored for it, and leaves every other task's continuation untouched;
(c) when that task's closure returns, the task becomes `Finished`;
(d) a `Finished` task stays `Finished`, is never offered again and its continuation never changes, at every
    loop head reachable afterwards: its closure is not run a second time. -/
theorem closure_runs_once :
    (∀ (S : Scheduler σ) (me fuel : Nat) (st : ExecState P σ) (fut : Bool) (body : Nat) (kont : Nat → Prog P.U Unit),
      st.conts.length = st.k.tasks.length →
      ∃ st', runSegment S me (fuel + 1) st (.op (.spawn fut body) kont) =
          runSegment S me fuel st' (kont st.k.tasks.length) ∧
        st'.conts = st.conts ++ [P.bodies body] ∧ st'.conts[st.k.tasks.length]? = some (P.bodies body)) ∧
    (∀ (S : Scheduler σ) (segFuel : Nat) (st b : ExecState P σ),
      st.k.next = .none → st.conts.length = st.k.tasks.length → loopStep S segFuel st = .inr b →
      ∃ t s' p, t ∈ st.k.offered ∧ st.conts[t]? = some p ∧
        (∃ tk, st.k.tasks[t]? = some tk ∧ tk.finished = false) ∧
        (∀ i, i ≠ t → i < st.conts.length → b.conts[i]? = st.conts[i]?) ∧
        (runSegment S t segFuel (segStart st t s') p = .atSwitch b ∨
          ∃ st' tk', runSegment S t segFuel (segStart st t s') p = .returned st' ∧
            b.k.tasks[t]? = some tk' ∧ tk'.finished = true ∧ b.conts[t]? = some (.pure ()))) ∧
    (∀ (S : Scheduler σ) (segFuel : Nat) (ms : MaxSteps) (a b : ExecState P σ) (j : Nat) (tk : Task),
      LoopInv ms a → Reach S segFuel a b → a.k.tasks[j]? = some tk → tk.finished = true →
      (∃ tk', b.k.tasks[j]? = some tk' ∧ tk'.finished = true) ∧ j ∉ b.k.offered ∧
        b.conts[j]? = a.conts[j]?) := by
  refine ⟨?_, ?_, ?_⟩
  · intro S me fuel st fut body kont hc
    refine ⟨{ st with k := (st.k.spawnTask (some me)).2, conts := st.conts ++ [P.bodies body] }, ?_, rfl, ?_⟩
    · exact (task_ids_unique (P := P) (σ := σ)).2.2.2.1 S me fuel st fut body kont
    · simp [← hc]
  · intro S segFuel st b hn hc hs
    obtain ⟨t, s', p, hoff, hp, hend⟩ := iter_fine hn hc hs
    have htr := runSegment_fineTrace S t segFuel (segStart st t s') p
    have htl : t < st.conts.length := (List.getElem?_eq_some_iff.1 hp).1
    refine ⟨t, s', p, hoff, hp, ?_, ?_, ?_⟩
    · obtain ⟨tk, h1, h2⟩ := mem_live.mp (offered_subset_live hoff)
      exact ⟨tk, h1, h2⟩
    · intro i hne hi
      have hco := (htr.conts_other hne (by rw [segStart_conts]; exact hi)).1
      rcases hend with he | ⟨st', tk0, tk0', he, _, _, rfl⟩
      · rw [he] at hco; exact hco
      · rw [he] at hco; exact hco
    · rcases hend with he | ⟨st', tk0, tk0', he, h1, h2, hb⟩
      · exact .inl he
      · refine .inr ⟨st', tk0', he, ?_⟩
        obtain ⟨h3, h4⟩ := iter_returned_finished he h1 h2 hb
        refine ⟨h3, h4, ?_⟩
        subst hb
        -- the segment's final state stored `.pure ()` for `t`
        obtain ⟨_, c, hc1, hc2⟩ := returned_conts htr he
        show st'.conts[t]? = some (.pure ())
        rw [hc2]
        exact List.getElem?_set_self (by simp only [segStart_conts] at hc1; omega)
  · intro S segFuel ms a b j tk hi hr hj hf
    obtain ⟨⟨tk', h1, h2⟩, h3⟩ := reach_finished hi hr hj hf
    exact ⟨⟨tk', h1, h2⟩, not_offered_of_finished h1 h2, h3⟩

/-- non-vacuity: `exP` runs to completion with both closures returning -/
example : (execute exP firstSched .none 0 () 20 20).outcome = .ok ∧
    (execute exP firstSched .none 0 () 20 20).st.k.tasks.length = 2 ∧
    (execute exP firstSched .none 0 () 20 20).st.k.tasks.all (·.finished) = true := by decide

end threads

section tls_link
open ShuttleProofs.TlsRefine

/-- **The harness model's thread-locals are a `StorageMap`.**  The TLS fields of a task's `Local` in Lang.lean
(`tlsSlots`, `tlsOrder`) denote a `StorageMap Unit` (`toStorage`); `tlsTryWith` is "read the `Local`, apply
`tlsAccess`, write it back when a slot was created", and `tlsAccess` is `LocalKey::try_with` on that map:
`"seen"` ⇔ the slot is alive, `"destroyed"` ⇔ it is a tombstone (nothing changes: no resurrection), `"init"` ⇔
it was never initialised and is now created at the end of the destruction order; one round of `tlsPopLoop`
(`tlsPopStep`) is `StorageMap::pop`.  So the storage theorems above speak about what `tls_with` and the
destructor loop of `threadFn` do in the executable model; each task (`Local` is per body, the main one
included) has its own map. -/
theorem tls_model_refines_storage (k oi : Nat) (l : Local) :
    (tlsTryWith k oi =
      Prog.bind (K.getL (Heap.localL k)) (fun l =>
        match l.tlsSlots.find? (·.1 == oi) with
        | some (_, true) => Prog.pure (tlsAccess l oi).1
        | some (_, false) => Prog.pure (tlsAccess l oi).1
        | none => Prog.bind (K.setL (Heap.localL k) (tlsAccess l oi).2) (fun _ => Prog.pure (tlsAccess l oi).1))) ∧
    (((tlsAccess l oi).1 = "seen" ∧ (toStorage l).get (key oi) = some (.ok ()) ∧ (tlsAccess l oi).2 = l) ∨
     ((tlsAccess l oi).1 = "destroyed" ∧ (toStorage l).get (key oi) = some (.error .alreadyDestructed) ∧
        (tlsAccess l oi).2 = l) ∨
     ((tlsAccess l oi).1 = "init" ∧ (toStorage l).get (key oi) = none ∧
        toStorage (tlsAccess l oi).2 = (toStorage l).pushed (key oi) ())) ∧
    ((l.tlsOrder = [] ∧ tlsPopStep l = none ∧ (toStorage l).pop = .empty) ∨
     (∃ k' rest l', l.tlsOrder = k' :: rest ∧ tlsPopStep l = some (k', l') ∧
        toStorage l' = { locals := tombstone (toStorage l).locals (key k'), order := (toStorage l).order.tail })) :=
  ⟨tlsTryWith_eq k oi, tlsAccess_refines l oi, tlsPopStep_refines l⟩

example : (tlsAccess { tlsSlots := [(3, false), (5, true)], tlsOrder := [5] } 3).1 = "destroyed" ∧
    (tlsAccess { tlsSlots := [(3, false), (5, true)], tlsOrder := [5] } 5).1 = "seen" ∧
    (tlsAccess { tlsSlots := [(3, false), (5, true)], tlsOrder := [5] } 7).2.tlsOrder = [5, 7] := by decide

end tls_link

section scope
open ShuttleProofs.Kernel ShuttleProofs.Thread

variable {σ : Type}

/-- **scope_waits_for_all.**
(a) A scoped thread is `thread_fn(wrapper, switch_before_exit = false)` where the wrapper runs the thread's
    closure, its own pre-exit switch and then `scopeExit`; the thread's thread-local destructors and the
    wake-up of its joiner come *after* `scopeExit` (in `thread_fn`).  So what `scope` waits for is the return of
    every scoped *closure* — not the end of the scoped threads: their TLS destructors may still run, and the
    tasks are not yet `Finished`, when `scope` returns (the same holds for the Rust code, thread.rs:88-109).
(b) At the end of the scope the main task goes on at once — heap untouched, no flag set — when the counter is 0;
    otherwise, in one segment, it sets the scope's `mainWaiting` flag, blocks itself with `block(false)` and
    switches — by `join_returns_only_when_finished` (b) it then stays blocked until some segment issues
    `unblock(main)`.
(c) `scopeExit` decrements the counter and changes no task (the kernel is left exactly as it was) unless it read
    the counter at 1 (last running thread) **and** found the flag set.  (Stronger than before the repair of F10,
    where only "unless it read 1" held: a thread that is the last one to exit while the main task is still inside
    the scope closure now changes no task either.)
(d) `scopeExit` writes nothing but its scope's counter: every scope keeps its `mainWaiting` flag and its
    `mainTask`, and every other scope its counter.  Hence a scoped thread that exits while the flag is unset
    leaves it unset, and with (b): the main task blocked at the end of the scope is woken by the thread that
    takes the counter from 1 to 0, not by an earlier one.
Not proven as a theorem (it is a fact about all of `execOp`, some 300 lines of harness operations): that no
*other* harness operation writes a scope's counter or flag; in Lang.lean the counter is written by `scope_spawn`
(+1) and `scopeExit` (−1) only and the flag by `scopeClose` only. -/
theorem scope_waits_for_all (ir : IR) :
    (∀ k sid, ir.scopedBody k sid =
      threadFn ir k (do
        runOps ir k ((ir.tasks[k]?).getD {}).ops (2 * ((ir.tasks[k]?).getD {}).ops.length + 4) 0
        let t ← K.exitTruncates
        if t then K.switch else pure ()
        scopeExit sid) false) ∧
    (∀ (S : Scheduler σ) (me fuel : Nat) (st : ExecState ir.program σ) (sid : Nat)
        (kont : Unit → ShuttleModel.P Unit),
      (((st.u.scopes[sid]?).getD {}).running = 0 →
        runSegment S me (fuel + 1) st (Prog.bind (scopeClose sid) kont) = runSegment S me fuel st (kont ())) ∧
      (((st.u.scopes[sid]?).getD {}).running ≠ 0 →
        runSegment S me (fuel + 4) st (Prog.bind (scopeClose sid) kont) =
          match st.k.modTask me (·.block false) with
          | .ok k' => .atSwitch { st with u := withMainWaiting st.u sid, k := k',
                                          conts := st.conts.set me (kont ()) }
          | .error e => .panicked e { st with u := withMainWaiting st.u sid })) ∧
    (∀ (S : Scheduler σ) (me fuel : Nat) (st : ExecState ir.program σ) (sid : Nat)
        (kont : Unit → ShuttleModel.P Unit),
      (((st.u.scopes[sid]?).getD {}).running ≠ 1 ∨ ((st.u.scopes[sid]?).getD {}).mainWaiting = false) →
        runSegment S me (fuel + 2) st (Prog.bind (scopeExit sid) kont) =
          runSegment S me fuel { st with u := afterScopeExit st.u sid } (kont ())) ∧
    (∀ (h : Heap) (sid : Nat),
      (afterScopeExit h sid).scopes.length = h.scopes.length ∧
      (∀ s : Nat, ((afterScopeExit h sid).scopes[s]?).map ScopeState.mainWaiting =
        (h.scopes[s]?).map ScopeState.mainWaiting) ∧
      (∀ s : Nat, ((afterScopeExit h sid).scopes[s]?).map ScopeState.mainTask =
        (h.scopes[s]?).map ScopeState.mainTask) ∧
      (∀ s : Nat, s ≠ sid → (afterScopeExit h sid).scopes[s]? = h.scopes[s]?) ∧
      ((afterScopeExit h sid).scopes[sid]?).map ScopeState.running =
        (h.scopes[sid]?).map (fun sc => sc.running - 1)) :=
  ⟨scopedBody_eq ir,
   fun S me fuel st sid kont =>
     runSegment_scopeClose (i := ir.initHeap) (b := ir.bodiesA) (u := ir.unwind) S me fuel st sid kont,
   fun S me fuel st sid kont =>
     (runSegment_scopeExit (i := ir.initHeap) (b := ir.bodiesA) (u := ir.unwind) S me fuel st sid kont).1,
   fun h sid =>
     have := afterScopeExit_spec h sid
     ⟨this.1, this.2.1, this.2.2.1, this.2.2.2.1, this.2.2.2.2.1⟩⟩

example : (afterScopeExit { scopes := [{ running := 2, mainTask := 0, mainWaiting := true }] } 0).scopes.map
    (fun sc => (sc.running, sc.mainWaiting)) = [(1, true)] := by
  decide

/-- non-vacuity of (b)/(c), both orders of the regular end of a scope (`exScopeEnd`: real `scopeClose` and
`scopeExit`).  `firstSched`: main blocks at the end of the scope first (flag set), the scoped thread's exit then
unblocks it.  `lastSched`: the scoped thread exits first (counter 1, flag unset: no unblock), main then reads the
counter at 0 and neither sets the flag nor blocks.  Both end `ok` with main past the scope. -/
example :
    (execute exScopeEnd firstSched .none 0 () 20 20).outcome = .ok ∧
    Ev.obs "scope returned" ∈ (execute exScopeEnd firstSched .none 0 () 20 20).st.log.toList ∧
    (execute exScopeEnd firstSched .none 0 () 20 20).st.u.scopes.map (fun sc => (sc.running, sc.mainWaiting))
      = [(0, true)] ∧
    (execute exScopeEnd lastSched .none 0 () 20 20).outcome = .ok ∧
    Ev.obs "scope returned" ∈ (execute exScopeEnd lastSched .none 0 () 20 20).st.log.toList ∧
    (execute exScopeEnd lastSched .none 0 () 20 20).st.u.scopes.map (fun sc => (sc.running, sc.mainWaiting))
      = [(0, false)] := by decide

/-- **scope_unblock_only_when_waiting.**
History: in the pinned tree the scoped thread that read the counter at 1 applied `unblock()` to the scope's main
task *unconditionally* (thread.rs:99-101), so a main task blocked in a `recv` / `Condvar::wait` / `join` inside
the scope closure was woken with nothing to receive — defect F10, formerly recorded here as
`scope_unblock_is_unconditional_witness`; repaired in /repo 9ec3e7a (`Scope::main_task_waiting`).  For the
repaired code:
(a) *iff.*  A scoped thread's exit code (`scopeExit`) issues `unblock(main_task)` exactly when it read the counter
    at 1 (it is the last running scoped thread) **and** the scope's `mainWaiting` flag is set: in that case it
    continues with the (unfinished) main task runnable; in every other case — in particular whenever the flag is
    unset, whatever the counter — it continues with the kernel, i.e. every task's state, exactly as it was.
(b) *who sets the flag.*  `scopeExit` leaves every scope's flag as it found it (`scope_waits_for_all` (d)); a new
    `ScopeState` starts with the flag unset; `scopeClose` leaves the heap untouched when the counter is 0, and
    otherwise sets the flag of *its* scope only and, in the same segment — no other task runs in between —, takes
    its own task to `Blocked(false)` and stops at a scheduling point.  So the flag of scope `sid` is set only from
    the moment its main task blocks at the end of `scope`.
(c) Hence a main task that is blocked in some other operation inside the scope closure (its `scopeClose` has not
    run: flag unset) is not touched by any scoped thread's exit.  Concretely (`exF10`, the former F10 witness,
    now over the real `scopeExit`): main blocks inside the closure on something that never happens while the
    last scoped thread exits; under both schedulers the execution is reported as a deadlock with main blocked —
    the verdict of the same program without any scoped-thread exit code (`exDeadlock`) —, main never runs past
    its blocking point, and the flag is still unset at the end.
(As in `scope_waits_for_all`, that no other harness operation writes the flag is read off Lang.lean, not proven
over `execOp`.)  The full-stack check of this scenario is /verif/corpus/C07/f10_scope_unblock_blocked_sender.vp. -/
theorem scope_unblock_only_when_waiting (ir : IR) :
    (∀ (S : Scheduler σ) (me fuel : Nat) (st : ExecState ir.program σ) (sid : Nat)
        (kont : Unit → ShuttleModel.P Unit),
      ((((st.u.scopes[sid]?).getD {}).running ≠ 1 ∨ ((st.u.scopes[sid]?).getD {}).mainWaiting = false) →
        runSegment S me (fuel + 2) st (Prog.bind (scopeExit sid) kont) =
          runSegment S me fuel { st with u := afterScopeExit st.u sid } (kont ())) ∧
      (∀ tm : Task, ((st.u.scopes[sid]?).getD {}).running = 1 → ((st.u.scopes[sid]?).getD {}).mainWaiting = true →
        st.k.tasks[((st.u.scopes[sid]?).getD {}).mainTask]? = some tm → tm.finished = false →
        runSegment S me (fuel + 3) st (Prog.bind (scopeExit sid) kont) =
          runSegment S me fuel
            { st with u := afterScopeExit st.u sid,
                      k := st.k.setTask ((st.u.scopes[sid]?).getD {}).mainTask
                        { tm with state := .runnable, blockedInPark := false } } (kont ()))) ∧
    ((∀ (h : Heap) (sid s : Nat), ((afterScopeExit h sid).scopes[s]?).map ScopeState.mainWaiting =
        (h.scopes[s]?).map ScopeState.mainWaiting) ∧
     (∀ r m : Nat, ({ running := r, mainTask := m } : ScopeState).mainWaiting = false) ∧
     (∀ (S : Scheduler σ) (me fuel : Nat) (st : ExecState ir.program σ) (sid : Nat)
        (kont : Unit → ShuttleModel.P Unit),
      (((st.u.scopes[sid]?).getD {}).running = 0 →
        runSegment S me (fuel + 1) st (Prog.bind (scopeClose sid) kont) = runSegment S me fuel st (kont ())) ∧
      (∀ tm : Task, ((st.u.scopes[sid]?).getD {}).running ≠ 0 → st.k.tasks[me]? = some tm → tm.finished = false →
        runSegment S me (fuel + 4) st (Prog.bind (scopeClose sid) kont) =
          .atSwitch { st with u := withMainWaiting st.u sid,
                              k := st.k.setTask me { tm with state := .blocked false },
                              conts := st.conts.set me (kont ()) })) ∧
     (∀ (h : Heap) (sid : Nat),
      (∀ s : Nat, s ≠ sid → (withMainWaiting h sid).scopes[s]? = h.scopes[s]?) ∧
      (∀ sc, h.scopes[sid]? = some sc →
        (withMainWaiting h sid).scopes[sid]? = some { sc with mainWaiting := true }))) ∧
    ((execute exF10 firstSched .none 0 () 20 20).outcome = .deadlock [(0, false, false)] ∧
     (execute exF10 lastSched .none 0 () 20 20).outcome = .deadlock [(0, false, false)] ∧
     Ev.obs "main resumed although nothing it waited for happened" ∉
       (execute exF10 firstSched .none 0 () 20 20).st.log.toList ∧
     (execute exF10 firstSched .none 0 () 20 20).st.u.scopes.map (fun sc => (sc.running, sc.mainWaiting))
       = [(0, false)] ∧
     (execute exDeadlock firstSched .none 0 () 20 20).outcome = .deadlock [(0, false, false)]) := by
  refine ⟨?_, ⟨fun h sid s => (afterScopeExit_spec h sid).2.1 s, fun _ _ => rfl, ?_, ?_⟩, by decide⟩
  · intro S me fuel st sid kont
    have hx := runSegment_scopeExit (i := ir.initHeap) (b := ir.bodiesA) (u := ir.unwind) S me fuel st sid kont
    refine ⟨hx.1, ?_⟩
    intro tm hr hw hm hf
    refine Eq.trans (hx.2 ⟨hr, hw⟩) ?_
    simp [Kernel.modTask, Kernel.getTask?, hm, Task.unblock, hf]
    rfl
  · intro S me fuel st sid kont
    have hx := runSegment_scopeClose (i := ir.initHeap) (b := ir.bodiesA) (u := ir.unwind) S me fuel st sid kont
    refine ⟨hx.1, ?_⟩
    intro tm hr hm hf
    refine Eq.trans (hx.2 hr) ?_
    simp [Kernel.modTask, Kernel.getTask?, hm, Task.block, hf]
    rfl
  · intro h sid
    have := withMainWaiting_spec h sid
    exact ⟨this.2.1, this.2.2.1⟩

/-- non-vacuity: a heap satisfying the premise of (a), first case (counter 1, flag unset — the heap `exF10` starts
from); after `withMainWaiting` it satisfies the premise of the second case (that is the state in which the scoped
thread of `exScopeEnd` exits under `firstSched`, where the main task is then unblocked and the execution ends
`ok`, see above) -/
example : ∃ h : Heap,
    ((h.scopes[0]?).getD ({} : ScopeState)).running = 1 ∧ ((h.scopes[0]?).getD ({} : ScopeState)).mainWaiting = false ∧
    (((withMainWaiting h 0).scopes[0]?).getD ({} : ScopeState)).running = 1 ∧
    (((withMainWaiting h 0).scopes[0]?).getD ({} : ScopeState)).mainWaiting = true ∧
    (((afterScopeExit (withMainWaiting h 0) 0).scopes[0]?).getD ({} : ScopeState)).running = 0 :=
  ⟨{ scopes := [{ running := 1, mainTask := 0 }] }, rfl, rfl, rfl, rfl, rfl⟩

end scope

end ShuttleProofs.C07
