import ShuttleProofs.C20Pl
open ShuttleProofs.C20Pl ShuttleProofs.Pl

#print axioms pl_permit_accounting
#print axioms pl_exclusion
#print axioms pl_upgrade_poll_never_succeeds
#print axioms pl_one_upgradable
#print axioms pl_try_leaves_nothing
#print axioms pl_try_upread_rollback
#print axioms pl_upgrade_overtaken_witness
#print axioms pl_upgrade_atomic_is_false
#print axioms pl_upgrade_atomic_partial
#print axioms pl_grants_are_a_prefix
#print axioms pl_down_up_deadlock_witness
#print axioms pl_downgrades_do_not_wait_partial
#print axioms inv_step
#print axioms inv_reachable
