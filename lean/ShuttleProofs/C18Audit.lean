import ShuttleProofs.C18
open ShuttleModel.C18
#print axioms batches_sum_eq_avail
#print axioms conservation
#print axioms conservation_step
#print axioms source_invariants_1_to_4
#print axioms source_invariant_1_unfair_fails_witness
#print axioms acquire_removes_exactly_n
#print axioms try_iff_immediate
#print axioms try_succeeds_iff
#print axioms fair_fifo
#print axioms unfair_any_fitting_waiter_woken
#print axioms unfair_losers_reblocked
#print axioms cancel_safe
#print axioms close_fails_all
#print axioms wakes_current_poller
#print axioms waiter_untouched_by_others
#print axioms no_internal_assertion_fails
#print axioms try_acquire_zero_panics
#print axioms wrappers_atomic_granularity
#print axioms poison_release_wakes_nobody
#print axioms fair_no_overtaking
#print axioms request_amount_immutable
