import ShuttleProofs.C03
import ShuttleProofs.Lemmas.FutureExamples

/-!
# C17 — futures: wakers, the poll loops, `JoinHandle`, `abort`

Part 1 (this section): the kernel side — `Task::wake`, `Task::sleep_unless_woken`, `raw_waker_wake`
(`KOp.wake`), and how `run_to_completion` treats `Sleeping` tasks.  Model: `ShuttleModel/Kernel.lean`.
Everything holds for **every** program, **every** scheduler, every `MaxSteps`, seed and fuel.

Vocabulary (`ShuttleProofs/Lemmas/FutureKernel*.lean`):
* `Req` / `req o` — the label of a kernel request; `KStep me r st st'` — one executed request of task `me`;
  `KTrace S me st p l e` — the segment of `me` running `p` from `st` executes the requests `l` (each paired with
  the state it produced) and ends with `e`; `runSegment_ktrace`: every `runSegment` has one.
* `IterEv S segFuel st t l b` — a continuing iteration of the run loop: task `t` was chosen at loop head `st`, its
  segment executed `l`, the next loop head is `b`.  `ReachEv S segFuel st0 evs st` — loop head `st` is reached from
  `st0`, the requests executed on the way being `evs : List (task × Req)`, in execution order.
* `ghostStep i me w r` / `wokenGhost i w evs` — the ghost flag "the waker of task `i` has been invoked since the
  latest `sleep_unless_woken` of task `i`": set by every `wake i` (whoever issues it), cleared by
  `sleepUnlessWoken` issued by `i`.
* `SleepingAt i w ts` — task `i` is `Sleeping` with `woken = w`;  `disturbs i r` — `r` is `wake i`, `unblock i` or
  `blockTask i`.
-/

namespace ShuttleProofs.C17
open ShuttleModel ShuttleProofs.Kernel

variable {P : Program} {σ : Type}

/-! ## `wake` -/

/-- **wake_sets_woken_and_unblocks_sleeper** (`Task::wake`): the flag is set; a `Sleeping` task becomes
`Runnable` (through `unblock`, which also clears `blocked_in_park`); the state of a task that is `Runnable`,
`Blocked` or `Finished` is not changed (only the flag is set). -/
theorem wake_sets_woken_and_unblocks_sleeper (t : Task) :
    (t.state = .sleeping →
      t.wake = .ok { t with woken := true, state := .runnable, blockedInPark := false }) ∧
    (t.state ≠ .sleeping → t.wake = .ok { t with woken := true }) :=
  ⟨Task.wake_sleeping t, Task.wake_not_sleeping t⟩

/-- the same for the kernel request (`raw_waker_wake`), whichever task `me` issues it — `me = t` included: in a
live execution, for an unfinished task `t`, the request never fails and does exactly `Task::wake` on `t`. -/
theorem wake_request (S : Scheduler σ) (me fuel : Nat) (st : ExecState P σ) (t : Nat) (tk : Task)
    (kont : Unit → Prog P.U Unit) (hc : st.k.current ≠ .stopped ∧ st.k.current ≠ .finished)
    (hk : st.k.tasks[t]? = some tk) (hf : tk.state ≠ .finished) :
    runSegment S me (fuel + 1) st (.op (.wake t) kont) =
      runSegment S me fuel { st with k := (st.k.setTask t
        (if tk.state = .sleeping then { tk with woken := true, state := .runnable, blockedInPark := false }
         else { tk with woken := true })) } (kont ()) := by
  rw [runSegment]
  have h1 : (st.k.current == Cur.stopped || st.k.current == Cur.finished) = false := by
    simp [hc.1, hc.2]
  simp only [h1, Bool.false_eq_true, if_false, Kernel.getTask?, hk, Task.finished, beq_iff_eq, hf,
    Kernel.modTask]
  by_cases hs : tk.state = .sleeping
  · rw [Task.wake_sleeping tk hs]; simp only [hs, if_true]
  · rw [Task.wake_not_sleeping tk hs]; simp only [hs, if_false]

example : (({ state := .sleeping } : Task).wake.toOption.map (fun t => (t.state, t.woken))) =
    some (.runnable, true) := by decide
example : (({ state := .blocked false } : Task).wake.toOption.map (fun t => (t.state, t.woken))) =
    some (.blocked false, true) := by decide
example : (({ state := .finished } : Task).wake.toOption.map (fun t => (t.state, t.woken))) =
    some (.finished, true) := by decide

/-- **finished_task_wake_is_noop** (`if waiter.finished() { return }`): the request changes nothing. -/
theorem finished_task_wake_is_noop (S : Scheduler σ) (me fuel : Nat) (st : ExecState P σ) (t : Nat)
    (tk : Task) (kont : Unit → Prog P.U Unit) (hk : st.k.tasks[t]? = some tk) (hf : tk.state = .finished) :
    runSegment S me (fuel + 1) st (.op (.wake t) kont) = runSegment S me fuel st (kont ()) := by
  rw [runSegment]
  split
  · rfl
  · simp [Kernel.getTask?, hk, Task.finished, hf]

/-- **wake_after_execution_end_is_noop** (`if state.is_finished() { return }`): once `current_task` is `Stopped`
or `Finished`, invoking any waker — even one whose task id is unknown — changes nothing. -/
theorem wake_after_execution_end_is_noop (S : Scheduler σ) (me fuel : Nat) (st : ExecState P σ) (t : Nat)
    (kont : Unit → Prog P.U Unit) (hc : st.k.current = .stopped ∨ st.k.current = .finished) :
    runSegment S me (fuel + 1) st (.op (.wake t) kont) = runSegment S me fuel st (kont ()) := by
  rw [runSegment]
  rcases hc with hc | hc <;> simp [hc]

/-- non-vacuity: a wake of a finished task / of a sleeping task after the execution has ended leaves the task
table as it is (the sleeping task stays asleep), while in a live execution the same request wakes it -/
example :
    (runSegment (P := exSelfWake) firstSched 0 5 (exEndedState exSelfWake)
      (.op (.wake 1) fun _ => .op (.wake 0) fun _ => .pure ())).st.k.tasks.map (fun t => (t.state, t.woken)) =
      [(.finished, false), (.sleeping, false)] ∧
    (runSegment (P := exSelfWake) firstSched 0 5
      { exEndedState exSelfWake with k := { (exEndedState exSelfWake).k with current := .some 0 } }
      (.op (.wake 1) fun _ => .op (.wake 0) fun _ => .pure ())).st.k.tasks.map (fun t => (t.state, t.woken)) =
      [(.finished, false), (.runnable, true)] := by decide

/-! ## `sleep_unless_woken` and lost wake-ups -/

/-- `Task::sleep_unless_woken` as a kernel request of an unfinished task: the flag is consumed; the task goes to
sleep iff the flag was down. -/
theorem sleepUnlessWoken_request (S : Scheduler σ) (me fuel : Nat) (st : ExecState P σ) (tk : Task)
    (kont : Unit → Prog P.U Unit) (hk : st.k.tasks[me]? = some tk) (hf : tk.state ≠ .finished) :
    runSegment S me (fuel + 1) st (.op .sleepUnlessWoken kont) =
      runSegment S me fuel { st with k := (st.k.setTask me
        (if tk.woken = true then { tk with woken := false }
         else { tk with woken := false, state := .sleeping })) } (kont ()) := by
  rw [runSegment]
  simp only [Kernel.modTask, Kernel.getTask?, hk]
  cases hw : tk.woken
  · rw [Task.sleepUnlessWoken_not_woken tk hw hf]; simp
  · rw [Task.sleepUnlessWoken_woken tk hw]; simp

/-- **no_lost_wake**, one task: after `wake` (on an unfinished task in any state), `sleep_unless_woken` does not
put the task to sleep — it stays `Runnable` if it was `Runnable` or `Sleeping` — and consumes the flag; the
flag is consumed exactly once: a second `sleep_unless_woken` without a wake in between does sleep. -/
theorem wake_then_sleepUnlessWoken (t : Task) (hf : t.state ≠ .finished) :
    ∃ t1 t2 t3, t.wake = .ok t1 ∧ t1.sleepUnlessWoken = .ok t2 ∧ t2.sleepUnlessWoken = .ok t3 ∧
      t1.woken = true ∧ t1.state ≠ .sleeping ∧
      t2.woken = false ∧ t2.state = t1.state ∧ (t.state = .sleeping ∨ t.state = .runnable → t2.state = .runnable) ∧
      t3.woken = false ∧ t3.state = .sleeping := by
  by_cases hs : t.state = .sleeping
  · refine ⟨_, _, _, Task.wake_sleeping t hs, Task.sleepUnlessWoken_woken _ rfl,
      Task.sleepUnlessWoken_not_woken _ rfl (by simp), rfl, by simp, rfl, rfl, fun _ => rfl, rfl, rfl⟩
  · refine ⟨_, _, _, Task.wake_not_sleeping t hs, Task.sleepUnlessWoken_woken _ rfl,
      Task.sleepUnlessWoken_not_woken _ rfl (by simpa using hf), rfl, hs, rfl, rfl, ?_, rfl, rfl⟩
    rintro (h | h)
    · exact absurd h hs
    · exact h

/-- **no_lost_wake**, executions: at every loop head `st` reachable in any execution there is a list `evs` of the
requests executed so far (`ReachEv`: task, request, in execution order) such that for every unfinished task `i`
 * the `woken` flag is exactly the ghost flag "some task — `i` itself included — executed `wake i` after the latest
   `sleepUnlessWoken` executed by `i`", and
 * if `i` is `Sleeping`, the ghost flag is down: no wake for `i` has been executed since its latest
   `sleepUnlessWoken` started.
Hence (with `sleepUnlessWoken_request`) the next `sleep_unless_woken` of `i` after such a wake finds `woken = true`,
leaves `i` runnable and clears the flag. -/
theorem no_lost_wake (P : Program) (S : Scheduler σ) (ms : MaxSteps) (seed : Nat) (s : σ) (segFuel n : Nat)
    (st : ExecState P σ) (h : ReachN S segFuel n (initState P ms seed s) st) :
    ∃ evs, ReachEv S segFuel (initState P ms seed s) evs st ∧
      ∀ i tk, st.k.tasks[i]? = some tk → tk.state ≠ .finished →
        tk.woken = wokenGhost i false evs ∧ (tk.state = .sleeping → wokenGhost i false evs = false) := by
  obtain ⟨evs, he⟩ := reachEv_of_reachN (LoopInv.init P ms seed s) h
  refine ⟨evs, he, ?_⟩
  intro i tk hk hf
  have hw := (WokenIs.reachEv he i false (WokenIs.init P ms seed s i)).1 tk hk
    (by simpa [Task.finished] using hf)
  have hsl := SleepInv.reachN (LoopInv.init P ms seed s) (SleepInv.init P ms seed s) h i tk hk
  exact ⟨hw, fun hs => by rw [← hw]; exact hsl hs⟩

/-- **no_lost_wake** inside a segment (the granularity at which `wake` and `sleep_unless_woken` interleave): in
the segment of task `me` started in a live execution, after every executed request the `woken` flag of every
unfinished task `i` is the ghost flag folded over the requests executed so far, and `Sleeping ⇒ !woken`. -/
theorem no_lost_wake_in_segment (S : Scheduler σ) (me fuel : Nat) (st : ExecState P σ) (p : Prog P.U Unit)
    (hc : st.k.current = .some me) (hinv : SleepInv st.k.tasks) (i : Nat) (g0 : Bool)
    (h0 : WokenIs i g0 st.k.tasks) :
    ∃ l, KTrace S me st p l (runSegment S me fuel st p) ∧
      ∀ a x b, l = a ++ x :: b →
        WokenIs i (((a ++ [x]).map (·.1)).foldl (ghostStep i me) g0) x.2.k.tasks ∧ SleepInv x.2.k.tasks := by
  obtain ⟨l, htr⟩ := runSegment_ktrace S me fuel st p
  refine ⟨l, htr, ?_⟩
  intro a x b hl
  have h1 := (KTrace.ghost_inv (ghostStep i me) (fun g ts c => c = .some me ∧ WokenIs i g ts)
    (fun g r st1 st2 hi hs => ⟨by rw [hs.current]; exact hi.1, hi.2.kstep hi.1 hs⟩) htr g0 ⟨hc, h0⟩).1 a x b hl
  exact ⟨h1.2, (SleepInv.ktrace htr hinv).1 x (by rw [hl]; simp)⟩

/-- `Sleeping ⇒ !woken` also holds in the state in which any execution ends, whatever the outcome. -/
theorem sleeping_implies_not_woken_final (P : Program) (S : Scheduler σ) (ms : MaxSteps) (seed : Nat) (s : σ)
    (fuel segFuel : Nat) (i : Nat) (tk : Task)
    (hk : (execute P S ms seed s fuel segFuel).st.k.tasks[i]? = some tk) (hs : tk.state = .sleeping) :
    tk.woken = false := by
  obtain ⟨stf, ⟨n, hr⟩, _, hf⟩ := execute_final P S ms seed s fuel segFuel
  have h1 := SleepInv.reachN (LoopInv.init P ms seed s) (SleepInv.init P ms seed s) hr
  exact SleepInv.final h1 hf i tk hk hs

/-- non-vacuity (`exSelfWake`): the task invokes its own waker during its "poll"; the first
`sleep_unless_woken` then does not sleep (the task is scheduled again and gets to `setU 1`), the second one does:
the run ends in a deadlock with the task `Sleeping`, `woken = false`. -/
example :
    (execute exSelfWake firstSched .none 0 () 20 20).outcome = .deadlock [(0, false, true)] ∧
    uVal (execute exSelfWake firstSched .none 0 () 20 20).st = 1 ∧
    obsTask (execute exSelfWake firstSched .none 0 () 20 20).st.k 0 = some (.sleeping, false, false) := by
  decide

/-- non-vacuity: a wake by another task that arrives *before* the `sleep_unless_woken` is not lost
(`exWakeEarly`: the child completes, `u = 7`); without any wake the child would sleep forever (`exPending`). -/
example :
    (execute exWakeEarly firstSched .none 0 () 20 20).outcome = .ok ∧
    uVal (execute exWakeEarly firstSched .none 0 () 20 20).st = 7 ∧
    (execute (exPending false) lastSched .none 0 () 20 20).outcome = .deadlock [(1, false, true)] ∧
    uVal (execute (exPending false) lastSched .none 0 () 20 20).st = 0 := by decide

/-- non-vacuity of the ghost flag: the requests of `exSelfWake` up to its first `switch` -/
example : wokenGhost 0 false [(0, .wake 0)] = true ∧
    wokenGhost 0 false [(0, .wake 0), (0, .sleepUnlessWoken)] = false ∧
    wokenGhost 1 false [(0, .wake 1), (0, .sleepUnlessWoken), (1, .other)] = true := by decide

/-! ## a pending future whose waker is not invoked -/

/-- **pending_without_wake_not_runnable**: a task that is `Sleeping` at loop head `st0` (i.e. it executed
`sleep_unless_woken` with `woken = false`, `sleepUnlessWoken_request`) is still `Sleeping` (flag down) at every later
loop head `st`, as long as no `wake i` / `unblock i` / `blockTask i` request has been executed by any task.  Until
then it is not offered to the scheduler, does not count as runnable, and executes no request at all. -/
theorem pending_without_wake_not_runnable {S : Scheduler σ} {segFuel : Nat} {st0 st : ExecState P σ}
    {evs : List (Nat × Req)} (h : ReachEv S segFuel st0 evs st) {i : Nat} {w : Bool}
    (h0 : SleepingAt i w st0.k.tasks) (hq : ∀ e ∈ evs, disturbs i e.2 = false) :
    SleepingAt i w st.k.tasks ∧ i ∉ st.k.offered ∧
      (∀ tk, st.k.tasks[i]? = some tk → tk.runnable = false) ∧ ∀ e ∈ evs, e.1 ≠ i := by
  obtain ⟨h1, h2⟩ := SleepingAt.reachEv h h0 hq
  refine ⟨h1, h1.not_offered, ?_, h2⟩
  intro tk hk
  obtain ⟨tk', hk', hs, _⟩ := h1
  rw [hk] at hk'; cases hk'
  simp [Task.runnable, hs]

/-- one iteration: the sleeping task is not the one chosen, and only a request naming it can end its sleep -/
theorem pending_not_chosen {S : Scheduler σ} {segFuel : Nat} {st b : ExecState P σ} {t : Nat}
    {l : List (Req × ExecState P σ)} (h : IterEv S segFuel st t l b) {i : Nat} {w : Bool}
    (h0 : SleepingAt i w st.k.tasks) :
    t ≠ i ∧ ((∀ x ∈ l, disturbs i x.1 = false) → SleepingAt i w b.k.tasks) :=
  SleepingAt.iter h h0

/-- sleeping tasks are not progress: at a loop head where no task is `Runnable` (every unfinished task is
`Sleeping` or `Blocked`), the execution ends without consulting the scheduler — with a deadlock listing the
unfinished tasks whenever one of them is attached (C03). -/
theorem all_pending_ends_execution {ms : MaxSteps} (S : Scheduler σ) (segFuel : Nat) {st : ExecState P σ}
    (hi : LoopInv ms st) (hb : BoundOK st.k)
    (hno : ∀ (i : Nat) (tk : Task), st.k.tasks[i]? = some tk →
      tk.state = .sleeping ∨ tk.state = .finished ∨ ∃ sp, tk.state = .blocked sp) :
    ¬ Consults st.k ∧ ∃ st', loopStep S segFuel st =
      .inl ⟨if st.k.unfinishedAttached then .deadlock st.k.deadlockList else .ok, st'⟩ := by
  have := C03.spurious_not_progress S segFuel hi hb (fun i tk hk hr => by
    rcases hno i tk hk with h | h | ⟨sp, h⟩ <;> rw [h] at hr <;> cases hr)
  exact ⟨this.2.1, this.2.2⟩

/-- non-vacuity: in `exPending false` under `lastSched`, after two iterations the child (task 1) is `Sleeping`;
the hypotheses of `pending_without_wake_not_runnable` hold at that loop head, and main (the only other task)
never names task 1 afterwards: the run deadlocks on it. -/
example : ∃ st, ReachN lastSched 20 2 (initState (exPending false) .none 0 ()) st ∧
    SleepingAt 1 false st.k.tasks ∧ st.k.offered = [0] := by
  have h : (iterate lastSched 20 2 (initState (exPending false) .none 0 ())).map
      (fun st => (obsTask st.k 1, st.k.offered)) = some (some (.sleeping, false, false), [0]) := by decide
  cases hi : iterate lastSched 20 2 (initState (exPending false) .none 0 ()) with
  | none => rw [hi] at h; cases h
  | some st =>
    rw [hi] at h
    simp only [Option.map_some, Option.some.injEq, Prod.mk.injEq, obsTask] at h
    refine ⟨st, iterate_reachN hi, ?_, h.2⟩
    cases hk : st.k.tasks[1]? with
    | none => rw [hk] at h; simp at h
    | some tk =>
      rw [hk] at h
      simp only [Option.map_some, Option.some.injEq, Prod.mk.injEq] at h
      exact ⟨tk, hk, h.1.1, h.1.2.1⟩

/-- non-vacuity (`exWakeOther`): the sleeping child is polled again after main invokes its waker, and completes -/
example :
    (execute exWakeOther lastSched .none 0 () 20 20).outcome = .ok ∧
    uVal (execute exWakeOther lastSched .none 0 () 20 20).st = 7 ∧
    (iterate lastSched 20 2 (initState exWakeOther .none 0 ())).map (fun st => obsTask st.k 1) =
      some (some (.sleeping, false, false)) ∧
    (iterate lastSched 20 3 (initState exWakeOther .none 0 ())).map (fun st => obsTask st.k 1) =
      some (some (.runnable, true, false)) := by decide

/-! ## detached futures -/

/-- **detached_only_remainder_ends_ok**: at a loop head where every unfinished task is detached — e.g. spawned
futures whose `JoinHandle` was dropped, whether `Sleeping` (pending, never woken) or still `Runnable` — the
execution ends with `ok`; it is never reported as a deadlock, and the leftover tasks are not run. -/
theorem detached_only_remainder_ends_ok {ms : MaxSteps} (S : Scheduler σ) (segFuel : Nat) {st : ExecState P σ}
    (hi : LoopInv ms st) (hb : BoundOK st.k)
    (hd : ∀ (i : Nat) (tk : Task), st.k.tasks[i]? = some tk → tk.state ≠ .finished → tk.detached = true) :
    ∃ st', loopStep S segFuel st = .inl ⟨.ok, st'⟩ := by
  apply C03.detached_leftovers_ok S segFuel hi hb
  · apply unfinishedAttached_false_iff.mpr
    intro i tk hk hdt
    cases hf : tk.finished
    · have := hd i tk hk (by simpa [Task.finished] using hf)
      rw [hdt] at this; cases this
    · rfl
  · apply allRunnableDetached_iff.mpr
    intro i tk hk hr
    exact hd i tk hk (by rw [(Task.runnable_iff tk).mp hr]; simp)

/-- `detach` (what dropping a `JoinHandle` does to the task) only sets the `detached` flag: the task's `state` and
`woken` flag — whether and when it runs — are untouched; no request ever clears `detached`. -/
theorem detach_request (S : Scheduler σ) (me fuel : Nat) (st : ExecState P σ) (t : Nat) (tk : Task)
    (kont : Unit → Prog P.U Unit) (hk : st.k.tasks[t]? = some tk) :
    runSegment S me (fuel + 1) st (.op (.detach t) kont) =
      runSegment S me fuel { st with k := st.k.setTask t { tk with detached := true } } (kont ()) := by
  rw [runSegment]
  simp [Kernel.modTask, Kernel.getTask?, hk]

theorem detached_is_never_cleared {me : Nat} {r : Req} {st st' : ExecState P σ} (h : KStep me r st st')
    (i : Nat) (tk : Task) (hk : st.k.tasks[i]? = some tk) (hd : tk.detached = true) :
    ∃ tk', st'.k.tasks[i]? = some tk' ∧ tk'.detached = true := by
  obtain ⟨tk', h1, h2⟩ := h.old i tk hk
  exact ⟨tk', h1, h2.detached_mono hd⟩

/-- non-vacuity: with the `JoinHandle` dropped (`detach`) the never-woken child is left `Sleeping` and the run is
`ok`; the same program without the `detach` is a deadlock -/
example :
    (execute (exPending true) lastSched .none 0 () 20 20).outcome = .ok ∧
    obsTask (execute (exPending true) lastSched .none 0 () 20 20).st.k 1 = some (.sleeping, false, true) ∧
    (execute (exPending false) lastSched .none 0 () 20 20).outcome = .deadlock [(1, false, true)] := by decide

end ShuttleProofs.C17
